import AkVerif.Model.Membership
/-! helper lemmas for the group-member acceptor (C06, C19) -/
namespace AkVerif.Membership

/-! ### reachability plumbing -/

theorem mem_dedup {y : Core} : ∀ {l : List Core}, y ∈ dedup l ↔ y ∈ l
  | [] => by simp [dedup]
  | x :: xs => by
    unfold dedup
    by_cases hx : x ∈ xs
    · simp only [hx, if_true, List.mem_cons]
      rw [mem_dedup (l := xs)]
      constructor
      · intro h; exact Or.inr h
      · rintro (h | h)
        · subst h; exact hx
        · exact h
    · simp only [hx, if_false, List.mem_cons]
      rw [mem_dedup (l := xs)]

theorem runs_cons_alive {cfg : List String} {c : Core} {e : Ev} {es : List Ev} :
    runs cfg c (e :: es) ≠ [] ↔ ∃ c' ∈ stepN cfg c e, runs cfg c' es ≠ [] := by
  simp only [runs, ne_eq, List.flatMap_eq_nil_iff]
  constructor
  · intro h
    apply Classical.byContradiction
    intro hn
    apply h
    intro x hx
    apply Classical.byContradiction
    intro hne
    exact hn ⟨x, hx, hne⟩
  · rintro ⟨x, hx, h⟩ hall
    exact h (hall x hx)

theorem accepts_iff {cfg : List String} {c : Core} {tr : List Ev} :
    accepts cfg c tr = true ↔ runs cfg c tr ≠ [] := by
  unfold accepts
  cases runs cfg c tr <;> simp

/-- some state of the set survives the history -/
def alive (cfg : List String) (cs : List Core) (tr : List Ev) : Prop :=
  ∃ c ∈ cs, runs cfg c tr ≠ []

theorem alive_cons {cfg : List String} {cs : List Core} {e : Ev} {es : List Ev} :
    alive cfg cs (e :: es) ↔ alive cfg (stepSet cfg cs e) es := by
  unfold alive stepSet
  constructor
  · rintro ⟨c, hc, h⟩
    obtain ⟨c', hc', h'⟩ := runs_cons_alive.mp h
    exact ⟨c', mem_dedup.mpr (List.mem_flatMap.mpr ⟨c, hc, hc'⟩), h'⟩
  · rintro ⟨c', hc', h'⟩
    obtain ⟨c, hc, hcc⟩ := List.mem_flatMap.mp (mem_dedup.mp hc')
    exact ⟨c, hc, runs_cons_alive.mpr ⟨c', hcc, h'⟩⟩

theorem alive_nil {cfg : List String} {cs : List Core} : alive cfg cs [] ↔ cs ≠ [] := by
  unfold alive
  constructor
  · rintro ⟨c, hc, _⟩ h; rw [h] at hc; cases hc
  · intro h
    cases cs with
    | nil => exact absurd rfl h
    | cons c _ => exact ⟨c, List.mem_cons_self, by simp [runs]⟩

/-- the set simulation run by the driver decides exactly `alive` -/
theorem firstReject_none_iff (cfg : List String) :
    ∀ (tr : List Ev) (cs : List Core) (i : Nat), cs ≠ [] →
      (firstReject cfg cs tr i = none ↔ alive cfg cs tr)
  | [], cs, i, hne => by simp [firstReject, alive_nil, hne]
  | e :: es, cs, i, _ => by
    rw [alive_cons]
    unfold firstReject
    by_cases h : (stepSet cfg cs e).isEmpty = true
    · simp only [h, if_true]
      have : stepSet cfg cs e = [] := by simpa using h
      constructor
      · intro h'; cases h'
      · rintro ⟨c, hc, _⟩; rw [this] at hc; cases hc
    · simp only [h]
      have hne : stepSet cfg cs e ≠ [] := by
        intro h0; apply h; simp [h0]
      exact firstReject_none_iff cfg es _ (i + 1) hne

/-! ### every JoinGroup advertises the configured strategies -/

theorem stepN_send {cfg : List String} {c c' : Core} {id : Nat} {r : Req}
    (h : c' ∈ stepN cfg c (.send id r)) :
    c.stopped = false ∧ sendOk cfg c r = true ∧ lookup id c.inflight = none ∧ c' = onSend c id r := by
  unfold stepN at h
  cases hs : c.stopped with
  | true => simp [hs] at h
  | false =>
    simp only [hs, Bool.false_eq_true, if_false] at h
    by_cases hg : (sendOk cfg c r && (lookup id c.inflight).isNone) = true
    · simp only [hg, if_true, List.mem_singleton] at h
      simp only [Bool.and_eq_true, Option.isNone_iff_eq_none] at hg
      exact ⟨rfl, hg.1, hg.2, h⟩
    · simp [hg] at h

theorem joinAll_of_alive (cfg : List String) :
    ∀ (tr : List Ev) (c : Core), runs cfg c tr ≠ [] → joinAllB cfg tr = true
  | [], _, _ => rfl
  | e :: es, c, h => by
    obtain ⟨c', hc', h'⟩ := runs_cons_alive.mp h
    have ih := joinAll_of_alive cfg es c' h'
    cases e with
    | send id r =>
      obtain ⟨_, hok, _, _⟩ := stepN_send hc'
      simp only [joinAllB, ih, Bool.and_true]
      cases ha : r.api <;> simp [ha]
      -- JoinGroup: the guard contains `r.protos == cfg`
      simp only [sendOk, ha, Bool.and_eq_true] at hok
      simpa using hok.1.1.1.2
    | _ => simpa [joinAllB] using ih

/-! ### what the reactions leave alone -/

/-- the part of the state the request-sequencing statements depend on -/
structure Frame where
  inflight : List (Nat × Req)
  stopped : Bool
  dirty : Bool
  joinOk : Option (Int × Nat)
deriving DecidableEq

def Core.frame (c : Core) : Frame :=
  { inflight := c.inflight, stopped := c.stopped, dirty := c.dirty, joinOk := c.joinOk }

@[simp] theorem frame_resetGen (c : Core) : (resetGen c).frame = c.frame := rfl
@[simp] theorem frame_coordDead (c : Core) : (coordDead c).frame = c.frame := rfl
@[simp] theorem frame_needRejoin (c : Core) : (needRejoin c).frame = c.frame := rfl
@[simp] theorem frame_bumpClose (c : Core) (b : Bool) : (bumpClose c b).frame = c.frame := rfl
@[simp] theorem excused_resetGen (c : Core) : (resetGen c).excused = c.excused := rfl
@[simp] theorem excused_needRejoin (c : Core) : (needRejoin c).excused = c.excused := rfl
@[simp] theorem excused_bumpClose (c : Core) (b : Bool) : (bumpClose c b).excused = c.excused := rfl
@[simp] theorem excused_coordDead (c : Core) : (coordDead c).excused = true := rfl

theorem frame_foldCommit : ∀ (cs : List Nat) (c : Core), (foldCommit c cs).frame = c.frame
  | [], _ => rfl
  | k :: ks, c => by
    unfold foldCommit
    rw [frame_foldCommit ks]
    split
    · simp
    · split
      · simp
      · split <;> simp

theorem frame_scanFetch : ∀ (cs : List Nat) (c : Core), (scanFetch c cs).frame = c.frame
  | [], _ => rfl
  | k :: ks, c => by
    unfold scanFetch
    split
    · exact frame_scanFetch ks c
    · split <;> simp

theorem foldCommit_ok : ∀ (cs : List Nat) (c : Core), isOk cs = true → foldCommit c cs = c
  | [], _, _ => rfl
  | k :: ks, c, h => by
    simp only [isOk, List.all_cons, Bool.and_eq_true, beq_iff_eq] at h
    obtain ⟨hk, hks⟩ := h
    subst hk
    unfold foldCommit
    simp only [show ¬ ((0 : Nat) = 15 ∨ (0 : Nat) = 16 ∨ (0 : Nat) = 7) by omega,
      show ¬ ((0 : Nat) = 25 ∨ (0 : Nat) = 22) by omega, show ¬ ((0 : Nat) = 27) by omega, if_false]
    exact foldCommit_ok ks c (by simpa [isOk] using hks)

theorem scanFetch_ok : ∀ (cs : List Nat) (c : Core), isOk cs = true → scanFetch c cs = c
  | [], _, _ => rfl
  | k :: ks, c, h => by
    simp only [isOk, List.all_cons, Bool.and_eq_true, beq_iff_eq] at h
    obtain ⟨hk, hks⟩ := h
    subst hk
    unfold scanFetch
    simp only [true_or, if_true]
    exact scanFetch_ok ks c (by simpa [isOk] using hks)


local macro "dfin" : tactic => `(tactic| first | rfl | (simp <;> rfl) | simp)

theorem frame_onExc (c : Core) (r : Req) : (onExc c r).frame = c.frame := by
  obtain ⟨api, node, gen, mid, protos⟩ := r
  cases api <;> rfl

theorem inflight_onExc (c : Core) (r : Req) : (onExc c r).inflight = c.inflight :=
  congrArg Frame.inflight (frame_onExc c r)

theorem dirty_onExc (c : Core) (r : Req) : (onExc c r).dirty = c.dirty :=
  congrArg Frame.dirty (frame_onExc c r)

theorem excused_onExc (c : Core) (r : Req) : (onExc c r).excused = true := by
  obtain ⟨api, node, gen, mid, protos⟩ := r
  cases api <;> rfl

theorem frame_joinReply_of (c : Core) (o : Out) :
    (joinReply c o).inflight = c.inflight ∧ (joinReply c o).stopped = c.stopped ∧
    (joinReply c o).dirty = c.dirty := by
  cases o with
  | codes cs =>
    unfold joinReply
    simp only
    split
    · exact ⟨rfl, rfl, rfl⟩
    · split <;> exact ⟨rfl, rfl, rfl⟩
  | _ => exact ⟨rfl, rfl, rfl⟩

/-- the frame after a reply: only a JoinGroup reply touches `dirty` / `joinOk` -/
theorem onReply_frame {c c' : Core} {r : Req} {o : Out} (h : c' ∈ onReply c r o) :
    c'.inflight = c.inflight ∧ c'.stopped = c.stopped ∧
    c'.dirty = (if r.api = Api.join then false else c.dirty) := by
  obtain ⟨api, node, gen, mid, protos⟩ := r
  cases api with
  | findCoord =>
    cases o <;> simp only [onReply, List.mem_singleton] at h <;> try (subst h; exact ⟨rfl, rfl, by dfin⟩)
    split at h
    · simp only [List.mem_singleton] at h; subst h; exact ⟨rfl, rfl, by dfin⟩
    · simp only [List.mem_singleton] at h; subst h; exact ⟨rfl, rfl, by dfin⟩
  | join =>
    simp only [onReply] at h
    obtain ⟨h1, h2, h3⟩ := frame_joinReply_of c o
    split at h
    · rename_i hd
      simp only [List.mem_cons, List.mem_singleton, List.not_mem_nil, or_false] at h
      rcases h with h | h <;> subst h
      · exact ⟨h1, h2, by simp⟩
      · exact ⟨rfl, rfl, by dfin⟩
    · rename_i hd
      simp only [List.mem_singleton] at h; subst h
      refine ⟨h1, h2, ?_⟩
      rw [h3]; simpa using hd
  | sync =>
    simp only [onReply] at h
    repeat' split at h
    all_goals (simp only [List.mem_cons, List.mem_singleton, List.not_mem_nil, or_false] at h)
    all_goals (subst h; exact ⟨rfl, rfl, by dfin⟩)
  | heartbeat =>
    simp only [onReply] at h
    repeat' split at h
    all_goals (simp only [List.mem_cons, List.mem_singleton, List.not_mem_nil, or_false] at h)
    all_goals (first | (subst h; exact ⟨rfl, rfl, by dfin⟩) | (rcases h with h | h <;> subst h <;> exact ⟨rfl, rfl, by dfin⟩))
  | leave =>
    simp only [onReply, List.mem_singleton] at h
    subst h; exact ⟨rfl, rfl, by dfin⟩
  | commit =>
    simp only [onReply] at h
    split at h
    · simp only [List.mem_singleton] at h
      subst h
      have hf := frame_foldCommit ‹List Nat› c
      have h1 := congrArg Frame.inflight hf
      have h2 := congrArg Frame.stopped hf
      have h3 := congrArg Frame.dirty hf
      exact ⟨h1, h2, by simp only [reduceCtorEq, if_false]; exact h3⟩
    · simp only [List.mem_singleton] at h
      subst h; exact ⟨rfl, rfl, by dfin⟩
  | offsetFetch =>
    simp only [onReply] at h
    split at h
    · simp only [List.mem_singleton] at h
      subst h
      have hf := frame_scanFetch ‹List Nat› c
      have h1 := congrArg Frame.inflight hf
      have h2 := congrArg Frame.stopped hf
      have h3 := congrArg Frame.dirty hf
      exact ⟨h1, h2, by simp only [reduceCtorEq, if_false]; exact h3⟩
    · simp only [List.mem_singleton] at h
      subst h; exact ⟨rfl, rfl, by dfin⟩

theorem isOk_not_single {k : Nat} (hk : k ≠ 0) : isOk [k] = false := by
  simp [isOk, hk]

/-- a reply without an error keeps the pending-join bookkeeping (the JoinGroup success aside) -/
theorem onReply_keeps {c c' : Core} {r : Req} {o : Out} (h : c' ∈ onReply c r o)
    (hnj : ∀ g m, o ≠ Out.joined g m) (hcodes : ∀ cs, o = Out.codes cs → isOk cs = true) :
    c'.joinOk = c.joinOk ∧ c'.excused = c.excused := by
  obtain ⟨api, node, gen, mid, protos⟩ := r
  cases api with
  | findCoord =>
    cases o <;> simp only [onReply, List.mem_singleton] at h <;> try (subst h; exact ⟨rfl, rfl⟩)
    split at h
    · simp only [List.mem_singleton] at h; subst h; exact ⟨rfl, rfl⟩
    · simp only [List.mem_singleton] at h; subst h; exact ⟨rfl, rfl⟩
  | join =>
    have hj : (joinReply c o).joinOk = c.joinOk ∧ (joinReply c o).excused = c.excused := by
      cases o with
      | joined g m => exact absurd rfl (hnj g m)
      | codes cs =>
        have hok := hcodes cs rfl
        unfold joinReply
        simp only
        split
        · rename_i h25; subst h25; simp [isOk] at hok
        · split
          · rename_i _ h15
            rcases h15 with h15 | h15 <;> subst h15 <;> simp [isOk] at hok
          · exact ⟨rfl, rfl⟩
      | _ => exact ⟨rfl, rfl⟩
    simp only [onReply] at h
    split at h
    · simp only [List.mem_cons, List.not_mem_nil, or_false] at h
      rcases h with h | h <;> subst h
      · exact hj
      · exact ⟨rfl, rfl⟩
    · simp only [List.mem_singleton] at h; subst h; exact hj
  | sync =>
    cases o with
    | codes cs =>
      have hok := hcodes cs rfl
      simp only [onReply, hok, if_true, List.mem_singleton] at h
      subst h; exact ⟨rfl, rfl⟩
    | _ =>
      simp only [onReply, List.mem_singleton] at h
      subst h; exact ⟨rfl, rfl⟩
  | heartbeat =>
    cases o with
    | codes cs =>
      have hok := hcodes cs rfl
      simp only [onReply, hok, if_true, List.mem_singleton] at h
      subst h; exact ⟨rfl, rfl⟩
    | _ =>
      simp only [onReply, List.mem_singleton] at h
      subst h; exact ⟨rfl, rfl⟩
  | leave =>
    simp only [onReply, List.mem_singleton] at h
    subst h; exact ⟨rfl, rfl⟩
  | commit =>
    cases o with
    | codes cs =>
      have hok := hcodes cs rfl
      simp only [onReply, foldCommit_ok cs c hok, List.mem_singleton] at h
      subst h; exact ⟨rfl, rfl⟩
    | _ =>
      simp only [onReply, List.mem_singleton] at h
      subst h; exact ⟨rfl, rfl⟩
  | offsetFetch =>
    cases o with
    | codes cs =>
      have hok := hcodes cs rfl
      simp only [onReply, scanFetch_ok cs c hok, List.mem_singleton] at h
      subst h; exact ⟨rfl, rfl⟩
    | _ =>
      simp only [onReply, List.mem_singleton] at h
      subst h; exact ⟨rfl, rfl⟩

/-- the JoinGroup success, looked at: the SyncGroup of that generation and member id is due -/
theorem onReply_joined {c c' : Core} {r : Req} {g : Int} {m : Nat}
    (h : c' ∈ onReply c r (.joined g m)) (hj : r.api = Api.join) (hd : c.dirty = false) :
    c'.joinOk = some (g, m) ∧ c'.excused = false := by
  obtain ⟨api, node, gen, mid, protos⟩ := r
  simp only at hj
  subst hj
  simp only [onReply, hd, Bool.false_eq_true, if_false, List.mem_singleton] at h
  subst h
  exact ⟨rfl, rfl⟩


theorem stepN_recv {cfg : List String} {c c' : Core} {id : Nat} {o : Out}
    (h : c' ∈ stepN cfg c (.recv id o)) (hst : c.stopped = false) :
    ∃ r, lookup id c.inflight = some r ∧ outFits r.api o = true ∧
      c' ∈ onRecv { c with inflight := erase id c.inflight } r o := by
  unfold stepN at h
  rw [if_neg (by simp [hst])] at h
  cases hl : lookup id c.inflight with
  | none => simp [hl] at h
  | some r =>
    simp only [hl] at h
    by_cases hfit : outFits r.api o = true
    · rw [if_neg (by simp [hfit])] at h
      exact ⟨r, rfl, hfit, h⟩
    · rw [if_pos (by simpa using hfit)] at h
      cases h

theorem stepN_userCommit {cfg : List String} {c c' : Core}
    (h : c' ∈ stepN cfg c .userCommit) (hst : c.stopped = false) :
    c' = { c with commitAllow := c.commitAllow + 1, userCommits := true } := by
  unfold stepN at h
  rw [if_neg (by simp [hst])] at h
  simpa using h


/-- how the scan state of `joinThenSyncB` relates to a possible state of the member -/
def Rel (s : Scan) (c : Core) : Prop :=
  c.stopped = true ∨
  (s.inflight = c.inflight ∧ s.subChanged = c.dirty ∧
   ∀ p, s.pending = some p → c.joinOk = some p ∧ c.excused = false)

theorem onSend_frame (c : Core) (id : Nat) (r : Req) :
    (onSend c id r).inflight = (id, r) :: c.inflight ∧ (onSend c id r).stopped = c.stopped ∧
    (onSend c id r).dirty = c.dirty ∧
    (r.api ≠ Api.join → r.api ≠ Api.sync →
      (onSend c id r).joinOk = c.joinOk ∧ (onSend c id r).excused = c.excused) := by
  obtain ⟨api, node, gen, mid, protos⟩ := r
  cases api
  case join =>
    simp only [onSend]
    split <;> exact ⟨rfl, rfl, rfl, fun h => absurd rfl h⟩
  case sync => exact ⟨rfl, rfl, rfl, fun _ h => absurd rfl h⟩
  all_goals exact ⟨rfl, rfl, rfl, fun _ _ => ⟨rfl, rfl⟩⟩

theorem joinThenSync_of_alive (cfg : List String) :
    ∀ (tr : List Ev) (s : Scan) (c : Core), Rel s c → runs cfg c tr ≠ [] →
      joinThenSyncB s tr = true
  | [], _, _, _, _ => rfl
  | e :: es, s, c, hrel, h => by
    obtain ⟨c', hc', h'⟩ := runs_cons_alive.mp h
    have ih := fun s' (hr : Rel s' c') => joinThenSync_of_alive cfg es s' c' hr h'
    by_cases hst : c.stopped = true
    · -- after stop() returned: only late outcomes, the state does not move
      unfold stepN at hc'
      simp only [hst, if_true] at hc'
      cases e with
      | recv id o =>
        simp only [List.mem_singleton] at hc'
        subst hc'
        unfold joinThenSyncB; simp only [syncDue, scanStep, Bool.true_and]
        exact ih _ (Or.inl hst)
      | _ => simp at hc'
    · have hst' : c.stopped = false := by simpa using hst
      rcases hrel with hs | ⟨hfl, hsub, hpend⟩
      · exact absurd hs hst
      cases e with
      | send id r =>
        obtain ⟨_, hok, _, rfl⟩ := stepN_send hc'
        obtain ⟨hi, hstp, hd, hkeep⟩ := onSend_frame c id r
        unfold joinThenSyncB
        rw [Bool.and_eq_true]
        refine ⟨?_, ih _ (Or.inr ⟨?_, ?_, ?_⟩)⟩
        · simp only [syncDue]
          cases hp : s.pending with
          | none => rfl
          | some p =>
            obtain ⟨g, m⟩ := p
            obtain ⟨hjo, hex⟩ := hpend _ hp
            simp only
            by_cases hj : r.api = Api.join
            · -- a JoinGroup while the SyncGroup is due is not a behaviour of the model
              exfalso
              simp only [sendOk, hj, hjo, hex, Option.isSome_some, Bool.not_false, Bool.and_self,
                Bool.not_true, Bool.and_false, Bool.false_and] at hok
              cases hok
            · by_cases hy : r.api = Api.sync
              · simp only [sendOk, hy, hjo, Bool.and_eq_true, beq_iff_eq, Option.some.injEq,
                  Prod.mk.injEq] at hok
                obtain ⟨⟨_, hgm⟩, _⟩ := hok
                simp [hy, hgm.1, hgm.2]
              · simp [hj, hy]
        · simp only [scanStep, hi, hfl]
        · simp only [scanStep, hd, hsub]
        · intro p hp
          simp only [scanStep] at hp
          by_cases hj : r.api = Api.join
          · simp [hj] at hp
          · by_cases hy : r.api = Api.sync
            · simp [hy] at hp
            · simp only [hj, hy, beq_iff_eq, Bool.or_self, Bool.false_eq_true, if_false,
                show (r.api == Api.join) = false by simpa using hj,
                show (r.api == Api.sync) = false by simpa using hy] at hp
              obtain ⟨h1, h2⟩ := hkeep hj hy
              rw [h1, h2]
              exact hpend p hp
      | recv id o =>
        unfold stepN at hc'
        simp only [hst', Bool.false_eq_true, if_false] at hc'
        cases hl : lookup id c.inflight with
        | none => simp [hl] at hc'
        | some r =>
          simp only [hl] at hc'
          by_cases hfit : outFits r.api o = true
          · simp only [hfit, Bool.not_true, Bool.false_eq_true, if_false] at hc'
            have hJ : isJoinId id s.inflight = (r.api == Api.join) := by
              simp [isJoinId, hfl, hl]
            unfold joinThenSyncB; simp only [syncDue, scanStep, Bool.true_and]
            apply ih
            cases o with
            | cancelled =>
              simp only [onRecv, List.mem_singleton] at hc'
              subst hc'
              refine Or.inr ⟨by simp [hfl], by simpa using hsub, ?_⟩
              intro p hp
              simp only [isExcuse, Bool.false_eq_true, if_false] at hp
              exact hpend p hp
            | exc =>
              simp only [onRecv, List.mem_singleton] at hc'
              subst hc'
              refine Or.inr ⟨?_, ?_, ?_⟩
              · rw [inflight_onExc]; simp [hfl]
              · rw [dirty_onExc]; simpa using hsub
              · intro p hp
                simp [isExcuse] at hp
            | codes cs =>
              simp only [onRecv] at hc'
              obtain ⟨h1, h2, h3⟩ := onReply_frame hc'
              refine Or.inr ⟨by simp [h1, hfl], ?_, ?_⟩
              · simp only [hJ, h3, hsub, beq_iff_eq]
                by_cases hj : r.api = Api.join <;> simp [hj]
              · intro p hp
                by_cases hok : isOk cs = true
                · simp only [isExcuse, hok, Bool.not_true, Bool.false_eq_true, if_false] at hp
                  obtain ⟨k1, k2⟩ := onReply_keeps hc' (by intro g m hh; cases hh)
                    (by intro cs' hh; cases hh; exact hok)
                  rw [k1, k2]
                  exact hpend p hp
                · simp [isExcuse, hok] at hp
            | joined g m =>
              simp only [onRecv] at hc'
              have hj : r.api = Api.join := by simpa [outFits] using hfit
              obtain ⟨h1, h2, h3⟩ := onReply_frame hc'
              refine Or.inr ⟨by simp [h1, hfl], ?_, ?_⟩
              · simp [hJ, h3, hj]
              · intro p hp
                simp only [isExcuse, Bool.false_eq_true, if_false, hJ, hj, beq_self_eq_true,
                  if_true] at hp
                by_cases hsc : s.subChanged = true
                · simp [hsc] at hp
                · simp only [hsc, Bool.false_eq_true, if_false, Option.some.injEq] at hp
                  subst hp
                  exact onReply_joined hc' hj (by rw [← hsub]; simpa using hsc)
            | memberId m =>
              simp only [onRecv] at hc'
              obtain ⟨h1, h2, h3⟩ := onReply_frame hc'
              refine Or.inr ⟨by simp [h1, hfl], ?_, ?_⟩
              · simp only [hJ, h3, hsub, beq_iff_eq]
                by_cases hj : r.api = Api.join <;> simp [hj]
              · intro p hp
                simp only [isExcuse, Bool.false_eq_true, if_false] at hp
                obtain ⟨k1, k2⟩ := onReply_keeps hc' (by intro g m hh; cases hh)
                  (by intro cs' hh; cases hh)
                rw [k1, k2]
                exact hpend p hp
            | coordinator n =>
              simp only [onRecv] at hc'
              obtain ⟨h1, h2, h3⟩ := onReply_frame hc'
              refine Or.inr ⟨by simp [h1, hfl], ?_, ?_⟩
              · simp only [hJ, h3, hsub, beq_iff_eq]
                by_cases hj : r.api = Api.join <;> simp [hj]
              · intro p hp
                simp only [isExcuse, Bool.false_eq_true, if_false] at hp
                obtain ⟨k1, k2⟩ := onReply_keeps hc' (by intro g m hh; cases hh)
                  (by intro cs' hh; cases hh)
                rw [k1, k2]
                exact hpend p hp
          · simp [hfit] at hc'
      | subChange =>
        unfold stepN at hc'
        simp only [hst', Bool.false_eq_true, if_false, List.mem_singleton] at hc'
        subst hc'
        unfold joinThenSyncB; simp only [syncDue, scanStep, Bool.true_and]
        exact ih _ (Or.inr ⟨hfl, rfl, by intro p hp; cases hp⟩)
      | mdChange =>
        unfold stepN at hc'
        simp only [hst', Bool.false_eq_true, if_false, List.mem_singleton] at hc'
        subst hc'
        unfold joinThenSyncB; simp only [syncDue, scanStep, Bool.true_and]
        exact ih _ (Or.inr ⟨hfl, hsub, hpend⟩)
      | pollIdle =>
        unfold stepN at hc'
        simp only [hst', Bool.false_eq_true, if_false, List.mem_singleton] at hc'
        subst hc'
        unfold joinThenSyncB; simp only [syncDue, scanStep, Bool.true_and]
        exact ih _ (Or.inr ⟨hfl, hsub, hpend⟩)
      | userCommit =>
        unfold stepN at hc'
        simp only [hst', Bool.false_eq_true, if_false, List.mem_singleton] at hc'
        subst hc'
        unfold joinThenSyncB; simp only [syncDue, scanStep, Bool.true_and]
        exact ih _ (Or.inr ⟨hfl, hsub, hpend⟩)
      | stopCalled =>
        unfold stepN at hc'
        simp only [hst', Bool.false_eq_true, if_false] at hc'
        split at hc'
        · cases hc'
        · simp only [List.mem_singleton] at hc'
          subst hc'
          unfold joinThenSyncB; simp only [syncDue, scanStep, Bool.true_and]
          exact ih _ (Or.inr ⟨hfl, hsub, hpend⟩)
      | stopReturned =>
        unfold stepN at hc'
        simp only [hst', Bool.false_eq_true, if_false] at hc'
        split at hc'
        · simp only [List.mem_singleton] at hc'
          subst hc'
          unfold joinThenSyncB; simp only [syncDue, scanStep, Bool.true_and]
          exact ih _ (Or.inl rfl)
        · cases hc'


theorem lookup_mem {id : Nat} {r : Req} : ∀ {l : List (Nat × Req)}, lookup id l = some r → (id, r) ∈ l
  | [], h => by simp [lookup] at h
  | (i, x) :: rest, h => by
    unfold lookup at h
    by_cases hi : i = id
    · simp only [hi, if_true, Option.some.injEq] at h
      subst h; subst hi; exact List.mem_cons_self
    · simp only [hi, if_false] at h
      exact List.mem_cons_of_mem _ (lookup_mem h)

theorem mem_of_mem_erase {id : Nat} {p : Nat × Req} : ∀ {l : List (Nat × Req)}, p ∈ erase id l → p ∈ l
  | [], h => by simp [erase] at h
  | (i, x) :: rest, h => by
    unfold erase at h
    by_cases hi : i = id
    · simp only [hi, if_true] at h
      exact List.mem_cons_of_mem _ h
    · simp only [hi, if_false, List.mem_cons] at h
      rcases h with h | h
      · subst h; exact List.mem_cons_self
      · exact List.mem_cons_of_mem _ (mem_of_mem_erase h)

/-- requests a member in a stable generation sends on its own -/
def routine (a : Api) : Prop := a = Api.heartbeat ∨ a = Api.commit ∨ a = Api.offsetFetch

/-- the member is in a generation, knows its coordinator and has no reason to rejoin or leave -/
structure Settled (c : Core) : Prop where
  assigned : c.noAssign = false
  noRejoin : c.rejoinFut = false
  noMd : c.mdPending = false
  coordKnown : c.coord.isSome = true
  noJoin : c.joinOk = none
  noLeave : c.mayLeave = false
  open_ : c.closing = false
  running : c.stopped = false
  inflightRoutine : ∀ p ∈ c.inflight, routine p.2.api

/-- events of a quiet stretch: the member's own requests, replies without an error, the user
    committing -/
def calm : Ev → Bool
  | .send _ _ => true
  | .recv _ (.codes cs) => isOk cs
  | .recv _ .cancelled => true
  | .userCommit => true
  | _ => false

theorem settled_step {cfg : List String} {c c' : Core} {e : Ev} (hs : Settled c) (hcalm : calm e = true)
    (h : c' ∈ stepN cfg c e) :
    Settled c' ∧ ∀ id r, e = Ev.send id r → routine r.api := by
  cases e with
  | send id r =>
    obtain ⟨_, hok, _, rfl⟩ := stepN_send h
    have hr : routine r.api := by
      obtain ⟨api, node, gen, mid, protos⟩ := r
      cases api
      case findCoord =>
        have hk := hs.coordKnown
        simp only [sendOk, Bool.and_eq_true, Option.isNone_iff_eq_none] at hok
        rw [hok.1] at hk; cases hk
      case join => simp [sendOk, hs.assigned, hs.noRejoin, hs.noMd] at hok
      case sync => simp [sendOk, hs.noJoin] at hok
      case leave => simp [sendOk, hs.open_, hs.noLeave] at hok
      case heartbeat => exact Or.inl rfl
      case commit => exact Or.inr (Or.inl rfl)
      case offsetFetch => exact Or.inr (Or.inr rfl)
    refine ⟨?_, fun id' r' he => by cases he; exact hr⟩
    obtain ⟨api, node, gen, mid, protos⟩ := r
    rcases hr with hr | hr | hr <;> simp only at hr <;> subst hr
    all_goals
      exact { assigned := hs.assigned, noRejoin := hs.noRejoin, noMd := hs.noMd,
              coordKnown := by
                have hk := hs.coordKnown
                cases hc : c.coord with
                | none => rw [hc] at hk; cases hk
                | some n => simp [onSend, newCoord, hc],
              noJoin := hs.noJoin, noLeave := hs.noLeave,
              open_ := hs.open_, running := hs.running,
              inflightRoutine := by
                intro p hp
                simp only [onSend, List.mem_cons] at hp
                rcases hp with hp | hp
                · subst hp; first | exact Or.inl rfl | exact Or.inr (Or.inl rfl) | exact Or.inr (Or.inr rfl)
                · exact hs.inflightRoutine p hp }
  | recv id o =>
    refine ⟨?_, fun id' r' he => by cases he⟩
    obtain ⟨r, hl, hfit, h⟩ := stepN_recv h hs.running
    · have hrr : routine r.api := hs.inflightRoutine _ (lookup_mem hl)
      · have hsub : ∀ p ∈ erase id c.inflight, routine p.2.api :=
          fun p hp => hs.inflightRoutine p (mem_of_mem_erase hp)
        have base : Settled { c with inflight := erase id c.inflight } :=
          { assigned := hs.assigned, noRejoin := hs.noRejoin, noMd := hs.noMd,
            coordKnown := hs.coordKnown, noJoin := hs.noJoin, noLeave := hs.noLeave,
            open_ := hs.open_, running := hs.running, inflightRoutine := hsub }
        cases o with
        | cancelled =>
          simp only [onRecv, List.mem_singleton] at h
          subst h; exact base
        | codes cs =>
          have hok : isOk cs = true := by simpa [calm] using hcalm
          obtain ⟨api, node, gen, mid, protos⟩ := r
          simp only [onRecv] at h
          rcases hrr with hr | hr | hr <;> simp only at hr <;> subst hr
          · simp only [onReply, hok, if_true, List.mem_singleton] at h
            subst h; exact base
          · simp only [onReply, foldCommit_ok cs _ hok, hok, Bool.not_true, List.mem_singleton] at h
            subst h
            exact { assigned := hs.assigned, noRejoin := hs.noRejoin, noMd := hs.noMd,
                    coordKnown := hs.coordKnown, noJoin := hs.noJoin, noLeave := hs.noLeave,
                    open_ := hs.open_, running := hs.running, inflightRoutine := hsub }
          · simp only [onReply, scanFetch_ok cs _ hok, List.mem_singleton] at h
            subst h; exact base
        | _ => simp [calm] at hcalm
  | userCommit =>
    refine ⟨?_, fun id' r' he => by cases he⟩
    have h := stepN_userCommit h hs.running
    subst h
    exact { assigned := hs.assigned, noRejoin := hs.noRejoin, noMd := hs.noMd,
            coordKnown := hs.coordKnown, noJoin := hs.noJoin, noLeave := hs.noLeave,
            open_ := hs.open_, running := hs.running, inflightRoutine := hs.inflightRoutine }
  | _ => simp [calm] at hcalm


/-! ### the closing phase -/

/-- flags of the closing phase: only `stopCalled` and a LeaveGroup request change them -/
structure CFrame where
  closing : Bool
  leaveSent : Bool
deriving DecidableEq

def Core.cframe (c : Core) : CFrame := { closing := c.closing, leaveSent := c.leaveSent }

@[simp] theorem cframe_resetGen (c : Core) : (resetGen c).cframe = c.cframe := rfl
@[simp] theorem cframe_coordDead (c : Core) : (coordDead c).cframe = c.cframe := rfl
@[simp] theorem cframe_needRejoin (c : Core) : (needRejoin c).cframe = c.cframe := rfl
@[simp] theorem cframe_bumpClose (c : Core) (b : Bool) : (bumpClose c b).cframe = c.cframe := rfl

theorem cframe_foldCommit : ∀ (cs : List Nat) (c : Core), (foldCommit c cs).cframe = c.cframe
  | [], _ => rfl
  | k :: ks, c => by
    unfold foldCommit
    rw [cframe_foldCommit ks]
    split
    · simp
    · split
      · simp
      · split <;> simp

theorem cframe_scanFetch : ∀ (cs : List Nat) (c : Core), (scanFetch c cs).cframe = c.cframe
  | [], _ => rfl
  | k :: ks, c => by
    unfold scanFetch
    split
    · exact cframe_scanFetch ks c
    · split <;> simp

theorem cframe_joinReply (c : Core) (o : Out) : (joinReply c o).cframe = c.cframe := by
  cases o with
  | codes cs =>
    unfold joinReply
    simp only
    split
    · rfl
    · split <;> rfl
  | _ => rfl

theorem cframe_onExc (c : Core) (r : Req) : (onExc c r).cframe = c.cframe := by
  obtain ⟨api, node, gen, mid, protos⟩ := r
  cases api <;> rfl

theorem cframe_onReply {c c' : Core} {r : Req} {o : Out} (h : c' ∈ onReply c r o) :
    c'.cframe = c.cframe := by
  obtain ⟨api, node, gen, mid, protos⟩ := r
  cases api with
  | findCoord =>
    cases o <;> simp only [onReply, List.mem_singleton] at h <;> try (subst h; rfl)
    split at h
    · simp only [List.mem_singleton] at h; subst h; rfl
    · simp only [List.mem_singleton] at h; subst h; rfl
  | join =>
    simp only [onReply] at h
    have hj := cframe_joinReply c o
    split at h
    · simp only [List.mem_cons, List.not_mem_nil, or_false] at h
      rcases h with h | h <;> subst h
      · exact hj
      · rfl
    · simp only [List.mem_singleton] at h; subst h; exact hj
  | sync =>
    simp only [onReply] at h
    repeat' split at h
    all_goals (simp only [List.mem_cons, List.mem_singleton, List.not_mem_nil, or_false] at h)
    all_goals (subst h; rfl)
  | heartbeat =>
    simp only [onReply] at h
    repeat' split at h
    all_goals (simp only [List.mem_cons, List.mem_singleton, List.not_mem_nil, or_false] at h)
    all_goals (first | (subst h; rfl) | (rcases h with h | h <;> subst h <;> rfl))
  | leave =>
    simp only [onReply, List.mem_singleton] at h
    subst h; rfl
  | commit =>
    simp only [onReply] at h
    split at h
    · simp only [List.mem_singleton] at h
      subst h
      simp [cframe_foldCommit]
    · simp only [List.mem_singleton] at h
      subst h; rfl
  | offsetFetch =>
    simp only [onReply] at h
    split at h
    · simp only [List.mem_singleton] at h
      subst h
      exact cframe_scanFetch _ c
    · simp only [List.mem_singleton] at h
      subst h; rfl

theorem cframe_onRecv {c c' : Core} {r : Req} {o : Out} (h : c' ∈ onRecv c r o) :
    c'.cframe = c.cframe := by
  cases o with
  | cancelled => simp only [onRecv, List.mem_singleton] at h; subst h; rfl
  | exc => simp only [onRecv, List.mem_singleton] at h; subst h; exact cframe_onExc c r
  | codes cs => simp only [onRecv] at h; exact cframe_onReply h
  | joined g m => simp only [onRecv] at h; exact cframe_onReply h
  | memberId m => simp only [onRecv] at h; exact cframe_onReply h
  | coordinator n => simp only [onRecv] at h; exact cframe_onReply h

/-- did the member send a LeaveGroup after `stop()` was called? -/
def leftB : Bool → List Ev → Bool
  | _, [] => false
  | closing, .send _ r :: es => (closing && r.api == Api.leave) || leftB closing es
  | _, .stopCalled :: es => leftB true es
  | closing, _ :: es => leftB closing es

/-- no FindCoordinator is sent once `stop()` was called -/
def noLookupB : Bool → List Ev → Bool
  | _, [] => true
  | closing, .send _ r :: es => !(closing && r.api == Api.findCoord) && noLookupB closing es
  | _, .stopCalled :: es => noLookupB true es
  | closing, _ :: es => noLookupB closing es

theorem stepN_cframe {cfg : List String} {c c' : Core} {e : Ev} (h : c' ∈ stepN cfg c e) :
    (c'.closing = match e with
      | .stopCalled => true
      | _ => c.closing) ∧
    (c'.leaveSent = match e with
      | .send _ r => if r.api = Api.leave then c.closing else c.leaveSent
      | _ => c.leaveSent) := by
  by_cases hst : c.stopped = true
  · unfold stepN at h
    simp only [hst, if_true] at h
    cases e with
    | recv id o => simp only [List.mem_singleton] at h; subst h; exact ⟨rfl, rfl⟩
    | _ => simp at h
  · have hst' : c.stopped = false := by simpa using hst
    cases e with
    | send id r =>
      obtain ⟨_, _, _, rfl⟩ := stepN_send h
      obtain ⟨api, node, gen, mid, protos⟩ := r
      cases api
      case join => simp only [onSend]; split <;> exact ⟨rfl, by simp⟩
      all_goals exact ⟨rfl, by simp [onSend]⟩
    | recv id o =>
      obtain ⟨r, _, _, h⟩ := stepN_recv h hst'
      have := cframe_onRecv h
      exact ⟨congrArg CFrame.closing this, congrArg CFrame.leaveSent this⟩
    | stopCalled =>
      unfold stepN at h
      rw [if_neg hst] at h
      simp only at h
      split at h
      · cases h
      · simp only [List.mem_singleton] at h; subst h; exact ⟨rfl, rfl⟩
    | stopReturned =>
      unfold stepN at h
      rw [if_neg hst] at h
      simp only at h
      split at h
      · simp only [List.mem_singleton] at h; subst h; exact ⟨rfl, rfl⟩
      · cases h
    | subChange | mdChange | pollIdle | userCommit =>
      unfold stepN at h
      rw [if_neg hst] at h
      simp only [List.mem_singleton] at h
      subst h; exact ⟨rfl, rfl⟩

theorem mem_runs_cons {cfg : List String} {c c' : Core} {e : Ev} {es : List Ev} :
    c' ∈ runs cfg c (e :: es) ↔ ∃ c1 ∈ stepN cfg c e, c' ∈ runs cfg c1 es := by
  simp [runs, List.mem_flatMap]

theorem noLookup_of_alive (cfg : List String) :
    ∀ (tr : List Ev) (c : Core), runs cfg c tr ≠ [] → noLookupB c.closing tr = true
  | [], _, _ => rfl
  | e :: es, c, h => by
    obtain ⟨c1, hc1, h1⟩ := runs_cons_alive.mp h
    have ih := noLookup_of_alive cfg es c1 h1
    obtain ⟨hcl, _⟩ := stepN_cframe hc1
    cases e with
    | send id r =>
      obtain ⟨_, hok, _, _⟩ := stepN_send hc1
      simp only at hcl
      rw [hcl] at ih
      simp only [noLookupB, ih, Bool.and_true]
      cases hc : c.closing with
      | false => simp
      | true =>
        obtain ⟨api, node, gen, mid, protos⟩ := r
        cases api <;> simp
        simp [sendOk, hc] at hok
    | stopCalled => simp only at hcl; rw [hcl] at ih; simpa [noLookupB] using ih
    | recv _ _ | subChange | mdChange | pollIdle | userCommit | stopReturned =>
      simp only at hcl; rw [hcl] at ih; simpa [noLookupB] using ih

theorem left_of_runs (cfg : List String) :
    ∀ (tr : List Ev) (c c' : Core), c' ∈ runs cfg c tr → (c.leaveSent = true → c.closing = true) →
      c'.leaveSent = (c.leaveSent || leftB c.closing tr) ∧ (c'.leaveSent = true → c'.closing = true)
  | [], c, c', h, hinv => by
    simp only [runs, List.mem_singleton] at h
    subst h
    exact ⟨by simp [leftB], hinv⟩
  | e :: es, c, c', h, hinv => by
    obtain ⟨c1, hc1, h1⟩ := mem_runs_cons.mp h
    obtain ⟨hcl, hls⟩ := stepN_cframe hc1
    cases e with
    | send id r =>
      simp only at hcl hls
      have hinv1 : c1.leaveSent = true → c1.closing = true := by
        rw [hcl, hls]
        split
        · exact fun h => h
        · exact hinv
      obtain ⟨ih1, ih2⟩ := left_of_runs cfg es c1 c' h1 hinv1
      refine ⟨?_, ih2⟩
      rw [ih1, hcl, hls]
      simp only [leftB]
      by_cases hl : r.api = Api.leave
      · simp only [hl, if_true, beq_self_eq_true, Bool.and_true]
        cases hc : c.closing <;> cases hs : c.leaveSent <;> simp
        have := hinv hs
        rw [hc] at this; cases this
      · have hb : (r.api == Api.leave) = false := by simpa using hl
        simp [hl, hb]
    | stopCalled =>
      simp only at hcl hls
      have hinv1 : c1.leaveSent = true → c1.closing = true := by
        intro _; exact hcl
      obtain ⟨ih1, ih2⟩ := left_of_runs cfg es c1 c' h1 hinv1
      refine ⟨?_, ih2⟩
      rw [ih1, hcl, hls]
      simp [leftB]
    | recv _ _ | subChange | mdChange | pollIdle | userCommit | stopReturned =>
      simp only at hcl hls
      have hinv1 : c1.leaveSent = true → c1.closing = true := by
        rw [hcl, hls]; exact hinv
      obtain ⟨ih1, ih2⟩ := left_of_runs cfg es c1 c' h1 hinv1
      refine ⟨?_, ih2⟩
      rw [ih1, hcl, hls]
      simp [leftB]


/-! ### the executable statements mean what they should -/

theorem joinAllB_iff (cfg : List String) :
    ∀ tr : List Ev, joinAllB cfg tr = true ↔
      ∀ id r, Ev.send id r ∈ tr → r.api = Api.join → r.protos = cfg
  | [] => by simp [joinAllB]
  | e :: es => by
    have ih := joinAllB_iff cfg es
    cases e with
    | send id r =>
      simp only [joinAllB, Bool.and_eq_true, Bool.or_eq_true, bne_iff_ne, ne_eq, beq_iff_eq, ih,
        List.mem_cons, Ev.send.injEq]
      constructor
      · rintro ⟨h1, h2⟩ id' r' (⟨rfl, rfl⟩ | hm) hj
        · rcases h1 with h1 | h1
          · exact absurd hj h1
          · exact h1
        · exact h2 id' r' hm hj
      · intro h
        refine ⟨?_, fun id' r' hm hj => h id' r' (Or.inr hm) hj⟩
        by_cases hj : r.api = Api.join
        · exact Or.inr (h id r (Or.inl ⟨rfl, rfl⟩) hj)
        · exact Or.inl hj
    | _ =>
      simp only [joinAllB, ih, List.mem_cons]
      constructor
      · rintro h id r (hm | hm) hj
        · cases hm
        · exact h id r hm hj
      · intro h id r hm hj
        exact h id r (Or.inr hm) hj

/-- the scan state after a prefix of the history -/
def scanAfter (s : Scan) (tr : List Ev) : Scan := tr.foldl scanStep s

theorem joinThenSyncB_append (s : Scan) :
    ∀ (a b : List Ev), joinThenSyncB s (a ++ b) = (joinThenSyncB s a && joinThenSyncB (scanAfter s a) b)
  | [], b => by simp [joinThenSyncB, scanAfter]
  | e :: es, b => by
    simp only [List.cons_append, joinThenSyncB, scanAfter, List.foldl_cons]
    rw [joinThenSyncB_append (scanStep s e) es b]
    simp [scanAfter, Bool.and_assoc]

/-- `joinThenSyncB` holds iff at every position the request sent there respects a pending
    JoinGroup success -/
theorem joinThenSyncB_iff (s : Scan) (tr : List Ev) :
    joinThenSyncB s tr = true ↔
      ∀ pre e post, tr = pre ++ e :: post → syncDue (scanAfter s pre) e = true := by
  constructor
  · intro h pre e post heq
    subst heq
    rw [joinThenSyncB_append] at h
    simp only [Bool.and_eq_true, joinThenSyncB] at h
    exact h.2.1
  · intro h
    induction tr generalizing s with
    | nil => rfl
    | cons e es ih =>
      simp only [joinThenSyncB, Bool.and_eq_true]
      refine ⟨h [] e es rfl, ih (scanStep s e) ?_⟩
      intro pre e' post heq
      have := h (e :: pre) e' post (by simp [heq])
      simpa [scanAfter] using this

/-- events that neither excuse a missing SyncGroup nor are JoinGroup/SyncGroup requests nor
    another JoinGroup success -/
def between : Ev → Bool
  | .send _ r => r.api != Api.join && r.api != Api.sync
  | .recv _ (.joined _ _) => false
  | e => !isExcuse e

theorem scanAfter_pending_keep (p : Int × Nat) :
    ∀ (tr : List Ev) (s : Scan), s.pending = some p → (∀ e ∈ tr, between e = true) →
      (scanAfter s tr).pending = some p
  | [], s, h, _ => by simpa [scanAfter] using h
  | e :: es, s, h, hb => by
    have he := hb e List.mem_cons_self
    have hs : (scanStep s e).pending = some p := by
      cases e with
      | send id r =>
        simp only [between, Bool.and_eq_true, bne_iff_ne, ne_eq] at he
        have h1 : (r.api == Api.join) = false := by simpa using he.1
        have h2 : (r.api == Api.sync) = false := by simpa using he.2
        simp [scanStep, h1, h2, h]
      | recv id o =>
        cases o with
        | joined g m => simp [between] at he
        | exc => simp [between, isExcuse] at he
        | codes cs =>
          simp only [between, isExcuse, Bool.not_not] at he
          simp [scanStep, isExcuse, he, h]
        | cancelled => simp [scanStep, isExcuse, h]
        | memberId m => simp [scanStep, isExcuse, h]
        | coordinator n => simp [scanStep, isExcuse, h]
      | subChange => simp [between, isExcuse] at he
      | mdChange | pollIdle | userCommit | stopCalled | stopReturned => simpa [scanStep] using h
    have := scanAfter_pending_keep p es (scanStep s e) hs (fun x hx => hb x (List.mem_cons_of_mem _ hx))
    simpa [scanAfter] using this


theorem scanAfter_append (s : Scan) (a b : List Ev) :
    scanAfter s (a ++ b) = scanAfter (scanAfter s a) b := by
  simp [scanAfter, List.foldl_append]

/-- readable form of `joinThenSyncB`: after a JoinGroup success that is not excused, the next
    JoinGroup/SyncGroup request is the SyncGroup of that generation and member id -/
theorem sync_follows_join {tr : List Ev} (hB : joinThenSyncB {} tr = true)
    {pre mid post : List Ev} {id id' : Nat} {g : Int} {m : Nat} {r : Req}
    (heq : tr = pre ++ Ev.recv id (.joined g m) :: (mid ++ Ev.send id' r :: post))
    (hjoin : isJoinId id (scanAfter {} pre).inflight = true)
    (hsub : (scanAfter {} pre).subChanged = false)
    (hmid : ∀ e ∈ mid, between e = true)
    (hreq : r.api = Api.join ∨ r.api = Api.sync) :
    r.api = Api.sync ∧ r.gen = g ∧ r.mid = m := by
  have hdue := (joinThenSyncB_iff {} tr).mp hB (pre ++ Ev.recv id (.joined g m) :: mid) (Ev.send id' r) post
    (by simp [heq])
  have hp : (scanAfter {} (pre ++ Ev.recv id (.joined g m) :: mid)).pending = some (g, m) := by
    rw [scanAfter_append]
    have h1 : (scanStep (scanAfter {} pre) (Ev.recv id (.joined g m))).pending = some (g, m) := by
      simp [scanStep, isExcuse, hjoin, hsub]
    have := scanAfter_pending_keep (g, m) mid _ h1 hmid
    simpa [scanAfter] using this
  simp only [syncDue, hp] at hdue
  rcases hreq with hj | hy
  · simp [hj] at hdue
  · simp [hy] at hdue
    exact ⟨hy, hdue.1, hdue.2⟩

/-- from a settled state, as long as replies carry no error and nobody changes the subscription,
    the metadata or calls `stop()`, the member stays settled and sends nothing but Heartbeat,
    OffsetCommit and OffsetFetch -/
theorem settled_runs (cfg : List String) :
    ∀ (tr : List Ev) (c : Core), Settled c → (∀ e ∈ tr, calm e = true) →
      (∀ c' ∈ runs cfg c tr, Settled c') ∧
      (runs cfg c tr ≠ [] → ∀ id r, Ev.send id r ∈ tr → routine r.api)
  | [], c, hs, _ => by
    refine ⟨?_, fun _ id r hm => by cases hm⟩
    intro c' hc'
    simp only [runs, List.mem_singleton] at hc'
    subst hc'; exact hs
  | e :: es, c, hs, hcalm => by
    have he := hcalm e List.mem_cons_self
    have hes : ∀ x ∈ es, calm x = true := fun x hx => hcalm x (List.mem_cons_of_mem _ hx)
    constructor
    · intro c' hc'
      obtain ⟨c1, hc1, h1⟩ := mem_runs_cons.mp hc'
      exact (settled_runs cfg es c1 (settled_step hs he hc1).1 hes).1 c' h1
    · intro halive id r hm
      obtain ⟨c1, hc1, h1⟩ := runs_cons_alive.mp halive
      obtain ⟨hs1, hsend⟩ := settled_step hs he hc1
      simp only [List.mem_cons] at hm
      rcases hm with hm | hm
      · exact hsend id r hm.symm
      · exact (settled_runs cfg es c1 hs1 hes).2 h1 id r hm

end AkVerif.Membership
