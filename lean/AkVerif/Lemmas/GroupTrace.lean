import AkVerif.Model.GroupEv
/-! generic facts about histories and acceptors shared by the C04 and C05 proofs -/
namespace AkVerif.Group

/-! ## `Since X B pre`: an `X` event occurred in `pre` and no `B` event after it -/

def Since (X : Ev → Prop) (B : Ev → Bool) (pre : List Ev) : Prop :=
  ∃ a x b, pre = a ++ x :: b ∧ X x ∧ ∀ e ∈ b, B e = false

theorem Since.snoc {X : Ev → Prop} {B : Ev → Bool} {pre : List Ev} {e : Ev}
    (h : Since X B pre) (hb : B e = false) : Since X B (pre ++ [e]) := by
  obtain ⟨a, x, b, rfl, hx, hB⟩ := h
  refine ⟨a, x, b ++ [e], by simp, hx, ?_⟩
  intro e' he'
  rcases List.mem_append.1 he' with h1 | h1
  · exact hB e' h1
  · simp at h1; subst h1; exact hb

theorem Since.new {X : Ev → Prop} {B : Ev → Bool} (pre : List Ev) {e : Ev} (hx : X e) :
    Since X B (pre ++ [e]) :=
  ⟨pre, e, [], by simp, hx, by simp⟩

theorem Since.of_snoc {X : Ev → Prop} {B : Ev → Bool} {pre : List Ev} {e : Ev}
    (h : Since X B (pre ++ [e])) : X e ∨ (Since X B pre ∧ B e = false) := by
  obtain ⟨a, x, b, hab, hx, hB⟩ := h
  rcases List.eq_nil_or_concat b with rfl | ⟨b', y, rfl⟩
  · have : a ++ [x] = pre ++ [e] := by simpa using hab.symm
    have h2 := List.append_inj' this rfl
    simp at h2
    exact Or.inl (h2.2 ▸ hx)
  · have : (a ++ x :: b') ++ [y] = pre ++ [e] := by simpa using hab.symm
    have h2 := List.append_inj' this rfl
    simp at h2
    obtain ⟨h3, rfl⟩ := h2
    exact Or.inr ⟨⟨a, x, b', h3.symm, hx, fun e' he' => hB e' (by simp [he'])⟩, hB y (by simp)⟩

theorem Since.mem {X : Ev → Prop} {B : Ev → Bool} {pre : List Ev} (h : Since X B pre) :
    ∃ x ∈ pre, X x := by
  obtain ⟨a, x, b, rfl, hx, _⟩ := h
  exact ⟨x, by simp, hx⟩

theorem Since.weaken {X : Ev → Prop} {B B' : Ev → Bool} {pre : List Ev} (h : Since X B pre)
    (hw : ∀ e, B e = false → B' e = false) : Since X B' pre := by
  obtain ⟨a, x, b, rfl, hx, hB⟩ := h
  exact ⟨a, x, b, rfl, hx, fun e he => hw e (hB e he)⟩

/-- if `y` occurs in a history and the last `X` event has no `B` after it, where `y` is a `B`
    event that is not an `X` event, then that `X` event lies after `y` -/
theorem split_after {l1 l2 a b : List Ev} {x y : Ev} (h : l1 ++ y :: l2 = a ++ x :: b)
    (hy : y ∉ b) (hxy : y ≠ x) : ∃ c, l2 = c ++ x :: b := by
  rcases List.append_eq_append_iff.1 h with ⟨c, ha, hc⟩ | ⟨c, hl, hc⟩
  · -- a = l1 ++ c,  y :: l2 = c ++ x :: b
    cases c with
    | nil => simp at hc; exact absurd hc.1 hxy
    | cons z c' =>
      simp at hc
      exact ⟨c', hc.2⟩
  · -- l1 = a ++ c,  x :: b = c ++ y :: l2
    cases c with
    | nil => simp at hc; exact absurd hc.1.symm hxy
    | cons z c' =>
      simp at hc
      exact absurd (by rw [hc.2]; simp) hy

/-! ## event classes -/

def isAsg (m : Nat) : Ev → Bool
  | .asgS m' _ _ => m' == m
  | _ => false
def isSub (m : Nat) : Ev → Bool
  | .sub m' => m' == m
  | _ => false
def isRevS (m : Nat) : Ev → Bool
  | .revS m' => m' == m
  | _ => false
def isRevE (m : Nat) : Ev → Bool
  | .revE m' => m' == m
  | _ => false
def isSubT (m : Nat) : Ev → Bool
  | .subT m' _ => m' == m
  | _ => false
def isLeave (m : Nat) : Ev → Bool
  | .leaveR m' => m' == m
  | _ => false
/-- events that end an assignment epoch of `m`: an adoption or a subscription change -/
def epochB (m : Nat) (e : Ev) : Bool := isAsg m e || isSub m e
/-! ## acceptors -/

variable {σ : Type} (step : σ → Ev → Option σ)

theorem runWith_append (s : σ) (a b : List Ev) :
    runWith step s (a ++ b) = (runWith step s a).bind (fun s' => runWith step s' b) := by
  induction a generalizing s with
  | nil => simp [runWith]
  | cons e r ih =>
    simp only [List.cons_append, runWith]
    cases h : step s e with
    | none => simp
    | some s' => simp [ih]

/-- reachability with the history that led there -/
inductive Reach (init : σ) : List Ev → σ → Prop where
  | nil : Reach init [] init
  | snoc {pre s e s'} : Reach init pre s → step s e = some s' → Reach init (pre ++ [e]) s'

theorem reach_extend (init : σ) : ∀ (tr pre0 : List Ev) (s0 s : σ), Reach step init pre0 s0 →
    runWith step s0 tr = some s → Reach step init (pre0 ++ tr) s := by
  intro tr
  induction tr with
  | nil => intro pre0 s0 s h0 h; simp [runWith] at h; subst h; simpa using h0
  | cons e r ih =>
    intro pre0 s0 s h0 h
    simp only [runWith] at h
    cases h2 : step s0 e with
    | none => simp [h2] at h
    | some s1 =>
      simp [h2] at h
      have := ih (pre0 ++ [e]) s1 s (Reach.snoc h0 h2) h
      simpa using this

theorem reach_of_run (init : σ) (tr : List Ev) (s : σ) (h : runWith step init tr = some s) :
    Reach step init tr s := by
  simpa using reach_extend step init tr [] init s Reach.nil h

/-- an accepted history: every prefix is reachable and the next event passes its guard -/
theorem accepted_split (init : σ) (pre : List Ev) (e : Ev) (post : List Ev)
    (h : (runWith step init (pre ++ e :: post)).isSome = true) :
    ∃ s s', Reach step init pre s ∧ step s e = some s' ∧ Reach step init (pre ++ [e]) s' := by
  rw [runWith_append] at h
  cases h1 : runWith step init pre with
  | none => simp [h1] at h
  | some s1 =>
    simp [h1, runWith] at h
    cases h2 : step s1 e with
    | none => simp [h2] at h
    | some s2 =>
      have r1 := reach_of_run step init pre s1 h1
      exact ⟨s1, s2, r1, h2, Reach.snoc r1 h2⟩

theorem accepted_prefix (init : σ) (pre post : List Ev)
    (h : (runWith step init (pre ++ post)).isSome = true) :
    (runWith step init pre).isSome = true := by
  rw [runWith_append] at h
  cases h1 : runWith step init pre with
  | none => simp [h1] at h
  | some s1 => simp

/-! ## small list facts -/

theorem nodupB_iff (l : List Nat) : nodupB l = true ↔ l.Nodup := by
  induction l with
  | nil => simp [nodupB]
  | cons x r ih => simp [nodupB, ih, List.nodup_cons]

theorem lookupD_of_lookup? {a : List (Nat × List Nat)} {m : Nat} {v : List Nat}
    (h : lookup? a m = some v) : lookupD a m = v := by
  induction a with
  | nil => simp [lookup?] at h
  | cons kv r ih =>
    obtain ⟨k, w⟩ := kv
    simp only [lookup?, lookupD] at *
    by_cases hk : k = m
    · simp [hk] at *; exact h
    · simp [hk] at *; exact ih h

theorem lookupD_mem {a : List (Nat × List Nat)} {m p : Nat} (h : p ∈ lookupD a m) :
    ∃ v, (m, v) ∈ a ∧ p ∈ v := by
  induction a with
  | nil => simp [lookupD] at h
  | cons kv r ih =>
    obtain ⟨k, w⟩ := kv
    simp only [lookupD] at h
    by_cases hk : k = m
    · simp [hk] at h; exact ⟨w, by simp [hk], h⟩
    · simp [hk] at h
      obtain ⟨v, hv, hp⟩ := ih h
      exact ⟨v, by simp [hv], hp⟩

theorem lookup?_mem {a : List (Nat × List Nat)} {m : Nat} {v : List Nat}
    (h : lookup? a m = some v) : (m, v) ∈ a := by
  induction a with
  | nil => simp [lookup?] at h
  | cons kv r ih =>
    obtain ⟨k, w⟩ := kv
    simp only [lookup?] at h
    by_cases hk : k = m
    · simp [hk] at h; subst h; simp [hk]
    · simp [hk] at h; simp [ih h]

end AkVerif.Group
