import AkVerif.Model.Split
import AkVerif.Lemmas.Wire
/-! the batch splitters on concatenations of valid batches -/
namespace AkVerif.Split
open AkVerif.Wire

theorem decInt_append (n : Nat) (x y : Bytes) (v : Int) (r : Bytes) (h : decInt n x = some (v, r)) :
    decInt n (x ++ y) = some (v, r ++ y) := by
  unfold decInt takeN at h ⊢
  by_cases hl : n ≤ x.length
  · have hl' : n ≤ (x ++ y).length := by simp only [List.length_append]; omega
    simp only [hl, hl', if_true] at h ⊢
    rw [List.take_append_of_le_length hl, List.drop_append_of_le_length hl]
    injection h with h
    injection h with h1 h2
    rw [h1, h2]
  · simp [hl] at h

theorem decInt_total (n : Nat) (x : Bytes) (h : n ≤ x.length) : ∃ v r, decInt n x = some (v, r) := by
  unfold decInt takeN
  simp [h]

theorem byteAt_append (b rest : Bytes) (i : Nat) (h : i < b.length) : byteAt (b ++ rest) i = byteAt b i := by
  unfold byteAt
  exact List.getElem?_append_left h

theorem byteAt16 (b : Bytes) (h : 26 ≤ b.length) : byteAt b 16 = some (magicByte b) := by
  unfold byteAt magicByte
  have h16 : 16 < b.length := by omega
  rw [List.getElem?_eq_getElem h16]
  have : b.drop 16 = b[16] :: b.drop 17 := by
    rw [List.drop_eq_getElem_cons h16]
  rw [this]

/-- the head batch of a buffer as both splitters see it -/
theorem head_facts (b rest : Bytes) (hv : ValidBatch b) :
    ¬ ((b ++ rest).length < 12) ∧
    (∃ r, decInt 4 ((b ++ rest).drop 8) = some ((b.length : Int) - 12, r)) ∧
    byteAt (b ++ rest) 16 = some (magicByte b) := by
  obtain ⟨hlen, r, hr⟩ := hv
  refine ⟨by simp only [List.length_append]; omega, ⟨r ++ rest, ?_⟩, ?_⟩
  · rw [List.drop_append_of_le_length (by omega)]
    exact decInt_append 4 _ rest _ r hr
  · rw [byteAt_append b rest 16 (by omega)]
    exact byteAt16 b hlen

theorem splitPy_head (fuel : Nat) (b rest : Bytes) (hv : ValidBatch b) :
    splitPy (fuel + 1) (b ++ rest) = (tagged b :: (splitPy fuel rest).1, (splitPy fuel rest).2) := by
  obtain ⟨h12, ⟨r, hr⟩, hm⟩ := head_facts b rest hv
  have hlen := hv.1
  conv => lhs; unfold splitPy
  simp only [h12, if_false, hr]
  have e : (12 : Int) + ((b.length : Int) - 12) = (b.length : Int) := by omega
  rw [e]
  have h1 : ¬ ((b.length : Int) > ((b ++ rest).length : Int)) := by
    simp only [List.length_append]; omega
  have h2 : ¬ ((b.length : Int) < 26) := by omega
  simp only [h1, h2, if_false, hm, Int.toNat_natCast, List.take_left', List.drop_left']
  rfl

theorem splitCy_head (fuel : Nat) (f16 : Option Nat) (b rest : Bytes) (hv : ValidBatch b) :
    splitCy false f16 (fuel + 1) (b ++ rest) =
      (tagged b :: (splitCy false f16 fuel rest).1, (splitCy false f16 fuel rest).2) := by
  obtain ⟨h12, ⟨r, hr⟩, hm⟩ := head_facts b rest hv
  have hlen := hv.1
  conv => lhs; unfold splitCy
  simp only [h12, if_false, hr]
  have e : (12 : Int) + ((b.length : Int) - 12) = (b.length : Int) := by omega
  rw [e]
  have h0 : ¬ ((b.length : Int) - 12 < 14) := by omega
  have h1 : ¬ ((b.length : Int) > ((b ++ rest).length : Int)) := by
    simp only [List.length_append]; omega
  simp only [h0, h1, if_false, hm, Int.toNat_natCast, List.take_left', List.drop_left',
    Bool.false_eq_true]
  rfl

/-- what both splitters need to know about a trailing partial batch -/
theorem tail_facts (tail : Bytes) (ht : PartialTail tail) (h12 : ¬ tail.length < 12) :
    ∃ len r, decInt 4 (tail.drop 8) = some (len, r) ∧ ¬ (len < 14) ∧ 12 + len > (tail.length : Int) := by
  obtain ⟨b, ext, ⟨hlen, r, hr⟩, hb, hext⟩ := ht
  obtain ⟨v, r', hv⟩ := decInt_total 4 (tail.drop 8) (by simp only [List.length_drop]; omega)
  have h2 := decInt_append 4 _ ext v r' hv
  have hd : b.drop 8 = tail.drop 8 ++ ext := by
    rw [hb, List.drop_append_of_le_length (by omega)]
  rw [hd, h2] at hr
  injection hr with hr
  injection hr with hr1 _
  have hbl : b.length = tail.length + ext.length := by rw [hb, List.length_append]
  have hel : 0 < ext.length := List.length_pos_iff.mpr hext
  exact ⟨v, r', hv, by omega, by omega⟩

theorem splitPy_tail (fuel : Nat) (tail : Bytes) (ht : PartialTail tail) :
    splitPy (fuel + 1) tail = ([], .done) := by
  unfold splitPy
  by_cases h12 : tail.length < 12
  · simp [h12]
  · obtain ⟨len, r, hd, _, hgt⟩ := tail_facts tail ht h12
    simp only [h12, if_false, hd, hgt, if_true]

theorem splitCy_tail (fuel : Nat) (f16 : Option Nat) (tail : Bytes) (ht : PartialTail tail) :
    splitCy false f16 (fuel + 1) tail = ([], .done) := by
  unfold splitCy
  by_cases h12 : tail.length < 12
  · simp [h12]
  · obtain ⟨len, r, hd, h14, hgt⟩ := tail_facts tail ht h12
    simp only [h12, if_false, hd, h14, hgt, if_true]

theorem splitPy_empty (fuel : Nat) : splitPy (fuel + 1) [] = ([], .done) := by
  unfold splitPy; simp

theorem splitCy_empty (fuel : Nat) (f16 : Option Nat) : splitCy false f16 (fuel + 1) [] = ([], .done) := by
  unfold splitCy; simp

theorem splitPy_concat (bs : List Bytes) (hv : ∀ b ∈ bs, ValidBatch b) (tail : Bytes)
    (ht : tail = [] ∨ PartialTail tail) : ∀ fuel, bs.length + 1 ≤ fuel →
    splitPy fuel (bs.flatten ++ tail) = (bs.map tagged, .done) := by
  induction bs with
  | nil =>
    intro fuel hf
    obtain ⟨k, rfl⟩ : ∃ k, fuel = k + 1 := ⟨fuel - 1, by simp at hf; omega⟩
    simp only [List.flatten_nil, List.nil_append, List.map_nil]
    rcases ht with rfl | ht
    · exact splitPy_empty k
    · exact splitPy_tail k tail ht
  | cons b bs ih =>
    intro fuel hf
    obtain ⟨k, rfl⟩ : ∃ k, fuel = k + 1 := ⟨fuel - 1, by simp at hf; omega⟩
    simp only [List.flatten_cons, List.append_assoc, List.map_cons]
    rw [splitPy_head k b _ (hv b (by simp)),
      ih (fun y hy => hv y (by simp [hy])) k (by simp at hf; omega)]

theorem splitCy_concat (f16 : Option Nat) (bs : List Bytes) (hv : ∀ b ∈ bs, ValidBatch b) (tail : Bytes)
    (ht : tail = [] ∨ PartialTail tail) : ∀ fuel, bs.length + 1 ≤ fuel →
    splitCy false f16 fuel (bs.flatten ++ tail) = (bs.map tagged, .done) := by
  induction bs with
  | nil =>
    intro fuel hf
    obtain ⟨k, rfl⟩ : ∃ k, fuel = k + 1 := ⟨fuel - 1, by simp at hf; omega⟩
    simp only [List.flatten_nil, List.nil_append, List.map_nil]
    rcases ht with rfl | ht
    · exact splitCy_empty k f16
    · exact splitCy_tail k f16 tail ht
  | cons b bs ih =>
    intro fuel hf
    obtain ⟨k, rfl⟩ : ∃ k, fuel = k + 1 := ⟨fuel - 1, by simp at hf; omega⟩
    simp only [List.flatten_cons, List.append_assoc, List.map_cons]
    rw [splitCy_head k f16 b _ (hv b (by simp)),
      ih (fun y hy => hv y (by simp [hy])) k (by simp at hf; omega)]

/-- the buffer length is enough fuel -/
theorem fuel_suffices (bs : List Bytes) (hv : ∀ b ∈ bs, ValidBatch b) (tail : Bytes) :
    bs.length + 1 ≤ (bs.flatten ++ tail).length + 1 := by
  have : bs.length ≤ bs.flatten.length := by
    induction bs with
    | nil => simp
    | cons b bs ih =>
      have h1 := (hv b (by simp)).1
      have h2 := ih (fun y hy => hv y (by simp [hy]))
      simp only [List.length_cons, List.flatten_cons, List.length_append]
      omega
  simp only [List.length_append]
  omega

end AkVerif.Split
