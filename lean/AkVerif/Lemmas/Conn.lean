import AkVerif.Model.Conn
import AkVerif.Lemmas.Wire
/-! lemmas for C12: frame extraction is stable under appending bytes; `handleFrame` ignores the
    read buffer -/
namespace AkVerif.Conn
open AkVerif.Wire

@[simp] theorem withBuf_buf (s : St) (x : Bytes) : (s.withBuf x).buf = x := rfl
@[simp] theorem withBuf_isOpen (s : St) (x : Bytes) : (s.withBuf x).isOpen = s.isOpen := rfl
@[simp] theorem withBuf_reqs (s : St) (x : Bytes) : (s.withBuf x).reqs = s.reqs := rfl
@[simp] theorem withBuf_out (s : St) (x : Bytes) : (s.withBuf x).out = s.out := rfl
@[simp] theorem withBuf_withBuf (s : St) (x y : Bytes) : (s.withBuf x).withBuf y = s.withBuf y := rfl
theorem withBuf_self (s : St) : s.withBuf s.buf = s := rfl

@[simp] theorem setRO_isOpen (s : St) (r : List Req) (o : List (Nat × Outcome)) :
    (s.setRO r o).isOpen = s.isOpen := rfl
@[simp] theorem setRO_buf (s : St) (r : List Req) (o : List (Nat × Outcome)) :
    (s.setRO r o).buf = s.buf := rfl
@[simp] theorem setRO_reqs (s : St) (r : List Req) (o : List (Nat × Outcome)) :
    (s.setRO r o).reqs = r := rfl
@[simp] theorem setRO_out (s : St) (r : List Req) (o : List (Nat × Outcome)) :
    (s.setRO r o).out = o := rfl
theorem withBuf_setRO (s : St) (x : Bytes) (r : List Req) (o : List (Nat × Outcome)) :
    (s.withBuf x).setRO r o = (s.setRO r o).withBuf x := rfl

@[simp] theorem resolveWhere_isOpen (p : Req → Bool) (o : Outcome) (s : St) :
    (resolveWhere p o s).isOpen = s.isOpen := rfl
@[simp] theorem resolveWhere_buf (p : Req → Bool) (o : Outcome) (s : St) :
    (resolveWhere p o s).buf = s.buf := rfl
theorem resolveWhere_withBuf (p : Req → Bool) (o : Outcome) (s : St) (x : Bytes) :
    resolveWhere p o (s.withBuf x) = (resolveWhere p o s).withBuf x := rfl

/-- the closed state reached from an open one -/
def closed (s : St) : St :=
  { resolveWhere (fun _ => true) Outcome.connErr s with isOpen := false, buf := [], reqs := [] }

theorem close_open (s : St) (h : s.isOpen = true) : close s = closed s := by
  unfold close closed; simp [h]

theorem close_isOpen (s : St) : (close s).isOpen = false := by
  unfold close
  by_cases h : s.isOpen <;> simp [h]

theorem close_withBuf (s : St) (x : Bytes) (h : s.isOpen = true) : close (s.withBuf x) = close s := by
  rw [close_open _ (by simpa using h), close_open _ h]
  rfl

theorem close_reqs (s : St) (h : s.isOpen = true) : (close s).reqs = [] := by
  rw [close_open _ h]; rfl

theorem close_buf (s : St) (h : s.isOpen = true) : (close s).buf = [] := by
  rw [close_open _ h]; rfl

/-- `_handle_frame` never looks at the stream buffer: with a different buffer the result is the
    same, except that an open result keeps the buffer it was given -/
theorem handleFrame_withBuf (s : St) (x : Bytes) (f : Bytes) (h : s.isOpen = true) :
    handleFrame (s.withBuf x) f
      = (if (handleFrame s f).isOpen then (handleFrame s f).withBuf x else handleFrame s f) := by
  unfold handleFrame
  simp only [withBuf_reqs, withBuf_out]
  split
  · simp [close_withBuf _ _ h, close_isOpen]
  · split
    · simp [withBuf_setRO, h]
    · split
      · simp [close_withBuf _ _ h, close_isOpen]
      · split
        · rw [resolveWhere_withBuf, close_withBuf _ _ (by simpa using h)]
          simp [close_isOpen]
        · split
          · simp [withBuf_setRO, h]
          · split
            · simp [close_withBuf _ _ h, close_isOpen]
            · simp [withBuf_setRO, h]

theorem handleFrame_buf (s : St) (f : Bytes) (_h : s.isOpen = true) :
    (handleFrame s f).isOpen = true → (handleFrame s f).buf = s.buf := by
  unfold handleFrame
  split
  · simp [close_isOpen]
  · split
    · simp
    · split
      · simp [close_isOpen]
      · split
        · simp [close_isOpen]
        · split
          · simp
          · split
            · simp [close_isOpen]
            · simp

theorem handleFrame_closed_buf (s : St) (f : Bytes) (h : s.isOpen = true) :
    (handleFrame s f).isOpen = false → (handleFrame s f).buf = [] := by
  unfold handleFrame
  split
  · intro _; exact close_buf _ h
  · split
    · simp [h]
    · split
      · intro _; exact close_buf _ h
      · split
        · intro _; exact close_buf _ (by simpa using h)
        · split
          · simp [h]
          · split
            · intro _; exact close_buf _ h
            · simp [h]

/-! frame extraction and appended bytes -/

theorem takeN_append_right (n : Nat) (bs h r b : Bytes) (hh : takeN n bs = some (h, r)) :
    takeN n (bs ++ b) = some (h, r ++ b) := by
  unfold takeN at *
  split at hh
  · rename_i hle
    injection hh with hh; injection hh with h1 h2; subst h1; subst h2
    have : n ≤ (bs ++ b).length := by rw [List.length_append]; omega
    rw [if_pos this, List.take_append_of_le_length hle, List.drop_append_of_le_length hle]
  · cases hh

theorem decInt_append (n : Nat) (bs b : Bytes) (v : Int) (r : Bytes) (h : decInt n bs = some (v, r)) :
    decInt n (bs ++ b) = some (v, r ++ b) := by
  unfold decInt at *
  cases ht : takeN n bs with
  | none => simp [ht] at h
  | some p =>
    obtain ⟨hd, tl⟩ := p
    rw [ht] at h
    simp only [Option.some.injEq, Prod.mk.injEq] at h
    rw [takeN_append_right n bs hd tl b ht]
    simp only [Option.some.injEq, Prod.mk.injEq]
    exact ⟨h.1, by rw [h.2]⟩

theorem decInt_rest_len (bs : Bytes) (v : Int) (r : Bytes) (h : decInt 4 bs = some (v, r)) :
    r.length + 4 = bs.length := by
  unfold decInt at h
  cases ht : takeN 4 bs with
  | none => simp [ht] at h
  | some p =>
    obtain ⟨hd, tl⟩ := p
    rw [ht] at h
    simp only [Option.some.injEq, Prod.mk.injEq] at h
    unfold takeN at ht
    split at ht
    · rename_i hle
      simp only [Option.some.injEq, Prod.mk.injEq] at ht
      rw [← h.2, ← ht.2, List.length_drop]; omega
    · cases ht

theorem nextFrame_append_frame (buf b f rest : Bytes) (h : nextFrame buf = some (some (f, rest))) :
    nextFrame (buf ++ b) = some (some (f, rest ++ b)) := by
  unfold nextFrame at *
  cases hd : decInt 4 buf with
  | none => simp [hd] at h
  | some p =>
    obtain ⟨size, r⟩ := p
    rw [hd] at h
    rw [decInt_append 4 buf b size r hd]
    simp only at h ⊢
    split at h
    · cases h
    · rename_i hneg
      simp only [hneg, if_false]
      split at h
      · rename_i hle
        simp only [Option.some.injEq, Prod.mk.injEq] at h
        have : size.toNat ≤ (r ++ b).length := by simp; omega
        simp only [this, if_true, Option.some.injEq, Prod.mk.injEq]
        rw [List.take_append_of_le_length hle, List.drop_append_of_le_length hle]
        exact ⟨h.1, by rw [h.2]⟩
      · cases h

theorem nextFrame_append_neg (buf b : Bytes) (h : nextFrame buf = some none) :
    nextFrame (buf ++ b) = some none := by
  unfold nextFrame at *
  cases hd : decInt 4 buf with
  | none => simp [hd] at h
  | some p =>
    obtain ⟨size, r⟩ := p
    rw [hd] at h
    rw [decInt_append 4 buf b size r hd]
    simp only at h ⊢
    split at h
    · rename_i hneg; simp [hneg]
    · split at h <;> cases h

theorem nextFrame_rest_lt (buf f rest : Bytes) (h : nextFrame buf = some (some (f, rest))) :
    rest.length + 4 ≤ buf.length := by
  unfold nextFrame at h
  cases hd : decInt 4 buf with
  | none => simp [hd] at h
  | some p =>
    obtain ⟨size, r⟩ := p
    rw [hd] at h
    have hl := decInt_rest_len buf size r hd
    simp only at h
    split at h
    · cases h
    · split at h
      · simp only [Option.some.injEq, Prod.mk.injEq] at h
        rw [← h.2, List.length_drop]; omega
      · cases h

/-! fuel -/

theorem pump_closed (fuel : Nat) (s : St) (h : s.isOpen = false) : pump fuel s = s := by
  cases fuel with
  | zero => rfl
  | succ n => simp [pump, h]

theorem handleFrame_buf_le (s : St) (f : Bytes) (h : s.isOpen = true) :
    (handleFrame s f).buf.length ≤ s.buf.length := by
  by_cases ho : (handleFrame s f).isOpen = true
  · rw [handleFrame_buf s f h ho]; exact Nat.le_refl _
  · rw [handleFrame_closed_buf s f h (by simpa using ho)]; simp

theorem pump_fuel_succ (fuel : Nat) : ∀ s : St, s.buf.length < fuel → pump fuel s = pump (fuel + 1) s := by
  induction fuel with
  | zero => intro s h; omega
  | succ n ih =>
    intro s h
    by_cases ho : s.isOpen = true
    · rw [pump, pump]
      simp only [ho, Bool.not_true, Bool.false_eq_true, if_false]
      cases hf : nextFrame s.buf with
      | none => rfl
      | some o =>
        cases o with
        | none => rfl
        | some p =>
          obtain ⟨f, rest⟩ := p
          simp only
          apply ih
          have h1 := nextFrame_rest_lt _ _ _ hf
          have h2 := handleFrame_buf_le (s.withBuf rest) f (by simpa using ho)
          simp only [withBuf_buf] at h2
          omega
    · rw [pump_closed _ _ (by simpa using ho), pump_closed _ _ (by simpa using ho)]

theorem pump_fuel (s : St) (fuel : Nat) (h : s.buf.length < fuel) : pump fuel s = pumpAll s := by
  unfold pumpAll
  induction fuel with
  | zero => omega
  | succ n ih =>
    rcases Nat.lt_or_ge s.buf.length n with hlt | hge
    · rw [← pump_fuel_succ n s hlt]; exact ih hlt
    · have : n = s.buf.length := by omega
      rw [this]

end AkVerif.Conn
