import AkVerif.Model.Conn
import AkVerif.Lemmas.Wire
/-! lemmas for C12: frame extraction is stable under appending bytes; `handleFrame` ignores the
    read buffer -/
namespace AkVerif.Conn
open AkVerif.Wire

@[simp] theorem withBuf_buf (s : St) (x : Bytes) : (s.withBuf x).buf = x := rfl
@[simp] theorem withBuf_isOpen (s : St) (x : Bytes) : (s.withBuf x).isOpen = s.isOpen := rfl
@[simp] theorem withBuf_reqs (s : St) (x : Bytes) : (s.withBuf x).reqs = s.reqs := rfl
@[simp] theorem withBuf_out (s : St) (x : Bytes) : (s.withBuf x).out = s.out := rfl
@[simp] theorem withBuf_withBuf (s : St) (x y : Bytes) : (s.withBuf x).withBuf y = s.withBuf y := rfl
theorem withBuf_self (s : St) : s.withBuf s.buf = s := rfl

@[simp] theorem setRO_isOpen (s : St) (r : List Req) (o : List (Nat × Outcome)) :
    (s.setRO r o).isOpen = s.isOpen := rfl
@[simp] theorem setRO_buf (s : St) (r : List Req) (o : List (Nat × Outcome)) :
    (s.setRO r o).buf = s.buf := rfl
@[simp] theorem setRO_reqs (s : St) (r : List Req) (o : List (Nat × Outcome)) :
    (s.setRO r o).reqs = r := rfl
@[simp] theorem setRO_out (s : St) (r : List Req) (o : List (Nat × Outcome)) :
    (s.setRO r o).out = o := rfl
theorem withBuf_setRO (s : St) (x : Bytes) (r : List Req) (o : List (Nat × Outcome)) :
    (s.withBuf x).setRO r o = (s.setRO r o).withBuf x := rfl

@[simp] theorem resolveWhere_isOpen (p : Req → Bool) (o : Outcome) (s : St) :
    (resolveWhere p o s).isOpen = s.isOpen := rfl
@[simp] theorem resolveWhere_buf (p : Req → Bool) (o : Outcome) (s : St) :
    (resolveWhere p o s).buf = s.buf := rfl
theorem resolveWhere_withBuf (p : Req → Bool) (o : Outcome) (s : St) (x : Bytes) :
    resolveWhere p o (s.withBuf x) = (resolveWhere p o s).withBuf x := rfl

/-- the closed state reached from an open one -/
def closed (s : St) : St :=
  { resolveWhere (fun _ => true) Outcome.connErr s with isOpen := false, buf := [], reqs := [] }

theorem close_open (s : St) (h : s.isOpen = true) : close s = closed s := by
  unfold close closed; simp [h]

theorem close_isOpen (s : St) : (close s).isOpen = false := by
  unfold close
  by_cases h : s.isOpen <;> simp [h]

theorem close_withBuf (s : St) (x : Bytes) (h : s.isOpen = true) : close (s.withBuf x) = close s := by
  rw [close_open _ (by simpa using h), close_open _ h]
  rfl

theorem close_reqs (s : St) (h : s.isOpen = true) : (close s).reqs = [] := by
  rw [close_open _ h]; rfl

theorem close_buf (s : St) (h : s.isOpen = true) : (close s).buf = [] := by
  rw [close_open _ h]; rfl

/-- `_handle_frame` never looks at the stream buffer: with a different buffer the result is the
    same, except that an open result keeps the buffer it was given -/
theorem handleFrame_withBuf (s : St) (x : Bytes) (f : Bytes) (h : s.isOpen = true) :
    handleFrame (s.withBuf x) f
      = (if (handleFrame s f).isOpen then (handleFrame s f).withBuf x else handleFrame s f) := by
  unfold handleFrame
  simp only [withBuf_reqs, withBuf_out]
  split
  · simp [close_withBuf _ _ h, close_isOpen]
  · split
    · simp [withBuf_setRO, h]
    · split
      · simp [close_withBuf _ _ h, close_isOpen]
      · split
        · rw [resolveWhere_withBuf, close_withBuf _ _ (by simpa using h)]
          simp [close_isOpen]
        · split
          · simp [withBuf_setRO, h]
          · split
            · simp [close_withBuf _ _ h, close_isOpen]
            · simp [withBuf_setRO, h]

theorem handleFrame_buf (s : St) (f : Bytes) (_h : s.isOpen = true) :
    (handleFrame s f).isOpen = true → (handleFrame s f).buf = s.buf := by
  unfold handleFrame
  split
  · simp [close_isOpen]
  · split
    · simp
    · split
      · simp [close_isOpen]
      · split
        · simp [close_isOpen]
        · split
          · simp
          · split
            · simp [close_isOpen]
            · simp

theorem handleFrame_closed_buf (s : St) (f : Bytes) (h : s.isOpen = true) :
    (handleFrame s f).isOpen = false → (handleFrame s f).buf = [] := by
  unfold handleFrame
  split
  · intro _; exact close_buf _ h
  · split
    · simp [h]
    · split
      · intro _; exact close_buf _ h
      · split
        · intro _; exact close_buf _ (by simpa using h)
        · split
          · simp [h]
          · split
            · intro _; exact close_buf _ h
            · simp [h]

/-! frame extraction and appended bytes -/

theorem takeN_append_right (n : Nat) (bs h r b : Bytes) (hh : takeN n bs = some (h, r)) :
    takeN n (bs ++ b) = some (h, r ++ b) := by
  unfold takeN at *
  split at hh
  · rename_i hle
    injection hh with hh; injection hh with h1 h2; subst h1; subst h2
    have : n ≤ (bs ++ b).length := by rw [List.length_append]; omega
    rw [if_pos this, List.take_append_of_le_length hle, List.drop_append_of_le_length hle]
  · cases hh

theorem decInt_append (n : Nat) (bs b : Bytes) (v : Int) (r : Bytes) (h : decInt n bs = some (v, r)) :
    decInt n (bs ++ b) = some (v, r ++ b) := by
  unfold decInt at *
  cases ht : takeN n bs with
  | none => simp [ht] at h
  | some p =>
    obtain ⟨hd, tl⟩ := p
    rw [ht] at h
    simp only [Option.some.injEq, Prod.mk.injEq] at h
    rw [takeN_append_right n bs hd tl b ht]
    simp only [Option.some.injEq, Prod.mk.injEq]
    exact ⟨h.1, by rw [h.2]⟩

theorem decInt_rest_len (bs : Bytes) (v : Int) (r : Bytes) (h : decInt 4 bs = some (v, r)) :
    r.length + 4 = bs.length := by
  unfold decInt at h
  cases ht : takeN 4 bs with
  | none => simp [ht] at h
  | some p =>
    obtain ⟨hd, tl⟩ := p
    rw [ht] at h
    simp only [Option.some.injEq, Prod.mk.injEq] at h
    unfold takeN at ht
    split at ht
    · rename_i hle
      simp only [Option.some.injEq, Prod.mk.injEq] at ht
      rw [← h.2, ← ht.2, List.length_drop]; omega
    · cases ht

theorem nextFrame_append_frame (buf b f rest : Bytes) (h : nextFrame buf = some (some (f, rest))) :
    nextFrame (buf ++ b) = some (some (f, rest ++ b)) := by
  unfold nextFrame at *
  cases hd : decInt 4 buf with
  | none => simp [hd] at h
  | some p =>
    obtain ⟨size, r⟩ := p
    rw [hd] at h
    rw [decInt_append 4 buf b size r hd]
    simp only at h ⊢
    split at h
    · cases h
    · rename_i hneg
      simp only [hneg, if_false]
      split at h
      · rename_i hle
        simp only [Option.some.injEq, Prod.mk.injEq] at h
        have : size.toNat ≤ (r ++ b).length := by simp; omega
        simp only [this, if_true, Option.some.injEq, Prod.mk.injEq]
        rw [List.take_append_of_le_length hle, List.drop_append_of_le_length hle]
        exact ⟨h.1, by rw [h.2]⟩
      · cases h

theorem nextFrame_append_neg (buf b : Bytes) (h : nextFrame buf = some none) :
    nextFrame (buf ++ b) = some none := by
  unfold nextFrame at *
  cases hd : decInt 4 buf with
  | none => simp [hd] at h
  | some p =>
    obtain ⟨size, r⟩ := p
    rw [hd] at h
    rw [decInt_append 4 buf b size r hd]
    simp only at h ⊢
    split at h
    · rename_i hneg; simp [hneg]
    · split at h <;> cases h

theorem nextFrame_rest_lt (buf f rest : Bytes) (h : nextFrame buf = some (some (f, rest))) :
    rest.length + 4 ≤ buf.length := by
  unfold nextFrame at h
  cases hd : decInt 4 buf with
  | none => simp [hd] at h
  | some p =>
    obtain ⟨size, r⟩ := p
    rw [hd] at h
    have hl := decInt_rest_len buf size r hd
    simp only at h
    split at h
    · cases h
    · split at h
      · simp only [Option.some.injEq, Prod.mk.injEq] at h
        rw [← h.2, List.length_drop]; omega
      · cases h

/-! fuel -/

theorem pump_closed (fuel : Nat) (s : St) (h : s.isOpen = false) : pump fuel s = s := by
  cases fuel with
  | zero => rfl
  | succ n => simp [pump, h]

theorem handleFrame_buf_le (s : St) (f : Bytes) (h : s.isOpen = true) :
    (handleFrame s f).buf.length ≤ s.buf.length := by
  by_cases ho : (handleFrame s f).isOpen = true
  · rw [handleFrame_buf s f h ho]; exact Nat.le_refl _
  · rw [handleFrame_closed_buf s f h (by simpa using ho)]; simp

theorem pump_fuel_succ (fuel : Nat) : ∀ s : St, s.buf.length < fuel → pump fuel s = pump (fuel + 1) s := by
  induction fuel with
  | zero => intro s h; omega
  | succ n ih =>
    intro s h
    by_cases ho : s.isOpen = true
    · rw [pump, pump]
      simp only [ho, Bool.not_true, Bool.false_eq_true, if_false]
      cases hf : nextFrame s.buf with
      | none => rfl
      | some o =>
        cases o with
        | none => rfl
        | some p =>
          obtain ⟨f, rest⟩ := p
          simp only
          apply ih
          have h1 := nextFrame_rest_lt _ _ _ hf
          have h2 := handleFrame_buf_le (s.withBuf rest) f (by simpa using ho)
          simp only [withBuf_buf] at h2
          omega
    · rw [pump_closed _ _ (by simpa using ho), pump_closed _ _ (by simpa using ho)]

theorem pump_fuel (s : St) (fuel : Nat) (h : s.buf.length < fuel) : pump fuel s = pumpAll s := by
  unfold pumpAll
  induction fuel with
  | zero => omega
  | succ n ih =>
    rcases Nat.lt_or_ge s.buf.length n with hlt | hge
    · rw [← pump_fuel_succ n s hlt]; exact ih hlt
    · have : n = s.buf.length := by omega
      rw [this]

end AkVerif.Conn

namespace AkVerif.Conn
open AkVerif.Wire

def outIds (s : St) : List Nat := s.out.map (·.1)

/-- bookkeeping invariant of the connection: every waiter ever created is either resolved (exactly
    one entry in the outcome log) or still queued and pending; a closed connection has no queue -/
structure Inv (s : St) : Prop where
  ids_sorted : (s.reqs.map (·.id)).Pairwise (· < ·)
  ids_lt : ∀ r ∈ s.reqs, r.id < s.nextId
  out_lt : ∀ i ∈ outIds s, i < s.nextId
  out_nodup : (outIds s).Nodup
  pend_fresh : ∀ r ∈ s.reqs, r.done = false → r.id ∉ outIds s
  done_has : ∀ r ∈ s.reqs, r.done = true → r.id ∈ outIds s
  complete : ∀ i, i < s.nextId → i ∈ outIds s ∨ ∃ r ∈ s.reqs, r.id = i
  closed_empty : s.isOpen = false → s.reqs = []

theorem eq_of_id_eq {l : List Req} (h : (l.map (·.id)).Pairwise (· < ·)) {a b : Req}
    (ha : a ∈ l) (hb : b ∈ l) (hid : a.id = b.id) : a = b := by
  induction l with
  | nil => cases ha
  | cons x xs ih =>
    simp only [List.map_cons, List.pairwise_cons] at h
    rcases List.mem_cons.mp ha with rfl | ha' <;> rcases List.mem_cons.mp hb with rfl | hb'
    · rfl
    · have := h.1 b.id (List.mem_map.mpr ⟨b, hb', rfl⟩); omega
    · have := h.1 a.id (List.mem_map.mpr ⟨a, ha', rfl⟩); omega
    · exact ih h.2 ha' hb'

def mark (p : Req → Bool) (r : Req) : Req := if !r.done && p r then { r with done := true } else r

@[simp] theorem mark_id (p : Req → Bool) (r : Req) : (mark p r).id = r.id := by
  unfold mark; split <;> rfl

theorem resolveWhere_reqs (p : Req → Bool) (o : Outcome) (s : St) :
    (resolveWhere p o s).reqs = s.reqs.map (mark p) := rfl

theorem resolveWhere_outIds (p : Req → Bool) (o : Outcome) (s : St) :
    outIds (resolveWhere p o s)
      = (s.reqs.filter (fun r => !r.done && p r)).map (·.id) ++ outIds s := by
  unfold outIds resolveWhere
  simp [List.map_append, List.map_map, Function.comp_def]

theorem map_mark_ids (p : Req → Bool) (l : List Req) : (l.map (mark p)).map (·.id) = l.map (·.id) := by
  simp [List.map_map, Function.comp_def]

theorem resolveWhere_inv (p : Req → Bool) (o : Outcome) (s : St) (h : Inv s) :
    Inv (resolveWhere p o s) := by
  have hn : (resolveWhere p o s).nextId = s.nextId := rfl
  constructor
  · rw [resolveWhere_reqs, map_mark_ids]; exact h.ids_sorted
  · intro r hr
    rw [resolveWhere_reqs] at hr
    obtain ⟨r0, hr0, rfl⟩ := List.mem_map.mp hr
    rw [mark_id, hn]; exact h.ids_lt r0 hr0
  · intro i hi
    rw [resolveWhere_outIds] at hi
    rw [hn]
    rcases List.mem_append.mp hi with hi | hi
    · obtain ⟨r, hr, rfl⟩ := List.mem_map.mp hi
      exact h.ids_lt r (List.mem_filter.mp hr).1
    · exact h.out_lt i hi
  · rw [resolveWhere_outIds, List.nodup_append]
    refine ⟨?_, h.out_nodup, ?_⟩
    · have hsub : ((s.reqs.filter (fun r => !r.done && p r)).map (·.id)).Sublist (s.reqs.map (·.id)) :=
        List.Sublist.map _ List.filter_sublist
      exact (List.Pairwise.sublist hsub h.ids_sorted).imp (fun hlt => Nat.ne_of_lt hlt)
    · intro a ha b hb heq
      obtain ⟨r, hr, rfl⟩ := List.mem_map.mp ha
      have hf := List.mem_filter.mp hr
      have hd : r.done = false := by
        have := hf.2; simp only [Bool.and_eq_true, Bool.not_eq_true'] at this; exact this.1
      exact h.pend_fresh r hf.1 hd (heq ▸ hb)
  · intro r hr hd
    rw [resolveWhere_reqs] at hr
    obtain ⟨r0, hr0, rfl⟩ := List.mem_map.mp hr
    rw [mark_id, resolveWhere_outIds]
    unfold mark at hd
    split at hd
    · simp at hd
    · rename_i hc
      intro hmem
      rcases List.mem_append.mp hmem with hm | hm
      · obtain ⟨r1, hr1, hid⟩ := List.mem_map.mp hm
        have hf := List.mem_filter.mp hr1
        have : r1 = r0 := eq_of_id_eq h.ids_sorted hf.1 hr0 hid
        subst this
        exact hc hf.2
      · exact h.pend_fresh r0 hr0 hd hm
  · intro r hr hd
    rw [resolveWhere_reqs] at hr
    obtain ⟨r0, hr0, rfl⟩ := List.mem_map.mp hr
    rw [mark_id, resolveWhere_outIds]
    unfold mark at hd
    split at hd
    · rename_i hc
      exact List.mem_append_left _ (List.mem_map.mpr ⟨r0, List.mem_filter.mpr ⟨hr0, hc⟩, rfl⟩)
    · exact List.mem_append_right _ (h.done_has r0 hr0 hd)
  · intro i hi
    rw [hn] at hi
    rcases h.complete i hi with h1 | ⟨r, hr, rfl⟩
    · left; rw [resolveWhere_outIds]; exact List.mem_append_right _ h1
    · right
      exact ⟨mark p r, by rw [resolveWhere_reqs]; exact List.mem_map.mpr ⟨r, hr, rfl⟩, mark_id p r⟩
  · intro hc
    rw [resolveWhere_reqs, h.closed_empty hc]; rfl

end AkVerif.Conn

namespace AkVerif.Conn
open AkVerif.Wire

theorem mark_true_done (r : Req) : (mark (fun _ => true) r).done = true := by
  unfold mark
  by_cases h : r.done = true
  · simp [h]
  · have : r.done = false := by simpa using h
    simp [this]

theorem close_inv (s : St) (h : Inv s) : Inv (close s) := by
  unfold close
  by_cases ho : s.isOpen = true
  · simp only [ho, Bool.not_true, Bool.false_eq_true, if_false]
    have hr := resolveWhere_inv (fun _ => true) Outcome.connErr s h
    constructor
    · simp
    · intro r hr; cases hr
    · exact hr.out_lt
    · exact hr.out_nodup
    · intro r hr; cases hr
    · intro r hr; cases hr
    · intro i hi
      rcases hr.complete i hi with h1 | ⟨r, hrm, rfl⟩
      · exact Or.inl h1
      · left
        apply hr.done_has r hrm
        rw [resolveWhere_reqs] at hrm
        obtain ⟨r0, _, rfl⟩ := List.mem_map.mp hrm
        exact mark_true_done r0
    · intro _; rfl
  · have : s.isOpen = false := by simpa using ho
    simp only [this, Bool.not_false, if_true]; exact h

theorem send_inv (s : St) (c : Bool) (k : Kind) (h : Inv s) : Inv (send s c k) := by
  unfold send
  by_cases ho : s.isOpen = true
  · simp only [ho, Bool.not_true, Bool.false_eq_true, if_false]
    constructor
    · simp only [List.map_append, List.map_cons, List.map_nil]
      rw [List.pairwise_append]
      refine ⟨h.ids_sorted, by simp, ?_⟩
      intro a ha b hb
      obtain ⟨r, hr, rfl⟩ := List.mem_map.mp ha
      simp only [List.mem_singleton] at hb; subst hb
      exact h.ids_lt r hr
    · intro r hr
      simp only [List.mem_append, List.mem_singleton] at hr
      rcases hr with hr | rfl
      · have := h.ids_lt r hr; simp only; omega
      · simp
    · intro i hi; have := h.out_lt i hi; simp only; omega
    · exact h.out_nodup
    · intro r hr hd
      simp only [List.mem_append, List.mem_singleton] at hr
      rcases hr with hr | rfl
      · exact h.pend_fresh r hr hd
      · intro hm; have := h.out_lt _ hm; simp at this
    · intro r hr hd
      simp only [List.mem_append, List.mem_singleton] at hr
      rcases hr with hr | rfl
      · exact h.done_has r hr hd
      · simp at hd
    · intro i hi
      simp only at hi
      rcases Nat.lt_or_ge i s.nextId with hlt | hge
      · rcases h.complete i hlt with h1 | ⟨r, hr, rfl⟩
        · exact Or.inl h1
        · exact Or.inr ⟨r, List.mem_append_left _ hr, rfl⟩
      · have : i = s.nextId := by omega
        subst this
        exact Or.inr ⟨_, List.mem_append_right _ (List.mem_singleton.mpr rfl), rfl⟩
    · intro hc; simp [ho] at hc
  · have hc : s.isOpen = false := by simpa using ho
    simp only [hc, Bool.not_false, if_true]
    have hre := h.closed_empty hc
    constructor
    · simpa [hre] using h.ids_sorted
    · intro r hr; simp [hre] at hr
    · intro i hi
      simp only [outIds, List.map_cons, List.mem_cons] at hi
      rcases hi with rfl | hi
      · simp
      · have := h.out_lt i hi; simp only; omega
    · simp only [outIds, List.map_cons, List.nodup_cons]
      exact ⟨fun hm => by have := h.out_lt _ hm; simp at this, h.out_nodup⟩
    · intro r hr; simp [hre] at hr
    · intro r hr; simp [hre] at hr
    · intro i hi
      simp only at hi
      left
      simp only [outIds, List.map_cons, List.mem_cons]
      rcases Nat.lt_or_ge i s.nextId with hlt | hge
      · rcases h.complete i hlt with h1 | ⟨r, hr, _⟩
        · exact Or.inr h1
        · simp [hre] at hr
      · left; omega
    · intro _; exact hre

/-- popping a head request whose waiter is already done -/
theorem pop_done_inv (s : St) (r : Req) (rest : List Req) (h : Inv s) (hq : s.reqs = r :: rest)
    (hd : r.done = true) (ho : s.isOpen = true) : Inv (s.setRO rest s.out) := by
  have hmem : ∀ x ∈ rest, x ∈ s.reqs := fun x hx => hq ▸ List.mem_cons_of_mem _ hx
  constructor
  · have := h.ids_sorted; rw [hq] at this
    simp only [List.map_cons, List.pairwise_cons] at this
    exact this.2
  · intro x hx; exact h.ids_lt x (hmem x hx)
  · exact h.out_lt
  · exact h.out_nodup
  · intro x hx; exact h.pend_fresh x (hmem x hx)
  · intro x hx; exact h.done_has x (hmem x hx)
  · intro i hi
    rcases h.complete i hi with h1 | ⟨x, hx, rfl⟩
    · exact Or.inl h1
    · rw [hq] at hx
      rcases List.mem_cons.mp hx with rfl | hx'
      · exact Or.inl (h.done_has x (hq ▸ List.mem_cons_self) hd)
      · exact Or.inr ⟨x, hx', rfl⟩
  · intro hc; simp [ho] at hc

/-- popping a pending head request while giving its waiter an outcome -/
theorem pop_out_inv (s : St) (r : Req) (rest : List Req) (o : Outcome) (h : Inv s)
    (hq : s.reqs = r :: rest) (hd : r.done = false) (ho : s.isOpen = true) :
    Inv (s.setRO rest ((r.id, o) :: s.out)) := by
  have hmem : ∀ x ∈ rest, x ∈ s.reqs := fun x hx => hq ▸ List.mem_cons_of_mem _ hx
  have hsorted := h.ids_sorted
  rw [hq] at hsorted
  simp only [List.map_cons, List.pairwise_cons] at hsorted
  have hne : ∀ x ∈ rest, x.id ≠ r.id := by
    intro x hx
    have := hsorted.1 x.id (List.mem_map.mpr ⟨x, hx, rfl⟩); omega
  constructor
  · exact hsorted.2
  · intro x hx; exact h.ids_lt x (hmem x hx)
  · intro i hi
    simp only [outIds, setRO_out, List.map_cons, List.mem_cons] at hi
    rcases hi with rfl | hi
    · exact h.ids_lt r (hq ▸ List.mem_cons_self)
    · exact h.out_lt i hi
  · simp only [outIds, setRO_out, List.map_cons, List.nodup_cons]
    exact ⟨h.pend_fresh r (hq ▸ List.mem_cons_self) hd, h.out_nodup⟩
  · intro x hx hxd
    simp only [outIds, setRO_out, List.map_cons, List.mem_cons, not_or]
    exact ⟨hne x hx, h.pend_fresh x (hmem x hx) hxd⟩
  · intro x hx hxd
    simp only [outIds, setRO_out, List.map_cons, List.mem_cons]
    exact Or.inr (h.done_has x (hmem x hx) hxd)
  · intro i hi
    rcases h.complete i hi with h1 | ⟨x, hx, rfl⟩
    · left; simp only [outIds, setRO_out, List.map_cons, List.mem_cons]; exact Or.inr h1
    · rw [hq] at hx
      rcases List.mem_cons.mp hx with rfl | hx'
      · left; simp [outIds]
      · exact Or.inr ⟨x, hx', rfl⟩
  · intro hc; simp [ho] at hc

theorem withBuf_inv (s : St) (x : Bytes) (h : Inv s) : Inv (s.withBuf x) :=
  ⟨h.ids_sorted, h.ids_lt, h.out_lt, h.out_nodup, h.pend_fresh, h.done_has, h.complete, h.closed_empty⟩

theorem handleFrame_inv (s : St) (f : Bytes) (h : Inv s) (ho : s.isOpen = true) :
    Inv (handleFrame s f) := by
  unfold handleFrame
  split
  · exact close_inv s h
  · rename_i r rest hq
    split
    · by_cases hd : r.done = true
      · simp only [hd, if_true]; exact pop_done_inv s r rest h hq hd ho
      · have hd' : r.done = false := by simpa using hd
        simp only [hd', Bool.false_eq_true, if_false]; exact pop_out_inv s r rest _ h hq hd' ho
    · split
      · exact close_inv s h
      · split
        · exact close_inv _ (resolveWhere_inv _ _ s h)
        · split
          · rename_i hd; exact pop_done_inv s r rest h hq hd ho
          · rename_i hd
            have hd' : r.done = false := by simpa using hd
            split
            · exact close_inv s h
            · exact pop_out_inv s r rest _ h hq hd' ho

theorem pump_inv (fuel : Nat) : ∀ s : St, Inv s → Inv (pump fuel s) := by
  induction fuel with
  | zero => intro s h; exact h
  | succ n ih =>
    intro s h
    rw [pump]
    by_cases ho : s.isOpen = true
    · simp only [ho, Bool.not_true, Bool.false_eq_true, if_false]
      split
      · exact h
      · exact close_inv s h
      · exact ih _ (handleFrame_inv _ _ (withBuf_inv s _ h) (by simpa using ho))
    · have : s.isOpen = false := by simpa using ho
      simp only [this, Bool.not_false, if_true]; exact h

theorem step_inv (s : St) (op : Op) (h : Inv s) : Inv (step s op) := by
  cases op with
  | send c k => exact send_inv s c k h
  | sendNR =>
    simp only [step, sendNR]
    split
    · exact h
    · exact ⟨h.ids_sorted, h.ids_lt, h.out_lt, h.out_nodup, h.pend_fresh, h.done_has, h.complete, h.closed_empty⟩
  | feed ch =>
    simp only [step, feed]
    split
    · exact h
    · exact pump_inv _ _ (withBuf_inv s _ h)
  | advance dt =>
    simp only [step, advance]
    exact resolveWhere_inv _ _ _
      ⟨h.ids_sorted, h.ids_lt, h.out_lt, h.out_nodup, h.pend_fresh, h.done_has, h.complete, h.closed_empty⟩
  | cancel id => exact resolveWhere_inv _ _ s h
  | eof => exact close_inv s h
  | close => exact close_inv s h

theorem init_inv (t c : Nat) : Inv { timeoutMs := t, counter := c } := by
  constructor
  · simp
  · intro r hr; cases hr
  · intro i hi; cases hi
  · simp [outIds]
  · intro r hr; cases hr
  · intro r hr; cases hr
  · intro i hi; cases hi
  · intro _; rfl

theorem run_inv (s : St) (ops : List Op) (h : Inv s) : Inv (run s ops) := by
  induction ops generalizing s with
  | nil => exact h
  | cons op ops ih => exact ih _ (step_inv s op h)

end AkVerif.Conn

namespace AkVerif.Conn
open AkVerif.Wire

/-- outcomes produced by an arriving frame (as opposed to failures) -/
def Outcome.delivered : Outcome → Bool
  | .reply _ _ => true
  | .raw _ => true
  | _ => false

/-- the reply a waiter holds answers its own request -/
def answers (corr : Option Nat) (quirk : Bool) : Outcome → Prop
  | .reply recv _ => ∃ c, corr = some c ∧ (recv = (c : Int) ∨ (quirk = true ∧ c ≠ 0 ∧ recv = 0))
  | .raw _ => corr = none
  | _ => True

/-- matching invariant: each delivered outcome answers the waiter's own request (same correlation
    id, or the documented 0.8.2 quirk), and deliveries happen in request order (whatever has been
    delivered is older than everything still queued) -/
structure InvM (s : St) : Prop where
  issued_reqs : ∀ r ∈ s.reqs, (r.id, r.corr, r.kind.quirk) ∈ s.issued
  issued_lt : ∀ e ∈ s.issued, e.1 < s.nextId
  reqs_lt : ∀ r ∈ s.reqs, r.id < s.nextId
  sorted : (s.reqs.map (·.id)).Pairwise (· < ·)
  out_match : ∀ io ∈ s.out, ∃ corr q, (io.1, corr, q) ∈ s.issued ∧ answers corr q io.2
  order : ∀ io ∈ s.out, io.2.delivered = true → ∀ r ∈ s.reqs, io.1 < r.id
  counter_lt : s.counter < 2 ^ 31

theorem resolveWhere_invM (p : Req → Bool) (o : Outcome) (ho : o.delivered = false) (s : St)
    (h : InvM s) : InvM (resolveWhere p o s) := by
  have hids : ∀ r ∈ (resolveWhere p o s).reqs, ∃ r0 ∈ s.reqs, r = mark p r0 := by
    intro r hr; rw [resolveWhere_reqs] at hr
    obtain ⟨r0, h0, rfl⟩ := List.mem_map.mp hr; exact ⟨r0, h0, rfl⟩
  have mark_fields : ∀ r0 : Req, (mark p r0).corr = r0.corr ∧ (mark p r0).kind = r0.kind := by
    intro r0; unfold mark; split <;> exact ⟨rfl, rfl⟩
  constructor
  · intro r hr
    obtain ⟨r0, h0, rfl⟩ := hids r hr
    rw [mark_id, (mark_fields r0).1, (mark_fields r0).2]
    exact h.issued_reqs r0 h0
  · exact h.issued_lt
  · intro r hr
    obtain ⟨r0, h0, rfl⟩ := hids r hr
    rw [mark_id]; exact h.reqs_lt r0 h0
  · rw [resolveWhere_reqs, map_mark_ids]; exact h.sorted
  · intro io hio
    simp only [resolveWhere, List.mem_append, List.mem_map, List.mem_filter] at hio
    rcases hio with ⟨r, ⟨hr, _⟩, rfl⟩ | hio
    · refine ⟨r.corr, r.kind.quirk, h.issued_reqs r hr, ?_⟩
      cases o <;> simp_all [answers, Outcome.delivered]
    · exact h.out_match io hio
  · intro io hio hdel r hr
    obtain ⟨r0, h0, rfl⟩ := hids r hr
    rw [mark_id]
    simp only [resolveWhere, List.mem_append, List.mem_map, List.mem_filter] at hio
    rcases hio with ⟨r1, _, rfl⟩ | hio
    · simp [ho] at hdel
    · exact h.order io hio hdel r0 h0
  · exact h.counter_lt

theorem close_invM (s : St) (h : InvM s) : InvM (close s) := by
  unfold close
  by_cases ho : s.isOpen = true
  · simp only [ho, Bool.not_true, Bool.false_eq_true, if_false]
    have hrw := resolveWhere_invM (fun _ => true) Outcome.connErr rfl s h
    constructor
    · intro r hr; cases hr
    · exact hrw.issued_lt
    · intro r hr; cases hr
    · simp
    · exact hrw.out_match
    · intro io _ _ r hr; cases hr
    · exact hrw.counter_lt
  · have : s.isOpen = false := by simpa using ho
    simp only [this, Bool.not_false, if_true]; exact h

theorem nextCorr_lt (c : Nat) : nextCorr c < 2 ^ 31 := by
  unfold nextCorr; exact Nat.mod_lt _ (by decide)

theorem send_invM (s : St) (c : Bool) (k : Kind) (h : InvM s) : InvM (send s c k) := by
  unfold send
  by_cases ho : s.isOpen = true
  · simp only [ho, Bool.not_true, Bool.false_eq_true, if_false]
    constructor
    · intro r hr
      simp only [List.mem_append, List.mem_singleton] at hr
      rcases hr with hr | rfl
      · exact List.mem_cons_of_mem _ (h.issued_reqs r hr)
      · exact List.mem_cons_self
    · intro e he
      rcases List.mem_cons.mp he with rfl | he
      · simp
      · have := h.issued_lt e he; simp only; omega
    · intro r hr
      simp only [List.mem_append, List.mem_singleton] at hr
      rcases hr with hr | rfl
      · have := h.reqs_lt r hr; simp only; omega
      · simp
    · simp only [List.map_append, List.map_cons, List.map_nil]
      rw [List.pairwise_append]
      refine ⟨h.sorted, by simp, ?_⟩
      intro a ha b hb
      obtain ⟨r, hr, rfl⟩ := List.mem_map.mp ha
      simp only [List.mem_singleton] at hb; subst hb
      exact h.reqs_lt r hr
    · intro io hio
      obtain ⟨corr, q, hm, hmt⟩ := h.out_match io hio
      exact ⟨corr, q, List.mem_cons_of_mem _ hm, hmt⟩
    · intro io hio hdel r hr
      simp only [List.mem_append, List.mem_singleton] at hr
      rcases hr with hr | rfl
      · exact h.order io hio hdel r hr
      · obtain ⟨corr, q, hm, _⟩ := h.out_match io hio
        exact h.issued_lt _ hm
    · simp only
      split
      · exact nextCorr_lt _
      · exact h.counter_lt
  · have hc : s.isOpen = false := by simpa using ho
    simp only [hc, Bool.not_false, if_true]
    constructor
    · intro r hr; exact List.mem_cons_of_mem _ (h.issued_reqs r hr)
    · intro e he
      rcases List.mem_cons.mp he with rfl | he
      · simp
      · have := h.issued_lt e he; simp only; omega
    · intro r hr; have := h.reqs_lt r hr; simp only; omega
    · exact h.sorted
    · intro io hio
      rcases List.mem_cons.mp hio with rfl | hio
      · exact ⟨none, k.quirk, List.mem_cons_self, by simp [answers]⟩
      · obtain ⟨corr, q, hm, hmt⟩ := h.out_match io hio
        exact ⟨corr, q, List.mem_cons_of_mem _ hm, hmt⟩
    · intro io hio hdel r hr
      rcases List.mem_cons.mp hio with rfl | hio
      · simp [Outcome.delivered] at hdel
      · exact h.order io hio hdel r hr
    · exact h.counter_lt

end AkVerif.Conn

namespace AkVerif.Conn
open AkVerif.Wire

theorem pop_invM (s : St) (r : Req) (rest : List Req) (h : InvM s) (hq : s.reqs = r :: rest) :
    InvM (s.setRO rest s.out) := by
  have hmem : ∀ x ∈ rest, x ∈ s.reqs := fun x hx => hq ▸ List.mem_cons_of_mem _ hx
  constructor
  · intro x hx; exact h.issued_reqs x (hmem x hx)
  · exact h.issued_lt
  · intro x hx; exact h.reqs_lt x (hmem x hx)
  · have := h.sorted; rw [hq] at this
    simp only [List.map_cons, List.pairwise_cons] at this; exact this.2
  · exact h.out_match
  · intro io hio hdel x hx; exact h.order io hio hdel x (hmem x hx)
  · exact h.counter_lt

theorem pop_out_invM (s : St) (r : Req) (rest : List Req) (o : Outcome) (h : InvM s)
    (hq : s.reqs = r :: rest) (hm : answers r.corr r.kind.quirk o) :
    InvM (s.setRO rest ((r.id, o) :: s.out)) := by
  have hmem : ∀ x ∈ rest, x ∈ s.reqs := fun x hx => hq ▸ List.mem_cons_of_mem _ hx
  have hsorted := h.sorted
  rw [hq] at hsorted
  simp only [List.map_cons, List.pairwise_cons] at hsorted
  constructor
  · intro x hx; exact h.issued_reqs x (hmem x hx)
  · exact h.issued_lt
  · intro x hx; exact h.reqs_lt x (hmem x hx)
  · exact hsorted.2
  · intro io hio
    simp only [setRO_out] at hio
    rcases List.mem_cons.mp hio with rfl | hio
    · exact ⟨r.corr, r.kind.quirk, h.issued_reqs r (hq ▸ List.mem_cons_self), hm⟩
    · exact h.out_match io hio
  · intro io hio hdel x hx
    simp only [setRO_out] at hio
    rcases List.mem_cons.mp hio with rfl | hio
    · exact hsorted.1 x.id (List.mem_map.mpr ⟨x, hx, rfl⟩)
    · exact h.order io hio hdel x (hmem x hx)
  · exact h.counter_lt

theorem handleFrame_invM (s : St) (f : Bytes) (h : InvM s) : InvM (handleFrame s f) := by
  unfold handleFrame
  split
  · exact close_invM s h
  · rename_i r rest hq
    split
    · rename_i hc
      by_cases hd : r.done = true
      · simp only [hd, if_true]; exact pop_invM s r rest h hq
      · have hd' : r.done = false := by simpa using hd
        simp only [hd', Bool.false_eq_true, if_false]
        exact pop_out_invM s r rest _ h hq (by simp [answers, hc])
    · rename_i c hc
      split
      · exact close_invM s h
      · rename_i recv body _
        split
        · exact close_invM _ (resolveWhere_invM _ _ rfl s h)
        · rename_i hcond
          split
          · exact pop_invM s r rest h hq
          · split
            · exact close_invM s h
            · apply pop_out_invM s r rest _ h hq
              simp only [answers]
              refine ⟨c, hc, ?_⟩
              simp only [Bool.and_eq_true, Bool.not_eq_true', bne_iff_ne, ne_eq, beq_iff_eq,
                not_and, Bool.and_eq_false_imp, Bool.not_eq_false, Decidable.not_not] at hcond
              by_cases hq' : r.kind.quirk = true
              · by_cases hc0 : c = 0
                · left; apply hcond; intro hh; exact absurd hc0 hh.2
                · by_cases hr0 : recv = 0
                  · right; exact ⟨hq', hc0, hr0⟩
                  · left; apply hcond; intro _; simpa using hr0
              · left; apply hcond; intro hh; exact absurd hh.1 hq'

theorem withBuf_invM (s : St) (x : Bytes) (h : InvM s) : InvM (s.withBuf x) :=
  ⟨h.issued_reqs, h.issued_lt, h.reqs_lt, h.sorted, h.out_match, h.order, h.counter_lt⟩

theorem pump_invM (fuel : Nat) : ∀ s : St, InvM s → InvM (pump fuel s) := by
  induction fuel with
  | zero => intro s h; exact h
  | succ n ih =>
    intro s h
    rw [pump]
    split
    · exact h
    · split
      · exact h
      · exact close_invM s h
      · exact ih _ (handleFrame_invM _ _ (withBuf_invM s _ h))

theorem step_invM (s : St) (op : Op) (h : InvM s) : InvM (step s op) := by
  cases op with
  | send c k => exact send_invM s c k h
  | sendNR =>
    simp only [step, sendNR]
    split
    · exact h
    · exact ⟨h.issued_reqs, h.issued_lt, h.reqs_lt, h.sorted, h.out_match, h.order, nextCorr_lt _⟩
  | feed ch =>
    simp only [step, feed]
    split
    · exact h
    · exact pump_invM _ _ (withBuf_invM s _ h)
  | advance dt =>
    simp only [step, advance]
    exact resolveWhere_invM _ _ rfl _
      ⟨h.issued_reqs, h.issued_lt, h.reqs_lt, h.sorted, h.out_match, h.order, h.counter_lt⟩
  | cancel id => exact resolveWhere_invM _ _ rfl s h
  | eof => exact close_invM s h
  | close => exact close_invM s h

theorem init_invM (t c : Nat) (hc : c < 2 ^ 31) : InvM { timeoutMs := t, counter := c } := by
  constructor
  · intro r hr; cases hr
  · intro e he; cases he
  · intro r hr; cases hr
  · simp
  · intro io hio; cases hio
  · intro io hio; cases hio
  · exact hc

theorem run_invM (s : St) (ops : List Op) (h : InvM s) : InvM (run s ops) := by
  induction ops generalizing s with
  | nil => exact h
  | cons op ops ih => exact ih _ (step_invM s op h)

end AkVerif.Conn

namespace AkVerif.Conn
open AkVerif.Wire

/-! ### ghost invariant: the correlated requests in flight carry increasing ordinals -/

def corrSeqNos (reqs : List Req) : List Nat := (reqs.filter (fun r => r.corr.isSome)).map (·.seqNo)

/-- `sent` counts the correlation ids consumed so far (requests with and without a waiter); a queued
    request carries the id `corrSeq base seqNo`; the ordinals of the queued requests increase along
    the queue and none exceeds `sent` -/
structure InvG (s : St) : Prop where
  base_lt : s.base < 2 ^ 31
  ctr : s.counter = corrSeq s.base s.sent
  corr_seq : ∀ r ∈ s.reqs, ∀ c, r.corr = some c → c = corrSeq s.base r.seqNo
  nos_le : ∀ n ∈ corrSeqNos s.reqs, n ≤ s.sent
  nos_sorted : (corrSeqNos s.reqs).Pairwise (· < ·)

theorem corrSeqNos_mark (p : Req → Bool) (l : List Req) : corrSeqNos (l.map (mark p)) = corrSeqNos l := by
  unfold corrSeqNos
  induction l with
  | nil => rfl
  | cons r rest ih =>
    have hc : (mark p r).corr = r.corr := by unfold mark; split <;> rfl
    have hs : (mark p r).seqNo = r.seqNo := by unfold mark; split <;> rfl
    simp only [List.map_cons, List.filter_cons, hc]
    split
    · simp only [List.map_cons, hs]; rw [ih]
    · exact ih

theorem resolveWhere_invG (p : Req → Bool) (o : Outcome) (s : St) (h : InvG s) : InvG (resolveWhere p o s) := by
  have hr : (resolveWhere p o s).reqs = s.reqs.map (mark p) := rfl
  refine ⟨h.base_lt, h.ctr, ?_, ?_, ?_⟩
  · intro r hrm c hc
    rw [hr] at hrm
    obtain ⟨r0, h0, rfl⟩ := List.mem_map.mp hrm
    have hcc : (mark p r0).corr = r0.corr := by unfold mark; split <;> rfl
    have hss : (mark p r0).seqNo = r0.seqNo := by unfold mark; split <;> rfl
    rw [hcc] at hc; rw [hss]; exact h.corr_seq r0 h0 c hc
  · rw [hr, corrSeqNos_mark]; exact h.nos_le
  · rw [hr, corrSeqNos_mark]; exact h.nos_sorted

theorem corrSeqNos_cons (r : Req) (rest : List Req) :
    corrSeqNos (r :: rest) = if r.corr.isSome then r.seqNo :: corrSeqNos rest else corrSeqNos rest := by
  unfold corrSeqNos
  simp only [List.filter_cons]
  split <;> simp

theorem corrSeqNos_nil : corrSeqNos [] = [] := rfl

theorem close_invG (s : St) (h : InvG s) : InvG (close s) := by
  unfold close
  by_cases ho : s.isOpen = true
  · simp only [ho, Bool.not_true, Bool.false_eq_true, if_false]
    have hr := resolveWhere_invG (fun _ => true) Outcome.connErr s h
    refine ⟨hr.base_lt, hr.ctr, ?_, ?_, ?_⟩
    · intro r hrm; cases hrm
    · intro n hn; rw [show ({ resolveWhere (fun _ => true) Outcome.connErr s with isOpen := false, buf := [], reqs := [] } : St).reqs = [] from rfl, corrSeqNos_nil] at hn; cases hn
    · show (corrSeqNos []).Pairwise (· < ·); rw [corrSeqNos_nil]; exact List.Pairwise.nil
  · have : s.isOpen = false := by simpa using ho
    simp only [this, Bool.not_false, if_true]; exact h

theorem corrSeqNos_append (a b : List Req) : corrSeqNos (a ++ b) = corrSeqNos a ++ corrSeqNos b := by
  unfold corrSeqNos; simp

theorem send_invG (s : St) (c : Bool) (k : Kind) (h : InvG s) : InvG (send s c k) := by
  unfold send
  by_cases ho : s.isOpen = true
  · simp only [ho, Bool.not_true, Bool.false_eq_true, if_false]
    cases c with
    | false =>
      simp only [Bool.false_eq_true, if_false]
      have hnew : ∀ (x : Req), x.corr = none → corrSeqNos (s.reqs ++ [x]) = corrSeqNos s.reqs := by
        intro x hx
        rw [corrSeqNos_append, corrSeqNos_cons, hx]; simp [corrSeqNos_nil]
      refine ⟨h.base_lt, h.ctr, ?_, ?_, ?_⟩
      · intro r hr c hc
        simp only [List.mem_append, List.mem_singleton] at hr
        rcases hr with hr | rfl
        · exact h.corr_seq r hr c hc
        · simp at hc
      · show ∀ n ∈ corrSeqNos (s.reqs ++ _), n ≤ s.sent
        rw [hnew _ rfl]; exact h.nos_le
      · show (corrSeqNos (s.reqs ++ _)).Pairwise (· < ·)
        rw [hnew _ rfl]; exact h.nos_sorted
    | true =>
      simp only [if_true]
      have hnew : ∀ (x : Req), x.corr.isSome = true → x.seqNo = s.sent + 1 →
          corrSeqNos (s.reqs ++ [x]) = corrSeqNos s.reqs ++ [s.sent + 1] := by
        intro x hx hs
        rw [corrSeqNos_append, corrSeqNos_cons, hx, hs]; simp [corrSeqNos_nil]
      refine ⟨h.base_lt, ?_, ?_, ?_, ?_⟩
      · show nextCorr s.counter = corrSeq s.base (s.sent + 1)
        rw [corrSeq, h.ctr]
      · intro r hr c hc
        simp only [List.mem_append, List.mem_singleton] at hr
        rcases hr with hr | rfl
        · exact h.corr_seq r hr c hc
        · simp only [Option.some.injEq] at hc
          rw [← hc, corrSeq, h.ctr]
      · show ∀ n ∈ corrSeqNos (s.reqs ++ _), n ≤ s.sent + 1
        rw [hnew _ rfl rfl]
        intro n hn
        rcases List.mem_append.mp hn with hn | hn
        · have := h.nos_le n hn; omega
        · simp at hn; omega
      · show (corrSeqNos (s.reqs ++ _)).Pairwise (· < ·)
        rw [hnew _ rfl rfl, List.pairwise_append]
        refine ⟨h.nos_sorted, List.pairwise_singleton _ _, ?_⟩
        intro a ha b hb
        simp at hb
        have := h.nos_le a ha; omega
  · have hc : s.isOpen = false := by simpa using ho
    simp only [hc, Bool.not_false, if_true]
    exact ⟨h.base_lt, h.ctr, h.corr_seq, h.nos_le, h.nos_sorted⟩

theorem sendNR_invG (s : St) (h : InvG s) : InvG (sendNR s) := by
  unfold sendNR
  split
  · exact h
  · refine ⟨h.base_lt, ?_, h.corr_seq, ?_, h.nos_sorted⟩
    · show nextCorr s.counter = corrSeq s.base (s.sent + 1)
      rw [corrSeq, h.ctr]
    · intro n hn; have := h.nos_le n hn
      show n ≤ s.sent + 1
      omega

/-- dropping the head request keeps the ordinals increasing and bounded -/
theorem pop_invG (s : St) (r : Req) (rest : List Req) (out : List (Nat × Outcome)) (h : InvG s)
    (hq : s.reqs = r :: rest) : InvG (s.setRO rest out) := by
  have hmem : ∀ x ∈ rest, x ∈ s.reqs := fun x hx => hq ▸ List.mem_cons_of_mem _ hx
  have hsub : ∀ n ∈ corrSeqNos rest, n ∈ corrSeqNos s.reqs := by
    intro n hn
    rw [hq, corrSeqNos_cons]
    split
    · exact List.mem_cons_of_mem _ hn
    · exact hn
  refine ⟨h.base_lt, h.ctr, fun x hx => h.corr_seq x (hmem x hx), fun n hn => h.nos_le n (hsub n hn), ?_⟩
  show (corrSeqNos rest).Pairwise (· < ·)
  have hs := h.nos_sorted
  rw [hq, corrSeqNos_cons] at hs
  split at hs
  · exact (List.pairwise_cons.mp hs).2
  · exact hs

theorem handleFrame_invG (s : St) (f : Bytes) (h : InvG s) : InvG (handleFrame s f) := by
  unfold handleFrame
  split
  · exact close_invG s h
  · rename_i r rest hq
    split
    · exact pop_invG s r rest _ h hq
    · split
      · exact close_invG s h
      · split
        · exact close_invG _ (resolveWhere_invG _ _ s h)
        · split
          · exact pop_invG s r rest _ h hq
          · split
            · exact close_invG s h
            · exact pop_invG s r rest _ h hq

theorem withBuf_invG (s : St) (x : Bytes) (h : InvG s) : InvG (s.withBuf x) :=
  ⟨h.base_lt, h.ctr, h.corr_seq, h.nos_le, h.nos_sorted⟩

theorem pump_invG (fuel : Nat) : ∀ s : St, InvG s → InvG (pump fuel s) := by
  induction fuel with
  | zero => intro s h; exact h
  | succ n ih =>
    intro s h
    rw [pump]
    split
    · exact h
    · split
      · exact h
      · exact close_invG s h
      · exact ih _ (handleFrame_invG _ _ (withBuf_invG s _ h))

theorem step_invG (s : St) (op : Op) (h : InvG s) : InvG (step s op) := by
  cases op with
  | send c k => exact send_invG s c k h
  | sendNR => exact sendNR_invG s h
  | feed ch =>
    simp only [step, feed]
    split
    · exact h
    · exact pump_invG _ _ (withBuf_invG s _ h)
  | advance dt =>
    simp only [step, advance]
    exact resolveWhere_invG _ _ _ ⟨h.base_lt, h.ctr, h.corr_seq, h.nos_le, h.nos_sorted⟩
  | cancel id => exact resolveWhere_invG _ _ s h
  | eof => exact close_invG s h
  | close => exact close_invG s h

theorem run_invG (s : St) (ops : List Op) (h : InvG s) : InvG (run s ops) := by
  induction ops generalizing s with
  | nil => exact h
  | cons op ops ih => exact ih _ (step_invG s op h)

end AkVerif.Conn
