import AkVerif.Lemmas.StickyOwn
/-! a balanced, complete assignment is a fixpoint of `balance` (core of stickiness clause (a)) -/
namespace AkVerif.StickyAlg
open AkVerif.Assign

theorem assignFold_skip (l : List TP) : ∀ s : St, (∀ p ∈ l, (consumersOf s p).isEmpty = true) →
    l.foldl (fun s p => if (consumersOf s p).isEmpty then s else assignPartition s p) s = s := by
  induction l with
  | nil => intro s _; rfl
  | cons p rest ih =>
    intro s h
    simp only [List.foldl_cons, h p List.mem_cons_self, if_true]
    exact ih s (fun q hq => h q (List.mem_cons_of_mem _ hq))

theorem reassignPass_balanced (s : St) (ps : List TP) (hb : isBalanced s = true) :
    reassignPass s ps false = (s, false) := by
  cases ps with
  | nil => rfl
  | cons p rest =>
    unfold reassignPass
    split
    · rfl
    · simp [hb]

theorem performReassignments_balanced (fuel : Nat) (s : St) (ps : List TP) (hb : isBalanced s = true) :
    performReassignments (fuel + 1) s ps false = some (s, false) := by
  unfold performReassignments
  rw [reassignPass_balanced s ps hb]
  simp only
  split
  · rfl
  · simp

theorem reassignBoth_balanced (fuel : Nat) (s : St) (hb : isBalanced s = true) :
    reassignBoth (fuel + 1) s = some (s, false) := by
  unfold reassignBoth
  by_cases hr : s.revocation = true
  · simp only [hr, Bool.not_true, Bool.false_eq_true, if_false]
    split
    · rfl
    · exact performReassignments_balanced fuel s _ hb
  · have : s.revocation = false := by simpa using hr
    simp only [this, Bool.not_false, if_true]
    rw [performReassignments_balanced fuel s _ hb]
    simp only
    split
    · rfl
    · exact performReassignments_balanced fuel s _ hb

/-- setting consumers aside and adding them back leaves every consumer's list as it was -/
theorem curOf_alDel_other (cur : List (Member × List TP)) (c c' : Member) (h : c ≠ c') :
    alGet (alDel cur c) c' = alGet cur c' :=
  alGet_alDel_other cur c c' (by simpa using h)

theorem setAside_addBack_cur (cs : List Member) : ∀ (s : St) (fx : List (Member × List TP)) (x : Member),
    (∀ cp ∈ fx, alGet s.cur cp.1 = none) → (keysOf fx).Nodup → cs.Nodup →
    (∀ c ∈ cs, c ∉ keysOf fx) →
    let r := cs.foldl (fun (acc : St × List (Member × List TP)) c =>
        if !canConsumerParticipate acc.1 c then
          ({ acc.1 with subs := removeFirst acc.1.subs c, cur := alDel acc.1.cur c }, acc.2 ++ [(c, curOf acc.1 c)])
        else acc) (s, fx)
    (alGet r.1.cur x).getD ((alGet r.2 x).getD []) = (alGet s.cur x).getD ((alGet fx x).getD []) ∧
    (∀ cp ∈ r.2, alGet r.1.cur cp.1 = none) ∧ (keysOf r.2).Nodup := by
  induction cs with
  | nil => intro s fx x h1 h2 _ _; exact ⟨rfl, h1, h2⟩
  | cons c rest ih =>
    intro s fx x h1 h2 hnd hnot
    rw [List.nodup_cons] at hnd
    simp only [List.foldl_cons]
    split
    · have hcfx : c ∉ keysOf fx := hnot c List.mem_cons_self
      have := ih { s with subs := removeFirst s.subs c, cur := alDel s.cur c } (fx ++ [(c, curOf s c)]) x
        (by
          intro cp hcp
          show alGet (alDel s.cur c) cp.1 = none
          rcases List.mem_append.mp hcp with hcp | hcp
          · by_cases he : c = cp.1
            · rw [← he]; exact alGet_alDel_same _ _
            · rw [curOf_alDel_other _ _ _ he]; exact h1 cp hcp
          · simp at hcp; rw [hcp]; exact alGet_alDel_same _ _)
        (by
          rw [keysOf_append, List.nodup_append]
          refine ⟨h2, by simp [keysOf], ?_⟩
          intro a ha b hb; simp [keysOf] at hb
          intro he; rw [hb] at he; rw [he] at ha; exact hcfx ha)
        hnd.2
        (by
          intro c' hc' hm
          rw [keysOf_append] at hm
          rcases List.mem_append.mp hm with hm | hm
          · exact hnot c' (List.mem_cons_of_mem _ hc') hm
          · simp [keysOf] at hm; rw [hm] at hc'; exact hnd.1 hc')
      simp only at this
      refine ⟨?_, this.2.1, this.2.2⟩
      rw [this.1]
      show (alGet (alDel s.cur c) x).getD ((alGet (fx ++ [(c, curOf s c)]) x).getD []) = _
      by_cases he : c = x
      · subst he
        rw [alGet_alDel_same]
        simp only [Option.getD_none]
        have hfxnone : alGet fx c = none := by
          cases hg : alGet fx c with
          | none => rfl
          | some v => exact absurd (List.mem_map.mpr ⟨(c, v), alGet_mem _ _ _ hg, rfl⟩) hcfx
        have : alGet (fx ++ [(c, curOf s c)]) c = some (curOf s c) := by
          have hk : (keysOf (fx ++ [(c, curOf s c)])).Nodup := by
            rw [keysOf_append, List.nodup_append]
            refine ⟨h2, by simp [keysOf], ?_⟩
            intro a ha b hb; simp [keysOf] at hb
            intro he; rw [hb] at he; rw [he] at ha; exact hcfx ha
          exact alGet_of_mem_nodup _ c _ hk (List.mem_append_right _ (by simp))
        rw [this, hfxnone]
        simp only [Option.getD_some, Option.getD_none]
        unfold curOf; rw [alGetD_def]
      · rw [curOf_alDel_other _ _ _ he]
        have : alGet (fx ++ [(c, curOf s c)]) x = alGet fx x := alGet_append_other fx c x _ (by simpa using he)
        rw [this]
    · exact ih s fx x h1 h2 hnd.2 (fun c' hc' => hnot c' (List.mem_cons_of_mem _ hc'))

theorem addBack_cur (fx : List (Member × List TP)) : ∀ (s : St) (x : Member), (keysOf fx).Nodup →
    (∀ cp ∈ fx, alGet s.cur cp.1 = none) →
    alGet (fx.foldl (fun s cp => { s with cur := alSet s.cur cp.1 cp.2, subs := s.subs ++ [cp.1] }) s).cur x
      = match alGet s.cur x with
        | some v => some v
        | none => alGet fx x := by
  induction fx with
  | nil => intro s x _ _; simp only [List.foldl_nil]; cases alGet s.cur x <;> rfl
  | cons cp rest ih =>
    intro s x hk hnone
    obtain ⟨ck, cv⟩ := cp
    simp only [List.foldl_cons]
    have hk' : ck ∉ keysOf rest ∧ (keysOf rest).Nodup := by
      have : keysOf ((ck, cv) :: rest) = ck :: keysOf rest := rfl
      rw [this, List.nodup_cons] at hk; exact hk
    rw [ih _ x hk'.2 (by
      intro cp' hcp'
      show alGet (alSet s.cur ck cv) cp'.1 = none
      have hne : (ck == cp'.1) = false := by
        apply Bool.eq_false_iff.mpr; intro he
        have : ck = cp'.1 := by simpa using he
        exact hk'.1 (this ▸ List.mem_map.mpr ⟨cp', hcp', rfl⟩)
      rw [alGet_alSet_other _ _ _ _ hne]
      exact hnone cp' (List.mem_cons_of_mem _ hcp'))]
    show (match alGet (alSet s.cur ck cv) x with | some v => some v | none => alGet rest x) = _
    by_cases he : (ck == x) = true
    · have : ck = x := by simpa using he
      subst this
      have hn := hnone (ck, cv) List.mem_cons_self
      simp only at hn
      rw [alGet_alSet_same, hn]
      simp [alGet_cons]
    · have hne : (ck == x) = false := by simpa using he
      rw [alGet_alSet_other _ _ _ _ hne]
      cases alGet s.cur x with
      | some v => rfl
      | none => simp only [alGet_cons, hne, Bool.false_eq_true, if_false]

end AkVerif.StickyAlg

namespace AkVerif.StickyAlg
open AkVerif.Assign

theorem setAsideFold_failed (cs : List Member) : ∀ (s : St) (fx : List (Member × List TP)),
    (cs.foldl (fun (acc : St × List (Member × List TP)) c =>
        if !canConsumerParticipate acc.1 c then
          ({ acc.1 with subs := removeFirst acc.1.subs c, cur := alDel acc.1.cur c }, acc.2 ++ [(c, curOf acc.1 c)])
        else acc) (s, fx)).1.failed = s.failed := by
  induction cs with
  | nil => intro s fx; rfl
  | cons c rest ih =>
    intro s fx
    simp only [List.foldl_cons]
    split
    · rw [ih]
    · exact ih s fx

theorem sortBy_ne_nil {α} (lt : α → α → Bool) (l : List α) (h : l ≠ []) : sortBy lt l ≠ [] := by
  intro hs
  have := (sortBy_perm lt l).length_eq
  rw [hs] at this
  cases l with
  | nil => exact h rfl
  | cons a r => simp at this

/-- **a balanced, complete assignment is a fixpoint of `balance`**: if nothing assignable is
    unassigned and, after the consumers that cannot take part are set aside, the code's own
    `_is_balanced` test accepts the current assignment, then `balance` returns with every
    consumer holding exactly the list it held before (same partitions, same order) -/
theorem balance_fixpoint (fuel : Nat) (s : St)
    (hc2p : (keysOf s.c2p).Nodup) (hne : s.cur ≠ [])
    (hun : ∀ p ∈ s.unassigned, (consumersOf s p).isEmpty = true)
    (hf : s.failed = none)
    (hb : isBalanced (setAsideFixed (assignUnassigned { s with subs := s.cur.map (·.1) })).1 = true) :
    ∃ s', balance (fuel + 1) s = some s' ∧ s'.failed = none ∧ ∀ x, curOf s' x = curOf s x := by
  unfold balance
  simp only
  have hsubs : ({ s with subs := s.cur.map (·.1) } : St).subs ≠ [] := by
    show s.cur.map (·.1) ≠ []
    intro h; exact hne (List.map_eq_nil_iff.mp h)
  cases hm : mostSub { s with subs := s.cur.map (·.1) } with
  | none =>
    exfalso
    unfold mostSub sortedSubs at hm
    have := sortBy_ne_nil (subLt { s with subs := s.cur.map (·.1) }) _ hsubs
    rw [List.getLast?_eq_none_iff] at hm
    exact this hm
  | some most =>
    simp only
    -- nothing gets assigned
    have hsa : assignUnassigned { s with subs := s.cur.map (·.1) }
        = { ({ s with subs := s.cur.map (·.1) } : St) with
            sortedParts := s.sortedParts.filter (fun p => !((s.p2c.map (·.1)).filter
              (fun p => !canPartitionParticipate { s with subs := s.cur.map (·.1) } p)).contains p),
            unassigned := s.unassigned.filter (fun p => !((s.p2c.map (·.1)).filter
              (fun p => !canPartitionParticipate { s with subs := s.cur.map (·.1) } p)).contains p) } := by
      unfold assignUnassigned
      have := assignFold_skip s.unassigned { s with subs := s.cur.map (·.1) } (by
        intro p hp; exact hun p hp)
      simp only at this ⊢
      rw [this]
    rw [hsa] at hb ⊢
    generalize hsaS : ({ ({ s with subs := s.cur.map (·.1) } : St) with
            sortedParts := s.sortedParts.filter (fun p => !((s.p2c.map (·.1)).filter
              (fun p => !canPartitionParticipate { s with subs := s.cur.map (·.1) } p)).contains p),
            unassigned := s.unassigned.filter (fun p => !((s.p2c.map (·.1)).filter
              (fun p => !canPartitionParticipate { s with subs := s.cur.map (·.1) } p)).contains p) } : St) = sa at hb ⊢
    have hsacur : sa.cur = s.cur := by rw [← hsaS]
    have hsac2p : sa.c2p = s.c2p := by rw [← hsaS]
    have hsaf : sa.failed = s.failed := by rw [← hsaS]
    -- set aside
    have hside := fun x => setAside_addBack_cur (sa.c2p.map (·.1)) sa [] x
      (by intro cp hcp; cases hcp) (by simp [keysOf]) (by rw [hsac2p]; exact hc2p)
      (by intro c _ hm; simp [keysOf] at hm)
    have hfl := setAsideFold_failed (sa.c2p.map (·.1)) sa []
    unfold setAsideFixed at hb ⊢
    generalize hfold : ((sa.c2p.map (·.1)).foldl (fun (acc : St × List (Member × List TP)) c =>
        if !canConsumerParticipate acc.1 c then
          ({ acc.1 with subs := removeFirst acc.1.subs c, cur := alDel acc.1.cur c }, acc.2 ++ [(c, curOf acc.1 c)])
        else acc) (sa, [])) = fr at hb hside hfl ⊢
    obtain ⟨s2, fx⟩ := fr
    simp only at hb hside hfl ⊢
    rw [reassignBoth_balanced fuel s2 hb]
    simp only
    refine ⟨_, rfl, ?_, ?_⟩
    · unfold finishBalance
      have hs2f : s2.failed = none := by rw [hfl, hsaf, hf]
      simp only [hs2f, Option.isSome_none, Bool.false_eq_true, if_false, Bool.and_false, Bool.false_and]
      have : ∀ (fx : List (Member × List TP)) (t : St),
          (fx.foldl (fun s cp => { s with cur := alSet s.cur cp.1 cp.2, subs := s.subs ++ [cp.1] }) t).failed = t.failed := by
        intro fx
        induction fx with
        | nil => intro t; rfl
        | cons a r ih => intro t; simp only [List.foldl_cons]; rw [ih]
      rw [this]; exact hs2f
    · intro x
      unfold finishBalance
      have hs2f : s2.failed = none := by rw [hfl, hsaf, hf]
      simp only [hs2f, Option.isSome_none, Bool.false_eq_true, if_false, Bool.and_false, Bool.false_and]
      have hx := hside x
      have hab := addBack_cur fx s2 x hx.2.2 hx.2.1
      unfold curOf
      rw [alGetD_def, alGetD_def, hab, ← hsacur]
      have h1 := hx.1
      simp only [alGet_nil, Option.getD_none] at h1
      rw [← h1]
      cases alGet s2.cur x with
      | some v => rfl
      | none => rfl

end AkVerif.StickyAlg
