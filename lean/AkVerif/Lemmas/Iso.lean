import AkVerif.Model.Iso
/-!
Helper lemmas for C08 (isolation filter).  Structure of the argument:

* A  list facts: the sorted index (`sortIdx`), `takeWhile`/`dropWhile` on it, the per-record loop;
* B  a closed form of the client's aborted-producer set after any prefix of a response
     (`CInv`, `stepB_rc`): producer `p` is in the set iff some index entry `(p, F)` has been
     consumed (`F ≤` a processed base offset) and no ABORT marker of `p` at or above `F` was seen;
* C  log semantics: on a well-formed log the closed form says "aborted" exactly for the batches
     whose producer's next marker is ABORT, provided the index obeys the broker contract `idxOk`;
* D  the run over a whole response equals the ground truth; position.
-/
namespace AkVerif.Iso

/-! ## A. list facts -/

theorem mem_insIdx (e a : Pid × Nat) (l : List (Pid × Nat)) : a ∈ insIdx e l ↔ a = e ∨ a ∈ l := by
  induction l with
  | nil => simp [insIdx]
  | cons b r ih =>
    unfold insIdx
    split
    · simp
    · simp only [List.mem_cons, ih]
      constructor
      · rintro (h | h | h)
        · exact Or.inr (Or.inl h)
        · exact Or.inl h
        · exact Or.inr (Or.inr h)
      · rintro (h | h | h)
        · exact Or.inr (Or.inl h)
        · exact Or.inl h
        · exact Or.inr (Or.inr h)

theorem mem_sortIdx (a : Pid × Nat) (l : List (Pid × Nat)) : a ∈ sortIdx l ↔ a ∈ l := by
  induction l with
  | nil => simp [sortIdx]
  | cons b r ih =>
    have : sortIdx (b :: r) = insIdx b (sortIdx r) := rfl
    rw [this, mem_insIdx, ih]; simp

abbrev IdxSorted (l : List (Pid × Nat)) : Prop := l.Pairwise (fun a b => a.2 ≤ b.2)

theorem insIdx_sorted (e : Pid × Nat) (l : List (Pid × Nat)) (h : IdxSorted l) :
    IdxSorted (insIdx e l) := by
  induction l with
  | nil => simp [insIdx]
  | cons b r ih =>
    unfold insIdx
    obtain ⟨hb, hr⟩ := List.pairwise_cons.mp h
    split
    · rename_i hlt
      refine List.pairwise_cons.mpr ⟨?_, h⟩
      intro a ha
      rcases List.mem_cons.mp ha with rfl | ha
      · omega
      · have := hb a ha; omega
    · rename_i hge
      refine List.pairwise_cons.mpr ⟨?_, ih hr⟩
      intro a ha
      rcases (mem_insIdx e a r).mp ha with rfl | ha
      · omega
      · exact hb a ha

theorem sortIdx_sorted (l : List (Pid × Nat)) : IdxSorted (sortIdx l) := by
  induction l with
  | nil => simp [sortIdx]
  | cons b r ih => exact insIdx_sorted b _ ih

theorem takeWhile_sorted (l : List (Pid × Nat)) (x : Nat) (h : IdxSorted l) :
    l.takeWhile (fun e => decide (e.2 ≤ x)) = l.filter (fun e => decide (e.2 ≤ x)) ∧
    l.dropWhile (fun e => decide (e.2 ≤ x)) = l.filter (fun e => !decide (e.2 ≤ x)) := by
  induction l with
  | nil => simp
  | cons a r ih =>
    obtain ⟨ha, hr⟩ := List.pairwise_cons.mp h
    by_cases hax : a.2 ≤ x
    · simp [List.takeWhile, List.dropWhile, List.filter, hax, ih hr]
    · have hall : ∀ c ∈ r, ¬ c.2 ≤ x := fun c hc => by have := ha c hc; omega
      have h1 : r.filter (fun e => decide (e.2 ≤ x)) = [] := by
        simp only [List.filter_eq_nil_iff]; intro c hc; simpa using hall c hc
      have h2 : r.filter (fun e => !decide (e.2 ≤ x)) = r := by
        simp only [List.filter_eq_self]; intro c hc; simpa using hall c hc
      simp [List.takeWhile, List.dropWhile, List.filter, hax, h1, h2]

/-- the record loop on increasing offsets is a filter -/
theorem deliver_eq_filter (recs : List Nat) (hinc : recs.Pairwise (· < ·)) (nfo : Nat) :
    (deliver nfo recs).2 = recs.filter (fun o => decide (nfo ≤ o)) := by
  induction recs generalizing nfo with
  | nil => simp [deliver]
  | cons o r ih =>
    obtain ⟨ho, hr⟩ := List.pairwise_cons.mp hinc
    unfold deliver
    by_cases h : o < nfo
    · have : ¬ nfo ≤ o := by omega
      simp [h, this, ih hr]
    · have h' : nfo ≤ o := by omega
      simp only [h, if_false, List.filter_cons, h', decide_true, if_true, ih hr]
      congr 1
      apply List.filter_congr
      intro c hc
      have := ho c hc
      simp only [decide_eq_decide]
      omega

/-! ## B. closed form of the client's aborted-producer set -/

/-- `_aborted_producers` right after `_consume_aborted_up_to` and the ABORT-marker discard -/
def rcAp (s : CS) (b : Batch) : List Pid :=
  if b.isCtrl && b.abortRec then
    ((s.idx.takeWhile (fun e => decide (e.2 ≤ b.base))).map (·.1) ++ s.ap).filter (· != b.pid)
  else (s.idx.takeWhile (fun e => decide (e.2 ≤ b.base))).map (·.1) ++ s.ap

theorem stepB_rc (s : CS) (b : Batch) : stepB .rc s b =
    (⟨s.idx.dropWhile (fun e => decide (e.2 ≤ b.base)), rcAp s b, b.last + 1⟩,
     if (b.txn && (rcAp s b).contains b.pid) || b.isCtrl then [] else (deliver s.nfo b.recs).2) := by
  unfold stepB
  simp only [beq_self_eq_true, Bool.true_and]
  have hr : (if (b.isCtrl && b.abortRec) = true then
      List.filter (fun x => x != b.pid)
        (List.map (fun x => x.fst) (List.takeWhile (fun e => decide (e.snd ≤ b.base)) s.idx) ++ s.ap)
      else List.map (fun x => x.fst) (List.takeWhile (fun e => decide (e.snd ≤ b.base)) s.idx) ++ s.ap)
      = rcAp s b := rfl
  rw [hr]
  by_cases h2 : b.txn = true ∧ b.pid ∈ rcAp s b
  · simp [h2]
  · by_cases h3 : b.isCtrl = true
    · simp [h2, h3]
    · simp [h2, h3]

theorem stepB_ru (s : CS) (b : Batch) : stepB .ru s b =
    (⟨s.idx, s.ap, b.last + 1⟩, if b.isCtrl then [] else (deliver s.nfo b.recs).2) := by
  unfold stepB
  by_cases h3 : b.isCtrl = true <;> simp [h3]

/-- the closed form: an index entry of `b`'s producer that begins at or below `b` and is not
    followed (among the batches already processed) by an ABORT marker of that producer -/
def abortedAt (I0 : List (Pid × Nat)) (done : List Batch) (b : Batch) : Prop :=
  ∃ F, (b.pid, F) ∈ I0 ∧ F ≤ b.base ∧ ∀ m ∈ done, m.pid = b.pid → m.abortRec = true → m.base < F

structure CInv (I0 : List (Pid × Nat)) (done : List Batch) (s : CS) : Prop where
  idx : s.idx = I0.filter (fun e => done.all (fun m => decide (m.base < e.2)))
  ap : ∀ p, p ∈ s.ap ↔ ∃ F, (p, F) ∈ I0 ∧ (∃ m ∈ done, F ≤ m.base) ∧
        ∀ m ∈ done, m.pid = p → m.abortRec = true → m.base < F

theorem CInv_init (I0 : List (Pid × Nat)) (f : Nat) : CInv I0 [] ⟨I0, [], f⟩ := by
  refine ⟨?_, ?_⟩
  · show I0 = I0.filter _
    exact (List.filter_eq_self.mpr (by simp)).symm
  · intro p; simp

theorem mem_ap1 (I0 : List (Pid × Nat)) (done : List Batch) (s : CS) (b : Batch)
    (hI : IdxSorted I0) (hinv : CInv I0 done s) (p : Pid) :
    p ∈ (s.idx.takeWhile (fun e => decide (e.2 ≤ b.base))).map (·.1) ++ s.ap ↔
      ∃ F, (p, F) ∈ I0 ∧ (∃ m ∈ done ++ [b], F ≤ m.base) ∧
        ∀ m ∈ done, m.pid = p → m.abortRec = true → m.base < F := by
  have hs : IdxSorted s.idx := by rw [hinv.idx]; exact List.Pairwise.filter _ hI
  rw [(takeWhile_sorted s.idx b.base hs).1, hinv.idx]
  simp only [List.mem_append, List.mem_map, List.mem_filter]
  constructor
  · rintro (⟨⟨q, F⟩, ⟨⟨hmem, hall⟩, hle⟩, rfl⟩ | hp)
    · refine ⟨F, hmem, ⟨b, by simp, by simpa using hle⟩, ?_⟩
      intro m hm _ _
      have := List.all_eq_true.mp hall m hm
      simpa using this
    · obtain ⟨F, h1, ⟨m, hm, hle⟩, h3⟩ := (hinv.ap p).mp hp
      exact ⟨F, h1, ⟨m, Or.inl hm, hle⟩, h3⟩
  · rintro ⟨F, h1, ⟨m, hm, hle⟩, h3⟩
    by_cases hc : ∃ m ∈ done, F ≤ m.base
    · right; exact (hinv.ap p).mpr ⟨F, h1, hc, h3⟩
    · left
      refine ⟨(p, F), ⟨⟨h1, ?_⟩, ?_⟩, rfl⟩
      · rw [List.all_eq_true]
        intro m' hm'
        have : ¬ F ≤ m'.base := fun h => hc ⟨m', hm', h⟩
        simp; omega
      · rcases hm with hm | hm
        · exact absurd ⟨m, hm, hle⟩ hc
        · have : m = b := by simpa using hm
          subst this; simpa using hle

theorem abortRec_isCtrl (b : Batch) (h : b.abortRec = true) : b.isCtrl = true := by
  unfold Batch.abortRec at h
  unfold Batch.isCtrl
  cases hk : b.kind <;> simp_all

theorem CInv_step (I0 : List (Pid × Nat)) (done : List Batch) (s : CS) (b : Batch)
    (hI : IdxSorted I0) (hinv : CInv I0 done s) (hlt : ∀ m ∈ done, m.base < b.base) :
    CInv I0 (done ++ [b]) (stepB .rc s b).1 := by
  rw [stepB_rc]
  refine ⟨?_, ?_⟩
  · -- the unconsumed part of the index
    have hs : IdxSorted s.idx := by rw [hinv.idx]; exact List.Pairwise.filter _ hI
    show s.idx.dropWhile _ = _
    rw [(takeWhile_sorted s.idx b.base hs).2, hinv.idx, List.filter_filter]
    apply List.filter_congr
    intro e _
    simp only [List.all_append, List.all_cons, List.all_nil, Bool.and_true]
    rw [Bool.and_comm]
    congr 1
    simp only [Bool.not_eq_eq_eq_not]
    by_cases h : e.2 ≤ b.base <;> simp [h] <;> omega
  · intro p
    show p ∈ rcAp s b ↔ _
    have hm := mem_ap1 I0 done s b hI hinv p
    unfold rcAp
    by_cases hc : (b.isCtrl && b.abortRec) = true
    · have hab : b.abortRec = true := by simp at hc; exact hc.2
      rw [if_pos hc]
      simp only [List.mem_filter, hm]
      constructor
      · rintro ⟨⟨F, h1, h2, h3⟩, hne⟩
        refine ⟨F, h1, h2, ?_⟩
        intro m hm' hp
        rcases List.mem_append.mp hm' with hm' | hm'
        · exact h3 m hm' hp
        · have : m = b := by simpa using hm'
          subst this
          simp [hp] at hne
      · rintro ⟨F, h1, h2, h3⟩
        refine ⟨⟨F, h1, h2, fun m hm' => h3 m (List.mem_append.mpr (Or.inl hm'))⟩, ?_⟩
        simp only [bne_iff_ne, ne_eq]
        intro hp
        have hb := h3 b (by simp) hp.symm hab
        obtain ⟨m, hm', hle⟩ := h2
        rcases List.mem_append.mp hm' with hm' | hm'
        · have := hlt m hm'; omega
        · have : m = b := by simpa using hm'
          subst this; omega
    · have hab : b.abortRec = false := by
        cases h : b.abortRec
        · rfl
        · have := abortRec_isCtrl b h; simp [h, this] at hc
      rw [if_neg hc, hm]
      constructor
      · rintro ⟨F, h1, h2, h3⟩
        refine ⟨F, h1, h2, ?_⟩
        intro m hm' hp har
        rcases List.mem_append.mp hm' with hm' | hm'
        · exact h3 m hm' hp har
        · have : m = b := by simpa using hm'
          subst this; simp [hab] at har
      · rintro ⟨F, h1, h2, h3⟩
        exact ⟨F, h1, h2, fun m hm' => h3 m (List.mem_append.mpr (Or.inl hm'))⟩

/-- for a data batch the skip test is the closed form -/
theorem contains_rcAp (I0 : List (Pid × Nat)) (done : List Batch) (s : CS) (b : Batch)
    (hI : IdxSorted I0) (hinv : CInv I0 done s) (hlt : ∀ m ∈ done, m.base < b.base)
    (hnab : b.abortRec = false) :
    (rcAp s b).contains b.pid = true ↔ abortedAt I0 done b := by
  have h := (CInv_step I0 done s b hI hinv hlt).ap b.pid
  rw [stepB_rc] at h
  rw [List.contains_iff_mem]
  refine h.trans ?_
  unfold abortedAt
  constructor
  · rintro ⟨F, h1, ⟨m, hm, hle⟩, h3⟩
    refine ⟨F, h1, ?_, fun m' hm' => h3 m' (List.mem_append.mpr (Or.inl hm'))⟩
    rcases List.mem_append.mp hm with hm | hm
    · have := hlt m hm; omega
    · have : m = b := by simpa using hm
      subst this; exact hle
  · rintro ⟨F, h1, h2, h3⟩
    refine ⟨F, h1, ⟨b, by simp, h2⟩, ?_⟩
    intro m hm hp har
    rcases List.mem_append.mp hm with hm | hm
    · exact h3 m hm hp har
    · have : m = b := by simpa using hm
      subst this; simp [hnab] at har

/-! ## C. log semantics -/

/-- batches occupy disjoint, increasing offset ranges -/
def Sorted (L : List Batch) : Prop := L.Pairwise (fun a b => a.last < b.base)

structure WFBatch (b : Batch) : Prop where
  le : b.base ≤ b.last
  recs : ∀ o ∈ b.recs, b.base ≤ o ∧ o ≤ b.last
  inc : b.recs.Pairwise (· < ·)

/-- a well-formed partition log -/
structure WF (L : List Batch) : Prop where
  sorted : Sorted L
  batch : ∀ b ∈ L, WFBatch b

theorem incB_iff (l : List Nat) : incB l = true ↔ l.Pairwise (· < ·) := by
  induction l with
  | nil => simp [incB]
  | cons a r ih => simp [incB, ih, List.all_eq_true]

theorem sortedB_iff (L : List Batch) : sortedB L = true ↔ Sorted L := by
  unfold Sorted
  induction L with
  | nil => simp [sortedB]
  | cons a r ih => simp [sortedB, ih, List.all_eq_true]

theorem wfB_iff (L : List Batch) : wfB L = true ↔ WF L := by
  unfold wfB
  rw [Bool.and_eq_true, sortedB_iff, List.all_eq_true]
  constructor
  · rintro ⟨h1, h2⟩
    refine ⟨h1, fun b hb => ?_⟩
    have := h2 b hb
    unfold wfBatchB at this
    simp only [Bool.and_eq_true, decide_eq_true_eq, List.all_eq_true, incB_iff] at this
    exact ⟨this.1.1, this.1.2, this.2⟩
  · rintro ⟨h1, h2⟩
    refine ⟨h1, fun b hb => ?_⟩
    have := h2 b hb
    unfold wfBatchB
    simp only [Bool.and_eq_true, decide_eq_true_eq, List.all_eq_true, incB_iff]
    exact ⟨⟨this.le, this.recs⟩, this.inc⟩

theorem pairwise_cases {α} {R : α → α → Prop} {l : List α} (h : l.Pairwise R) {a b : α}
    (ha : a ∈ l) (hb : b ∈ l) : a = b ∨ R a b ∨ R b a := by
  induction l with
  | nil => cases ha
  | cons c r ih =>
    obtain ⟨hc, hr⟩ := List.pairwise_cons.mp h
    rcases List.mem_cons.mp ha with ha1 | ha1
    · rcases List.mem_cons.mp hb with hb1 | hb1
      · exact Or.inl (ha1.trans hb1.symm)
      · exact Or.inr (Or.inl (ha1 ▸ hc b hb1))
    · rcases List.mem_cons.mp hb with hb1 | hb1
      · exact Or.inr (Or.inr (hb1 ▸ hc a ha1))
      · exact ih hr ha1 hb1

theorem WF.base_lt {L : List Batch} (wf : WF L) {a b : Batch} (ha : a ∈ L) (hb : b ∈ L)
    (h : a.base < b.base) : a.last < b.base := by
  rcases pairwise_cases wf.sorted ha hb with rfl | h' | h'
  · omega
  · exact h'
  · have := (wf.batch a ha).le; have := (wf.batch b hb).le; omega

theorem WF.base_inj {L : List Batch} (wf : WF L) {a b : Batch} (ha : a ∈ L) (hb : b ∈ L)
    (h : a.base = b.base) : a = b := by
  rcases pairwise_cases wf.sorted ha hb with rfl | h' | h'
  · rfl
  · have := (wf.batch a ha).le; omega
  · have := (wf.batch b hb).le; omega

/-- `find?` on a sorted log returns the match with the smallest base offset -/
theorem find?_min {L : List Batch} (wf : WF L) {P : Batch → Bool} {m : Batch}
    (h : L.find? P = some m) : m ∈ L ∧ P m = true ∧ ∀ m' ∈ L, P m' = true → m.base ≤ m'.base := by
  obtain ⟨hP, as, bs, hL, has⟩ := List.find?_eq_some_iff_append.mp h
  have hm : m ∈ L := by rw [hL]; simp
  refine ⟨hm, hP, ?_⟩
  intro m' hm' hP'
  rw [hL] at hm'
  rcases List.mem_append.mp hm' with h1 | h1
  · have := has m' h1; simp [hP'] at this
  · rcases List.mem_cons.mp h1 with rfl | h2
    · omega
    · have hs := wf.sorted
      rw [hL] at hs
      have := (List.pairwise_append.mp hs).2.1
      have := (List.pairwise_cons.mp this).1 m' h2
      have := (wf.batch m hm).le
      omega

theorem find?_exists {L : List Batch} {P : Batch → Bool} {b : Batch} (hb : b ∈ L) (hP : P b = true) :
    ∃ b0, L.find? P = some b0 := by
  have : (L.find? P).isSome = true := List.find?_isSome.mpr ⟨b, hb, hP⟩
  exact Option.isSome_iff_exists.mp this

theorem isMarkerOf_iff (p : Pid) (x : Nat) (m : Batch) :
    isMarkerOf p x m = true ↔ m.pid = p ∧ m.kind ≠ .data ∧ x < m.base := by
  simp [isMarkerOf, and_assoc]

theorem sameRun_iff (L : List Batch) (p : Pid) (x : Nat) (b0 : Batch) :
    sameRun L p x b0 = true ↔ b0.pid = p ∧ b0.isTxnData = true ∧ b0.base < x ∧
      ∀ m ∈ L, m.pid = p → m.kind ≠ .data → b0.base < m.base → ¬ m.base < x := by
  simp only [sameRun, Bool.and_eq_true, beq_iff_eq, decide_eq_true_eq, Bool.not_eq_true',
    List.any_eq_false, isMarkerOf_iff, and_assoc, not_and]

theorem mem_abortedTxns (L : List Batch) (a : ATxn) :
    a ∈ abortedTxns L ↔ ∃ m ∈ L, m.kind = .abort ∧ ∃ b0, L.find? (sameRun L m.pid m.base) = some b0 ∧
      a = { pid := m.pid, first := b0.base, marker := m.base,
            markerLive := m.present && !m.recs.isEmpty,
            dataLive := L.any (fun b => b.present && sameRun L m.pid m.base b) } := by
  unfold abortedTxns
  simp only [List.mem_filterMap]
  constructor
  · rintro ⟨m, hm, h⟩
    by_cases hk : m.kind = .abort
    · simp only [hk, beq_self_eq_true, if_true, Option.map_eq_some_iff] at h
      obtain ⟨b0, hb0, rfl⟩ := h
      exact ⟨m, hm, hk, b0, hb0, rfl⟩
    · simp [hk] at h
  · rintro ⟨m, hm, hk, b0, hb0, rfl⟩
    exact ⟨m, hm, by simp [hk, hb0]⟩

theorem idxOk_sound {L : List Batch} {f e : Nat} {idx : List (Pid × Nat)} (h : idxOk L f e idx = true)
    {t : Pid × Nat} (ht : t ∈ idx) :
    ∃ a ∈ abortedTxns L, a.pid = t.1 ∧ a.first = t.2 ∧ f ≤ a.marker ∧ a.markerLive = true := by
  unfold idxOk at h
  rw [Bool.and_eq_true] at h
  have := List.all_eq_true.mp h.1 t ht
  obtain ⟨a, ha, hh⟩ := List.any_eq_true.mp this
  simp only [Bool.and_eq_true, beq_iff_eq, decide_eq_true_eq] at hh
  exact ⟨a, ha, hh.1.1.1, hh.1.1.2, hh.1.2, hh.2⟩

theorem idxOk_complete {L : List Batch} {f e : Nat} {idx : List (Pid × Nat)}
    (h : idxOk L f e idx = true) {a : ATxn} (ha : a ∈ abortedTxns L) (h1 : f ≤ a.marker)
    (h2 : a.first < e) (h3 : a.dataLive = true) : (a.pid, a.first) ∈ idx := by
  unfold idxOk at h
  rw [Bool.and_eq_true] at h
  have := List.all_eq_true.mp h.2 a ha
  simp [h1, h2, h3] at this
  exact this

theorem mem_resp {L : List Batch} {f e : Nat} {b : Batch} :
    b ∈ resp L f e ↔ b ∈ L ∧ b.present = true ∧ f ≤ b.last ∧ b.base < e := by
  simp [resp, and_assoc]

theorem resp_sorted {L : List Batch} (wf : WF L) (f e : Nat) : Sorted (resp L f e) :=
  List.Pairwise.filter _ wf.sorted

/-- position of `m` inside a response that is split at `b` -/
theorem mem_done_of_lt {L : List Batch} (wf : WF L) {f e : Nat} {done r : List Batch} {b m : Batch}
    (hsplit : done ++ b :: r = resp L f e) (hm : m ∈ resp L f e) (hlt : m.base < b.base) :
    m ∈ done := by
  have hs := resp_sorted wf f e
  rw [← hsplit] at hs hm
  rcases List.mem_append.mp hm with h | h
  · exact h
  · exfalso
    have hb : b ∈ L := (mem_resp.mp (by rw [← hsplit]; simp)).1
    rcases List.mem_cons.mp h with rfl | h
    · omega
    · have := (List.pairwise_cons.mp (List.pairwise_append.mp hs).2.1).1 m h
      have := (wf.batch b hb).le
      omega

theorem done_lt {L : List Batch} (wf : WF L) {f e : Nat} {done r : List Batch} {b : Batch}
    (hsplit : done ++ b :: r = resp L f e) : ∀ m ∈ done, m.last < b.base := by
  have hs := resp_sorted wf f e
  rw [← hsplit] at hs
  intro m hm
  exact (List.pairwise_append.mp hs).2.2 m hm b (by simp)

theorem outcome_abort_iff {L : List Batch} {b : Batch} :
    outcome L b = some .abort ↔ ∃ m, nextMarker L b.pid b.base = some m ∧ m.kind = .abort := by
  simp [outcome, Option.map_eq_some_iff]

/-- the heart of C08: on a well-formed log, with an index that obeys the broker contract, the
    client's closed form says "aborted" exactly for the batches whose transaction was aborted -/
theorem abortedAt_iff {L : List Batch} {f e : Nat} {idx : List (Pid × Nat)} (wf : WF L)
    (hok : idxOk L f e idx = true) {done r : List Batch} {b : Batch}
    (hsplit : done ++ b :: r = resp L f e) (hb : b.isTxnData = true) :
    abortedAt (sortIdx idx) done b ↔ outcome L b = some .abort := by
  have hbr : b ∈ resp L f e := by rw [← hsplit]; simp
  obtain ⟨hbL, hbp, hbf, hbe⟩ := mem_resp.mp hbr
  have hbdata : b.kind = .data := by
    unfold Batch.isTxnData at hb; simp at hb; exact hb.1
  rw [outcome_abort_iff]
  constructor
  · -- an index entry that covers `b` ⇒ `b`'s next marker is ABORT
    rintro ⟨F, hF, hFle, hnone⟩
    rw [mem_sortIdx] at hF
    obtain ⟨a, ha, hap, haf, ham, halive⟩ := idxOk_sound hok hF
    obtain ⟨m, hmL, hmk, b0, hb0, rfl⟩ := (mem_abortedTxns L a).mp ha
    simp only at hap haf ham halive
    obtain ⟨hb0L, hb0run, _⟩ := find?_min wf hb0
    obtain ⟨hb0p, _, hb0lt, hb0none⟩ := (sameRun_iff L m.pid m.base b0).mp hb0run
    simp only [Bool.and_eq_true, Bool.not_eq_true', List.isEmpty_eq_false_iff] at halive
    have hmab : m.abortRec = true := by
      unfold Batch.abortRec
      simp only [hmk, beq_self_eq_true, Bool.true_and, Bool.not_eq_true', List.isEmpty_eq_false_iff]
      exact halive.2
    -- where is the marker relative to b
    have hcase : m.base < b.base ∨ m.base = b.base ∨ b.base < m.base := by omega
    rcases hcase with hlt | heq | hgt
    · exfalso
      have hmr : m ∈ resp L f e :=
        mem_resp.mpr ⟨hmL, halive.1, by have := (wf.batch m hmL).le; omega, by omega⟩
      have hmd := mem_done_of_lt wf hsplit hmr hlt
      have := hnone m hmd hap hmab
      omega
    · exfalso
      have := wf.base_inj hmL hbL heq
      subst this
      rw [hmk] at hbdata; cases hbdata
    · have hmk' : isMarkerOf b.pid b.base m = true :=
        (isMarkerOf_iff _ _ _).mpr ⟨hap, by rw [hmk]; simp, hgt⟩
      obtain ⟨m1, hm1⟩ := find?_exists (P := isMarkerOf b.pid b.base) hmL hmk'
      refine ⟨m1, hm1, ?_⟩
      obtain ⟨hm1L, hm1P, hm1min⟩ := find?_min wf hm1
      obtain ⟨hm1p, hm1k, hm1gt⟩ := (isMarkerOf_iff _ _ _).mp hm1P
      have hle := hm1min m hmL hmk'
      have : ¬ m1.base < m.base := by
        apply hb0none m1 hm1L (by rw [hm1p, hap]) hm1k
        omega
      have heq : m1.base = m.base := by omega
      have := wf.base_inj hm1L hmL heq
      subst this
      exact hmk
  · -- `b`'s next marker is ABORT ⇒ the broker must have listed its transaction
    rintro ⟨m, hm, hmk⟩
    obtain ⟨hmL, hmP, hmmin⟩ := find?_min wf hm
    obtain ⟨hmp, hmk', hmgt⟩ := (isMarkerOf_iff _ _ _).mp hmP
    -- b itself lies in the run that ends at m
    have hbrun : sameRun L m.pid m.base b = true := by
      rw [sameRun_iff]
      refine ⟨hmp.symm, hb, hmgt, ?_⟩
      intro m' hm'L hm'p hm'k hm'gt hlt
      have := hmmin m' hm'L ((isMarkerOf_iff _ _ _).mpr ⟨by rw [hm'p, hmp], hm'k, hm'gt⟩)
      omega
    obtain ⟨b0, hb0⟩ := find?_exists (P := sameRun L m.pid m.base) hbL hbrun
    obtain ⟨hb0L, hb0run, hb0min⟩ := find?_min wf hb0
    have hb0le := hb0min b hbL hbrun
    obtain ⟨hb0p, hb0d, hb0lt, hb0none⟩ := (sameRun_iff L m.pid m.base b0).mp hb0run
    have ha : ({ pid := m.pid, first := b0.base, marker := m.base,
                 markerLive := m.present && !m.recs.isEmpty,
                 dataLive := L.any (fun b => b.present && sameRun L m.pid m.base b) } : ATxn)
        ∈ abortedTxns L := (mem_abortedTxns L _).mpr ⟨m, hmL, hmk, b0, hb0, rfl⟩
    have hmlast : b.last < m.base := wf.base_lt hbL hmL hmgt
    have hin := idxOk_complete hok ha (by simp only; omega) (by simp only; omega)
      (by simp only [List.any_eq_true]; exact ⟨b, hbL, by simp [hbp, hbrun]⟩)
    simp only at hin
    refine ⟨b0.base, ?_, hb0le, ?_⟩
    · rw [mem_sortIdx, ← hmp]; exact hin
    · intro m' hm'd hm'p hm'ab
      have hm'r : m' ∈ resp L f e := by rw [← hsplit]; exact List.mem_append.mpr (Or.inl hm'd)
      have hm'L := (mem_resp.mp hm'r).1
      have hm'lt := done_lt wf hsplit m' hm'd
      have hm'le := (wf.batch m' hm'L).le
      have hm'k : m'.kind ≠ .data := by
        have := abortRec_isCtrl m' hm'ab
        unfold Batch.isCtrl at this; simpa using this
      -- m' at or above b0 would be a marker of the producer inside the run
      apply Nat.lt_of_not_le
      intro hge
      have hne : b0.base ≠ m'.base := by
        intro heq
        have := wf.base_inj hb0L hm'L heq
        subst this
        unfold Batch.isTxnData at hb0d
        simp at hb0d
        exact hm'k hb0d.1
      exact hb0none m' hm'L (by rw [hm'p, hmp]) hm'k (by omega) (by omega)

/-! ## D. a whole response -/

theorem stepB_nfo (lvl : Level) (s : CS) (b : Batch) : (stepB lvl s b).1.nfo = b.last + 1 := by
  cases lvl
  · rw [stepB_ru]
  · rw [stepB_rc]

theorem run_nfo (lvl : Level) (rs : List Batch) : ∀ s : CS, (run lvl s rs).1.nfo = respEnd s.nfo rs := by
  induction rs with
  | nil => intro s; rfl
  | cons b r ih => intro s; simp only [run, respEnd]; rw [ih, stepB_nfo]

theorem respEnd_gt (f : Nat) (rs : List Batch) (hall : ∀ b ∈ rs, f ≤ b.last) :
    ∀ g, (rs ≠ [] ∨ f < g) → f < respEnd g rs := by
  induction rs with
  | nil => intro g h; rcases h with h | h; exact absurd rfl h; exact h
  | cons b r ih =>
    intro g _
    simp only [respEnd]
    apply ih (fun c hc => hall c (List.mem_cons_of_mem _ hc))
    right
    have := hall b (by simp)
    omega

theorem respEnd_getLast (f : Nat) (rs : List Batch) (b : Batch) (h : rs.getLast? = some b) :
    respEnd f rs = b.last + 1 := by
  induction rs generalizing f with
  | nil => simp at h
  | cons c r ih =>
    simp only [respEnd]
    cases r with
    | nil => simp at h; subst h; rfl
    | cons d r' => exact ih _ (by simpa [List.getLast?_cons_cons] using h)

theorem deliver_subset (recs : List Nat) : ∀ nfo o, o ∈ (deliver nfo recs).2 → o ∈ recs := by
  induction recs with
  | nil => intro nfo o h; simp [deliver] at h
  | cons a r ih =>
    intro nfo o h
    unfold deliver at h
    split at h
    · exact List.mem_cons_of_mem _ (ih _ _ h)
    · rcases List.mem_cons.mp h with rfl | h
      · simp
      · exact List.mem_cons_of_mem _ (ih _ _ h)

/-- nothing but records of data batches is ever handed out — whatever the index, whatever the
    batch sequence -/
theorem run_subset (lvl : Level) (rs : List Batch) : ∀ (s : CS) (o : Nat), o ∈ (run lvl s rs).2 →
    ∃ b ∈ rs, b.kind = .data ∧ o ∈ b.recs := by
  induction rs with
  | nil => intro s o h; simp [run] at h
  | cons b r ih =>
    intro s o h
    simp only [run, List.mem_append] at h
    rcases h with h | h
    · have hout : (stepB lvl s b).2 = [] ∨ (b.isCtrl = false ∧ (stepB lvl s b).2 = (deliver s.nfo b.recs).2) := by
        cases lvl
        · rw [stepB_ru]; by_cases hc : b.isCtrl = true <;> simp [hc]
        · rw [stepB_rc]
          by_cases hc : ((b.txn && (rcAp s b).contains b.pid) || b.isCtrl) = true
          · left; simp only [hc, if_true]
          · right
            have : b.isCtrl = false := by
              cases h' : b.isCtrl
              · rfl
              · simp [h'] at hc
            exact ⟨this, by rw [if_neg hc]⟩
      rcases hout with h0 | ⟨hc, h1⟩
      · rw [h0] at h; cases h
      · rw [h1] at h
        refine ⟨b, by simp, ?_, deliver_subset _ _ _ h⟩
        unfold Batch.isCtrl at hc
        simpa using hc
    · obtain ⟨c, hc, h1, h2⟩ := ih _ o h
      exact ⟨c, List.mem_cons_of_mem _ hc, h1, h2⟩

/-- the common induction: if every turn of the loop keeps `Inv` and hands out the records of
    exactly the visible batches, the response as a whole yields the ground truth -/
theorem run_eq_truth (lvl : Level) {L : List Batch} {f e : Nat} (wf : WF L)
    (Inv : List Batch → CS → Prop)
    (hstep : ∀ done b r s, done ++ b :: r = resp L f e → Inv done s →
      Inv (done ++ [b]) (stepB lvl s b).1 ∧
      (stepB lvl s b).2 = if visible lvl L b then (deliver s.nfo b.recs).2 else []) :
    ∀ (rest done : List Batch) (s : CS), done ++ rest = resp L f e → Inv done s →
      ((done = [] ∧ s.nfo = f) ∨ ∃ m ∈ done, s.nfo = m.last + 1) →
      (run lvl s rest).2 =
        rest.flatMap (fun b => if visible lvl L b then b.recs.filter (fun o => decide (f ≤ o)) else []) := by
  intro rest
  induction rest with
  | nil => intro done s _ _ _; simp [run]
  | cons b r ih =>
    intro done s hsplit hinv hnfo
    obtain ⟨hinv', hout⟩ := hstep done b r s hsplit hinv
    have hbr : b ∈ resp L f e := by rw [← hsplit]; simp
    obtain ⟨hbL, _, hbf, _⟩ := mem_resp.mp hbr
    have hwb := wf.batch b hbL
    simp only [run, List.flatMap_cons]
    congr 1
    · rw [hout]
      by_cases hv : visible lvl L b = true
      · simp only [hv, if_true]
        rw [deliver_eq_filter _ hwb.inc]
        apply List.filter_congr
        intro o ho
        have hob := hwb.recs o ho
        simp only [decide_eq_decide]
        rcases hnfo with ⟨_, h⟩ | ⟨m, hm, h⟩
        · rw [h]
        · have h1 := done_lt wf hsplit m hm
          have hmr : m ∈ resp L f e := by rw [← hsplit]; exact List.mem_append.mpr (Or.inl hm)
          have := (mem_resp.mp hmr).2.2.1
          omega
      · simp [hv]
    · apply ih (done ++ [b]) _ (by simpa using hsplit) hinv'
      right
      exact ⟨b, by simp, stepB_nfo lvl s b⟩

theorem outcome_kind {L : List Batch} {b : Batch} {k : Kind} (h : outcome L b = some k) : k ≠ .data := by
  simp only [outcome, Option.map_eq_some_iff] at h
  obtain ⟨m, hm, rfl⟩ := h
  have := List.find?_some hm
  exact ((isMarkerOf_iff _ _ _).mp this).2.1

theorem decidedB_iff {L : List Batch} {f e : Nat} :
    decidedB L f e = true ↔ ∀ b ∈ resp L f e, b.isTxnData = true → outcome L b ≠ none := by
  simp only [decidedB, List.all_eq_true, Bool.or_eq_true, Bool.not_eq_true', ne_eq]
  constructor
  · intro h b hb ht hn
    rcases h b hb with h' | h'
    · rw [ht] at h'; cases h'
    · rw [hn] at h'; cases h'
  · intro h b hb
    cases ht : b.isTxnData
    · exact Or.inl rfl
    · right
      have := h b hb ht
      cases ho : outcome L b
      · exact absurd ho this
      · rfl

/-- read_committed: one turn of the loop hands out exactly the records of a visible batch -/
theorem stepB_rc_visible {L : List Batch} {f e : Nat} {idx : List (Pid × Nat)} (wf : WF L)
    (hok : idxOk L f e idx = true) (hdec : decidedB L f e = true)
    (done : List Batch) (b : Batch) (r : List Batch) (s : CS)
    (hsplit : done ++ b :: r = resp L f e) (hinv : CInv (sortIdx idx) done s) :
    CInv (sortIdx idx) (done ++ [b]) (stepB .rc s b).1 ∧
    (stepB .rc s b).2 = if visible .rc L b then (deliver s.nfo b.recs).2 else [] := by
  have hbr : b ∈ resp L f e := by rw [← hsplit]; simp
  have hlt : ∀ m ∈ done, m.base < b.base := by
    intro m hm
    have := done_lt wf hsplit m hm
    have hmr : m ∈ resp L f e := by rw [← hsplit]; exact List.mem_append.mpr (Or.inl hm)
    have := (wf.batch m (mem_resp.mp hmr).1).le
    omega
  refine ⟨CInv_step _ done s b (sortIdx_sorted idx) hinv hlt, ?_⟩
  rw [stepB_rc]
  simp only [visible, visibleRc]
  have hkc : b.kind = .data ∨ b.kind = .commit ∨ b.kind = .abort := by cases b.kind <;> simp
  rcases hkc with hk | hk | hk
  rotate_left
  · simp [Batch.isCtrl, hk]
  · simp [Batch.isCtrl, hk]
  · have hc : b.isCtrl = false := by simp [Batch.isCtrl, hk]
    have hnab : b.abortRec = false := by simp [Batch.abortRec, hk]
    have htc : b.txn = false ∨ b.txn = true := by cases b.txn <;> simp
    rcases htc with ht | ht
    · simp [hc, ht, hk]
    · have htd : b.isTxnData = true := by simp [Batch.isTxnData, hk, ht]
      have h1 := contains_rcAp _ done s b (sortIdx_sorted idx) hinv hlt hnab
      have h2 := abortedAt_iff wf hok hsplit htd
      have hd := decidedB_iff.mp hdec b hbr htd
      simp only [hc, hk, ht, Bool.or_false, Bool.true_and, beq_self_eq_true, Bool.not_true, Bool.false_or]
      cases ho : outcome L b with
      | none => exact absurd ho hd
      | some k =>
        have hkd := outcome_kind ho
        cases k with
        | data => exact absurd rfl hkd
        | abort =>
          have : b.pid ∈ rcAp s b := List.contains_iff_mem.mp (h1.mpr (h2.mpr ho))
          simp [this]
        | commit =>
          have : ¬ b.pid ∈ rcAp s b := by
            intro hcon
            have := h2.mp (h1.mp (List.contains_iff_mem.mpr hcon))
            rw [ho] at this; cases this
          simp [this]

theorem stepB_ru_visible (L : List Batch) (s : CS) (b : Batch) :
    (stepB .ru s b).2 = if visible .ru L b then (deliver s.nfo b.recs).2 else [] := by
  rw [stepB_ru]
  simp only [visible, Batch.isCtrl]
  have hkc : b.kind = .data ∨ b.kind = .commit ∨ b.kind = .abort := by cases b.kind <;> simp
  rcases hkc with hk | hk | hk <;> simp [hk]

/-- a response cut below the last stable offset contains only decided transactions -/
theorem decided_of_le_lso {L : List Batch} (wf : WF L) {f e hw : Nat} (h : e ≤ lso L hw) :
    decidedB L f e = true := by
  rw [decidedB_iff]
  intro b hb ht hn
  obtain ⟨hbL, _, _, hbe⟩ := mem_resp.mp hb
  have hP : (fun b => b.isTxnData && (outcome L b).isNone) b = true := by simp [ht, hn]
  obtain ⟨b1, hb1⟩ := find?_exists (P := fun b => b.isTxnData && (outcome L b).isNone) hbL hP
  have := (find?_min wf hb1).2.2 b hbL hP
  unfold lso at h
  rw [hb1] at h
  simp only at h
  omega

/-! ## E. cutting the log into several responses -/

theorem respEnd_append (f : Nat) (a b : List Batch) : respEnd f (a ++ b) = respEnd (respEnd f a) b := by
  induction a generalizing f with
  | nil => rfl
  | cons x t ih => simp only [List.cons_append, respEnd]; exact ih _

/-- in a sorted list the last element is the largest -/
theorem sorted_getLast_max {R : List Batch} (hs : Sorted R) {m : Batch} (h : R.getLast? = some m) :
    m ∈ R ∧ ∀ b ∈ R, b = m ∨ b.last < m.base := by
  obtain ⟨ys, rfl⟩ := List.getLast?_eq_some_iff.mp h
  refine ⟨by simp, ?_⟩
  intro b hb
  rcases List.mem_append.mp hb with h1 | h1
  · right
    exact (List.pairwise_append.mp hs).2.2 b h1 m (by simp)
  · left; simpa using h1

/-- where the position stands after a response: unchanged if nothing came, else one past the
    largest batch -/
theorem respEnd_cases {L : List Batch} (wf : WF L) (f e : Nat) :
    (resp L f e = [] ∧ respEnd f (resp L f e) = f) ∨
    ∃ m ∈ resp L f e, respEnd f (resp L f e) = m.last + 1 ∧
      ∀ b ∈ resp L f e, b = m ∨ b.last < m.base := by
  cases hl : (resp L f e).getLast? with
  | none =>
    left
    have : resp L f e = [] := List.getLast?_eq_none_iff.mp hl
    rw [this]; exact ⟨rfl, rfl⟩
  | some m =>
    right
    obtain ⟨hm, hmax⟩ := sorted_getLast_max (resp_sorted wf f e) hl
    exact ⟨m, hm, respEnd_getLast f _ m hl, hmax⟩

/-- splitting a filter of a sorted list into an earlier and a later part -/
theorem filter_split {L : List Batch} (hs : L.Pairwise (fun a b => a.base < b.base))
    (P Q PQ : Batch → Bool)
    (h1 : ∀ b ∈ L, PQ b = true ↔ (P b = true ∨ Q b = true))
    (h2 : ∀ a ∈ L, ∀ b ∈ L, P b = true → Q a = true → b.base < a.base) :
    L.filter PQ = L.filter P ++ L.filter Q := by
  induction L with
  | nil => rfl
  | cons x t ih =>
    obtain ⟨hx, ht⟩ := List.pairwise_cons.mp hs
    have iht := ih ht (fun b hb => h1 b (List.mem_cons_of_mem _ hb))
      (fun a ha b hb => h2 a (List.mem_cons_of_mem _ ha) b (List.mem_cons_of_mem _ hb))
    have hxx := h1 x (by simp)
    by_cases hP : P x = true
    · have hQ : Q x = false := by
        cases hq : Q x
        · rfl
        · have := h2 x (by simp) x (by simp) hP hq; omega
      have hPQ : PQ x = true := hxx.mpr (Or.inl hP)
      simp [hP, hQ, hPQ, iht]
    · have hP' : P x = false := by simpa using hP
      by_cases hQ : Q x = true
      · have hPQ : PQ x = true := hxx.mpr (Or.inr hQ)
        have hnone : t.filter P = [] := by
          rw [List.filter_eq_nil_iff]
          intro y hy hPy
          have := h2 x (by simp) y (List.mem_cons_of_mem _ hy) hPy hQ
          have := hx y hy
          omega
        simp [hP', hQ, hPQ, iht, hnone]
      · have hQ' : Q x = false := by simpa using hQ
        have hPQ : PQ x = false := by
          cases h : PQ x
          · rfl
          · rcases hxx.mp h with h | h
            · exact absurd h hP
            · exact absurd h hQ
        simp [hP', hQ', hPQ, iht]

theorem WF.base_pairwise {L : List Batch} (wf : WF L) : L.Pairwise (fun a b => a.base < b.base) := by
  have hs := wf.sorted
  have hb := wf.batch
  clear wf
  induction L with
  | nil => exact List.Pairwise.nil
  | cons x t ih =>
    obtain ⟨hx, ht⟩ := List.pairwise_cons.mp hs
    refine List.pairwise_cons.mpr ⟨?_, ih ht (fun b hb' => hb b (List.mem_cons_of_mem _ hb'))⟩
    intro y hy
    have := hx y hy
    have := (hb x (by simp)).le
    omega

/-- a response cut at `e'` is the response cut at `e ≤ e'` followed by the response to the fetch
    from the position the first one leaves -/
theorem resp_split {L : List Batch} (wf : WF L) (f e e' : Nat) (hee : e ≤ e') :
    resp L f e' = resp L f e ++ resp L (respEnd f (resp L f e)) e' := by
  have hc := respEnd_cases wf f e
  generalize respEnd f (resp L f e) = g at hc ⊢
  show L.filter _ = L.filter _ ++ L.filter _
  apply filter_split wf.base_pairwise
  · intro b hb
    have hle := (wf.batch b hb).le
    simp only [Bool.and_eq_true, decide_eq_true_eq]
    rcases hc with ⟨_, hend⟩ | ⟨m, hm, hend, _⟩
    · rw [hend]
      constructor
      · rintro ⟨⟨hp, hf⟩, he⟩
        exact Or.inr ⟨⟨hp, hf⟩, he⟩
      · rintro (⟨⟨hp, hf⟩, he⟩ | ⟨⟨hp, hf⟩, he⟩)
        · exact ⟨⟨hp, hf⟩, by omega⟩
        · exact ⟨⟨hp, hf⟩, he⟩
    · rw [hend]
      obtain ⟨hmL, _, hmf, hme⟩ := mem_resp.mp hm
      have hmle := (wf.batch m hmL).le
      constructor
      · rintro ⟨⟨hp, hf⟩, he⟩
        by_cases hbe : b.base < e
        · exact Or.inl ⟨⟨hp, hf⟩, hbe⟩
        · right
          have : m.last < b.base := wf.base_lt hmL hb (by omega)
          exact ⟨⟨hp, by omega⟩, he⟩
      · rintro (⟨⟨hp, hf⟩, he⟩ | ⟨⟨hp, hf⟩, he⟩)
        · exact ⟨⟨hp, hf⟩, by omega⟩
        · exact ⟨⟨hp, by omega⟩, he⟩
  · intro a ha b hb hPb hQa
    simp only [Bool.and_eq_true, decide_eq_true_eq] at hPb hQa
    have hbr : b ∈ resp L f e := mem_resp.mpr ⟨hb, hPb.1.1, hPb.1.2, hPb.2⟩
    rcases hc with ⟨hnil, _⟩ | ⟨m, hm, hend, hmax⟩
    · rw [hnil] at hbr; cases hbr
    · rw [hend] at hQa
      obtain ⟨hmL, _, _, _⟩ := mem_resp.mp hm
      have hmle := (wf.batch m hmL).le
      have hble := (wf.batch b hb).le
      have hbm : b.base ≤ m.last := by
        rcases hmax b hbr with rfl | h
        · exact hble
        · omega
      have hma : m.last < a.base := by
        rcases pairwise_cases wf.sorted hmL ha with rfl | h | h
        · omega
        · exact h
        · omega
      omega

theorem flatMap_congr' {α β} {l : List α} {f g : α → List β} (h : ∀ a ∈ l, f a = g a) :
    l.flatMap f = l.flatMap g := by
  induction l with
  | nil => rfl
  | cons x t ih =>
    simp only [List.flatMap_cons]
    rw [h x (by simp), ih (fun a ha => h a (List.mem_cons_of_mem _ ha))]

/-- composition of two consecutive responses -/
theorem truth_split (lvl : Level) {L : List Batch} (wf : WF L) (f e e' : Nat) (hee : e ≤ e') :
    truth lvl L f e ++ truth lvl L (respEnd f (resp L f e)) e' = truth lvl L f e' ∧
    respEnd (respEnd f (resp L f e)) (resp L (respEnd f (resp L f e)) e') = respEnd f (resp L f e') := by
  have hsplit := resp_split wf f e e' hee
  refine ⟨?_, by rw [hsplit, respEnd_append]⟩
  unfold truth
  rw [hsplit, List.flatMap_append]
  congr 1
  apply flatMap_congr'
  intro b hb
  by_cases hv : visible lvl L b = true
  · simp only [hv, if_true]
    apply List.filter_congr
    intro o ho
    obtain ⟨hbL, _, hbf, _⟩ := mem_resp.mp hb
    have hob := (wf.batch b hbL).recs o ho
    simp only [decide_eq_decide]
    rcases respEnd_cases wf f e with ⟨_, hend⟩ | ⟨m, hm, hend, _⟩
    · rw [hend]
    · rw [hend] at hbf ⊢
      obtain ⟨hmL, _, hmf, _⟩ := mem_resp.mp hm
      have hmle := (wf.batch m hmL).le
      have hble := (wf.batch b hbL).le
      have : m.last < b.base := by
        rcases pairwise_cases wf.sorted hmL hbL with rfl | h | h
        · omega
        · exact h
        · omega
      omega
  · simp [hv]

/-- the ground truth lists each record once, in offset order -/
theorem truth_sorted (lvl : Level) {L : List Batch} (wf : WF L) (f e : Nat) :
    (truth lvl L f e).Pairwise (· < ·) := by
  unfold truth
  rw [List.pairwise_flatMap]
  constructor
  · intro b hb
    split
    · exact List.Pairwise.filter _ (wf.batch b (mem_resp.mp hb).1).inc
    · exact List.Pairwise.nil
  · have hs := resp_sorted wf f e
    refine List.Pairwise.imp_of_mem ?_ hs
    intro a b ha hb hab x hx y hy
    have haL := (mem_resp.mp ha).1
    have hbL := (mem_resp.mp hb).1
    split at hx
    · split at hy
      · have h1 := (wf.batch a haL).recs x (List.mem_filter.mp hx).1
        have h2 := (wf.batch b hbL).recs y (List.mem_filter.mp hy).1
        omega
      · cases hy
    · cases hx

/-- the broker obeys its contract at every fetch of a session (for read_committed: index
    contract and LSO bound, relative to the position of that fetch) and never cuts a later
    response below an earlier cut -/
def SessOK (lvl : Level) (L : List Batch) : Nat → List (Nat × List (Pid × Nat)) → Prop
  | _, [] => True
  | f, c :: cs =>
    (lvl = .rc → idxOk L f c.1 c.2 = true ∧ decidedB L f c.1 = true) ∧
    (∀ d ∈ cs, c.1 ≤ d.1) ∧ SessOK lvl L (respEnd f (resp L f c.1)) cs

end AkVerif.Iso
