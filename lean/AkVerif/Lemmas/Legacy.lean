import AkVerif.Model.Legacy
import AkVerif.Lemmas.V2
/-! v0/v1 messages: builder = format definition, and the three readers on its output -/
namespace AkVerif.Legacy
open AkVerif.Wire AkVerif.Crc AkVerif.V2 AkVerif.Varint

theorem optLen_le (ob : Option Bytes) : (encLBytes ob).length = 4 + optLen ob := by
  cases ob with
  | none => simp [encLBytes, optLen, be_length]
  | some b => simp [encLBytes, optLen, be_length]

theorem msgBody_length (m a : Nat) (ts : Int) (k v : Option Bytes) :
    (msgBody m a ts k v).length = (if m = 0 then 10 else 18) + optLen k + optLen v := by
  unfold msgBody
  by_cases h : m = 0 <;> simp [h, be_length, optLen_le] <;> omega

/-- `_encode_msg` writes exactly the message of the format definition -/
theorem encodeMsg_eq (m a : Nat) (o ts : Int) (k v : Option Bytes) :
    encodeMsg m a o ts k v = (encMsg m a o ts k v, ((crc32 (msgBody m a ts k v) : Nat) : Int)) := by
  have hp : ∀ ob, packLBytes ob = encLBytes ob := fun ob => by cases ob <;> rfl
  have hb : (be 1 m ++ (be 1 a ++ ((if m = 0 then [] else be 8 ts) ++
      (packLBytes k ++ packLBytes v)))) = msgBody m a ts k v := by
    unfold msgBody
    rw [hp, hp]
  have hlen : ((4 + optLen k + 4 + optLen v : Nat) : Int) - 12 + (if m = 0 then 18 else 26) =
      ((msgBody m a ts k v).length : Int) + 4 := by
    rw [msgBody_length]
    by_cases h : m = 0 <;> simp only [h, if_true, if_false] <;> omega
  unfold encodeMsg encMsg
  simp only [hb, hlen]

theorem msgBody_ts0 (a : Nat) (t1 t2 : Int) (k v : Option Bytes) : msgBody 0 a t1 k v = msgBody 0 a t2 k v := by
  simp [msgBody]

theorem encMsg_ts0 (a : Nat) (o t1 t2 : Int) (k v : Option Bytes) : encMsg 0 a o t1 k v = encMsg 0 a o t2 k v := by
  unfold encMsg; rw [msgBody_ts0 a t1 t2]

theorem specSet_append (m a : Nat) (xs ys : List In) :
    specSet m a (xs ++ ys) = specSet m a xs ++ specSet m a ys := by
  induction xs with
  | nil => rfl
  | cons x t ih => simp [specSet, ih]

theorem lAppend_none (c : LCfg) (buf b' : Bytes) (r : In) (h : lAppend c buf r = (none, b')) : b' = buf := by
  unfold lAppend at h
  simp only at h
  split at h
  · injection h with _ h2; exact h2.symm
  · injection h with h1 _; cases h1

theorem lAppend_some (c : LCfg) (buf b' : Bytes) (r : In) (m : LMeta) (h : lAppend c buf r = (some m, b')) :
    b' = buf ++ encMsg c.magic 0 r.offset r.ts r.key r.value := by
  unfold lAppend at h
  simp only at h
  split at h
  · injection h with h1 _; cases h1
  · injection h with _ h2
    rw [← h2, encodeMsg_eq]
    by_cases hm : c.magic = 0
    · simp only [hm, if_true]
      rw [encMsg_ts0 0 r.offset (-1) r.ts]
    · simp only [hm, if_false]

/-- the buffer of the builder is the message set of the accepted records -/
theorem lRun_eq (c : LCfg) (rs : List In) : ∀ buf : Bytes,
    (lRun c buf rs).2 = buf ++ specSet c.magic 0 (lAccepted c buf rs) := by
  induction rs with
  | nil => intro buf; simp [lRun, lAccepted, specSet]
  | cons r rs ih =>
    intro buf
    simp only [lRun, lAccepted]
    cases hp : lAppend c buf r with
    | mk m b1 =>
      cases m with
      | none =>
        have := lAppend_none c buf b1 r hp
        subst this
        simpa using ih b1
      | some m =>
        have := lAppend_some c buf b1 r m hp
        subst this
        simp only [ih, specSet, List.append_assoc]

theorem lBuild_eq (C : Codec) (c : LCfg) (acc : List In) :
    lBuild C c (specSet c.magic 0 acc) =
      (if c.codec ≠ 0 then specWrapper C c.magic c.codec false 0 0 acc else specSet c.magic 0 acc) := by
  unfold lBuild specWrapper
  split
  · rw [encodeMsg_eq]; simp [wrapperAttrs]
  · rfl

/-! ### readers -/

theorem decLBytes_enc (ob : Option Bytes) (h : optLenOK ob) (rest : Bytes) :
    decLBytes (encLBytes ob ++ rest) = some (ob, rest) := by
  cases ob with
  | none =>
    unfold decLBytes encLBytes
    rw [decInt_be4 _ (by unfold int32; omega)]
    simp
  | some b =>
    have hl : lenOK b.length := h
    unfold decLBytes encLBytes
    rw [List.append_assoc, decInt_be4 _ (by unfold lenOK at hl; unfold int32; omega)]
    have h1 : ¬ ((b.length : Int) = -1) := by omega
    have h2 : ¬ ((b.length : Int) < 0) := by omega
    simp only [h1, h2, if_false, Int.toNat_natCast, List.length_append, Nat.le_add_right, if_true,
      List.take_left', List.drop_left']

/-- the message a reader obtains from `encMsg` -/
def msgOf (m a : Nat) (o ts : Int) (k v : Option Bytes) : Msg :=
  { offset := o, length := ((msgBody m a ts k v).length : Int) + 4, crc := crc32 (msgBody m a ts k v),
    magic := m, attrs := a, ts := if m = 0 then -1 else ts, key := k, value := v }

/-- a message whose fields fit their wire types -/
structure WFMsg (m a : Nat) (o ts : Int) (k v : Option Bytes) : Prop where
  hmagic : m = 0 ∨ m = 1
  hattrs : a < 128
  hoff : int64 o
  hts : int64 ts
  hkey : optLenOK k
  hvalue : optLenOK v
  hlen : lenOK ((msgBody m a ts k v).length + 4)

theorem decBody_enc (m a : Nat) (ts : Int) (k v : Option Bytes) (hm : m = 0 ∨ m = 1) (ha : a < 128)
    (hts : int64 ts) (hk : optLenOK k) (hv : optLenOK v) :
    decBody (msgBody m a ts k v) = some ((m : Int), (a : Int), (if m = 0 then -1 else ts), k, v) := by
  have hv' := decLBytes_enc v hv []
  rw [List.append_nil] at hv'
  unfold decBody msgBody
  rw [decInt_be1 _ (by rcases hm with rfl | rfl <;> omega)]
  simp only
  rw [decInt_be1 _ (by omega)]
  simp only
  rcases hm with rfl | rfl
  · simp only [Int.natCast_zero, if_true, List.nil_append]
    rw [decLBytes_enc k hk]
    simp only
    rw [hv']
  · have h10 : ¬ ((1 : Nat) = 0) := by omega
    have h10' : ¬ ((1 : Int) = 0) := by omega
    simp only [Int.natCast_one, h10, h10', if_false]
    rw [decInt_be8 _ hts]
    simp only
    rw [decLBytes_enc k hk]
    simp only
    rw [hv']

theorem decMsg_enc (m a : Nat) (o ts : Int) (k v : Option Bytes) (h : WFMsg m a o ts k v) (rest : Bytes) :
    decMsg (encMsg m a o ts k v ++ rest) = some (msgOf m a o ts k v, rest) := by
  obtain ⟨hm, ha, ho, hts, hk, hv, hl⟩ := h
  unfold decMsg encMsg
  simp only [List.append_assoc]
  rw [decInt_be8 _ ho]
  simp only
  rw [decInt_be4 _ (by unfold lenOK at hl; unfold int32; omega)]
  simp only
  have hT : (((msgBody m a ts k v).length : Int) + 4).toNat = (msgBody m a ts k v).length + 4 := by omega
  have h1 : ¬ (((msgBody m a ts k v).length : Int) + 4 < 4) := by omega
  have h2 : (((msgBody m a ts k v).length : Int) + 4).toNat ≤
      (be 4 (crc32 (msgBody m a ts k v)) ++ (msgBody m a ts k v ++ rest)).length := by
    rw [hT]; simp only [List.length_append, be_length]; omega
  simp only [h1, h2, if_false, if_true]
  have htake : (be 4 (crc32 (msgBody m a ts k v)) ++ (msgBody m a ts k v ++ rest)).take
      (((msgBody m a ts k v).length : Int) + 4).toNat =
      be 4 (crc32 (msgBody m a ts k v)) ++ msgBody m a ts k v := by
    rw [← List.append_assoc, hT]
    apply List.take_left'
    simp only [List.length_append, be_length]; omega
  have hdrop : (be 4 (crc32 (msgBody m a ts k v)) ++ (msgBody m a ts k v ++ rest)).drop
      (((msgBody m a ts k v).length : Int) + 4).toNat = rest := by
    rw [← List.append_assoc, hT]
    apply List.drop_left'
    simp only [List.length_append, be_length]; omega
  rw [htake, hdrop, decUInt_be4 _ (crc32_range _)]
  simp only
  rw [decBody_enc m a ts k v hm ha hts hk hv]
  rfl

theorem implFields_enc (bl : Bool) (m a : Nat) (ts : Int) (k v : Option Bytes) (hm : m = 0 ∨ m = 1)
    (ha : a < 128) (hts : int64 ts) (hk : optLenOK k) (hv : optLenOK v) (c : Nat) (hc : c < 2 ^ 32)
    (rest : Bytes) :
    implFields m bl (be 4 c ++ (msgBody m a ts k v ++ rest)) =
      some (((c : Int), (m : Int), (a : Int), (if m = 0 then -1 else ts), k, v), rest) := by
  unfold implFields msgBody
  simp only [List.append_assoc]
  rw [decUInt_be4 _ (by omega)]
  simp only
  rw [decInt_be1 _ (by rcases hm with rfl | rfl <;> omega)]
  simp only
  rw [decInt_be1 _ (by omega)]
  simp only
  rcases hm with rfl | rfl
  · have hc : (if bl = true then (0 : Nat) = 0 else ((0 : Nat) : Int) ≠ 1) := by cases bl <;> simp
    rw [if_pos hc]
    simp only [if_true, List.nil_append]
    rw [decLBytes_enc k hk]
    simp only
    rw [decLBytes_enc v hv]
  · have hc : ¬ (if bl = true then (1 : Nat) = 0 else ((1 : Nat) : Int) ≠ 1) := by cases bl <;> simp
    have h10 : ¬ ((1 : Nat) = 0) := by omega
    rw [if_neg hc]
    simp only [h10, if_false]
    rw [decInt_be8 _ hts]
    simp only
    rw [decLBytes_enc k hk]
    simp only
    rw [decLBytes_enc v hv]

theorem implMsg_enc (bl : Bool) (m a : Nat) (o ts : Int) (k v : Option Bytes) (h : WFMsg m a o ts k v)
    (rest : Bytes) : implMsg m bl (encMsg m a o ts k v ++ rest) = some (msgOf m a o ts k v, rest) := by
  obtain ⟨hm, ha, ho, hts, hk, hv, hl⟩ := h
  unfold implMsg encMsg
  simp only [List.append_assoc]
  rw [decInt_be8 _ ho]
  simp only
  rw [decInt_be4 _ (by unfold lenOK at hl; unfold int32; omega)]
  simp only
  have hcr := crc32_range (msgBody m a ts k v)
  rw [implFields_enc bl m a ts k v hm ha hts hk hv _ (by omega)]
  simp only
  cases bl
  · simp only [Bool.false_eq_true, if_false]; rfl
  · have hT : (((msgBody m a ts k v).length : Int) + 4).toNat = (msgBody m a ts k v).length + 4 := by omega
    have hlen : (be 4 ((crc32 (msgBody m a ts k v) : Nat) : Int) ++ (msgBody m a ts k v ++ rest)).length =
        (msgBody m a ts k v).length + 4 + rest.length := by
      simp only [List.length_append, be_length]; omega
    have hdrop : (be 4 ((crc32 (msgBody m a ts k v) : Nat) : Int) ++ (msgBody m a ts k v ++ rest)).drop
        (((msgBody m a ts k v).length : Int) + 4).toNat = rest := by
      rw [← List.append_assoc, hT]
      apply List.drop_left'
      simp only [List.length_append, be_length]; omega
    have hno : ¬ ((((msgBody m a ts k v).length : Int) + 4 < 0) ∨
        (be 4 ((crc32 (msgBody m a ts k v) : Nat) : Int) ++ (msgBody m a ts k v ++ rest)).length <
          (((msgBody m a ts k v).length : Int) + 4).toNat) := by
      rw [hlen, hT]; omega
    simp only [if_true, hno, if_false, hdrop]
    rfl

/-! ### message sets and batches -/

def WFIn (m : Nat) (r : In) : Prop := WFMsg m 0 r.offset r.ts r.key r.value

def msgsOf (m : Nat) (recs : List In) : List Msg := recs.map fun r => msgOf m 0 r.offset r.ts r.key r.value

theorem encMsg_ne_nil (m a : Nat) (o ts : Int) (k v : Option Bytes) (rest : Bytes) :
    encMsg m a o ts k v ++ rest ≠ [] := by
  intro h
  have := congrArg List.length h
  simp only [encMsg, List.length_append, be_length, List.length_nil] at this
  omega

theorem specSet_length (m : Nat) (recs : List In) : recs.length ≤ (specSet m 0 recs).length := by
  induction recs with
  | nil => simp
  | cons r rs ih =>
    simp only [specSet, List.length_cons, List.length_append, encMsg, be_length]
    omega

theorem decSet_spec (m : Nat) (recs : List In) (h : ∀ r ∈ recs, WFIn m r) :
    ∀ fuel, recs.length ≤ fuel → decSet fuel (specSet m 0 recs) = some (msgsOf m recs) := by
  induction recs with
  | nil => intro fuel _; cases fuel <;> simp [decSet, specSet, msgsOf]
  | cons r rs ih =>
    intro fuel hf
    obtain ⟨k, rfl⟩ : ∃ k, fuel = k + 1 := ⟨fuel - 1, by simp at hf; omega⟩
    simp only [specSet, decSet, encMsg_ne_nil, if_false]
    rw [decMsg_enc m 0 r.offset r.ts r.key r.value (h r (by simp))]
    simp only
    rw [ih (fun y hy => h y (by simp [hy])) k (by simp at hf; omega)]
    rfl

theorem implSet_spec (bl : Bool) (m : Nat) (recs : List In) (h : ∀ r ∈ recs, WFIn m r) :
    ∀ fuel, recs.length ≤ fuel → implSet m bl fuel (specSet m 0 recs) = some (msgsOf m recs) := by
  induction recs with
  | nil => intro fuel _; cases fuel <;> simp [implSet, specSet, msgsOf]
  | cons r rs ih =>
    intro fuel hf
    obtain ⟨k, rfl⟩ : ∃ k, fuel = k + 1 := ⟨fuel - 1, by simp at hf; omega⟩
    simp only [specSet, implSet, encMsg_ne_nil, if_false]
    rw [implMsg_enc bl m 0 r.offset r.ts r.key r.value (h r (by simp))]
    simp only
    rw [ih (fun y hy => h y (by simp [hy])) k (by simp at hf; omega)]
    rfl

def lastInOffset : List In → Option Int
  | [] => none
  | [r] => some r.offset
  | _ :: r :: rs => lastInOffset (r :: rs)

theorem lastOffset_msgsOf (m : Nat) (recs : List In) : lastOffset (msgsOf m recs) = lastInOffset recs := by
  induction recs with
  | nil => rfl
  | cons r rs ih =>
    cases rs with
    | nil => rfl
    | cons r2 rs2 =>
      simp only [msgsOf, List.map_cons, lastOffset, lastInOffset] at ih ⊢
      exact ih

/-- what a reader must yield for the records `inner` stored under a wrapper with offset `wo`,
    timestamp `wt` and timestamp type `la`; `last` is the offset of the last inner message -/
def wrapperOuts (m : Nat) (la : Bool) (wo wt : Int) (inner : List In) (last : Int) : List Out :=
  inner.map fun r =>
    { offset := if m ≠ 0 ∧ wo - last ≥ 0 then r.offset + (wo - last) else r.offset,
      ts := if m = 0 then none else some (if la then wt else r.ts),
      tsType := if m = 0 then none else some (if la then 1 else 0),
      key := r.key, value := r.value, crc := crc32 (msgBody m 0 r.ts r.key r.value) }

theorem wattrs_facts (codec : Nat) (la : Bool) (hc : codec < 8) :
    specCodec (wrapperAttrs codec la : Nat) = codec ∧
    specTsType (wrapperAttrs codec la : Nat) = (if la then 1 else 0) ∧
    implCodec (wrapperAttrs codec la : Nat) = codec ∧
    implTsType (wrapperAttrs codec la : Nat) = (if la then 1 else 0) ∧
    wrapperAttrs codec la < 128 := by
  have hfin : ∀ a : Fin 16, (a.val &&& 0x07 = a.val % 8) ∧ ((a.val &&& 0x08 ≠ 0) ↔ a.val / 8 % 2 = 1) := by
    decide +kernel
  have hlt : wrapperAttrs codec la < 16 := by unfold wrapperAttrs; cases la <;> simp <;> omega
  have e : (((wrapperAttrs codec la : Nat) : Int) % 256).toNat = wrapperAttrs codec la := by omega
  have hf := hfin ⟨wrapperAttrs codec la, hlt⟩
  simp only at hf
  unfold specCodec specTsType implCodec implTsType
  rw [e, hf.1]
  have hbit : (wrapperAttrs codec la &&& 0x08 ≠ 0) ↔ la = true := by
    rw [hf.2]; unfold wrapperAttrs; cases la <;> simp <;> omega
  have hdiv : (((wrapperAttrs codec la : Nat) : Int) / 8 % 2 = 1) ↔ la = true := by
    unfold wrapperAttrs; cases la <;> simp <;> omega
  refine ⟨by unfold wrapperAttrs; cases la <;> simp <;> omega, ?_, by unfold wrapperAttrs; cases la <;> simp <;> omega,
    ?_, by omega⟩
  · cases la
    · have : ¬ (((wrapperAttrs codec false : Nat) : Int) / 8 % 2 = 1) := fun h => Bool.noConfusion (hdiv.mp h)
      simp [this]
    · have : (((wrapperAttrs codec true : Nat) : Int) / 8 % 2 = 1) := hdiv.mpr rfl
      simp [this]
  · cases la
    · have : ¬ (wrapperAttrs codec false &&& 0x08 ≠ 0) := fun h => Bool.noConfusion (hbit.mp h)
      rw [if_neg this]; rfl
    · have : (wrapperAttrs codec true &&& 0x08 ≠ 0) := hbit.mpr rfl
      rw [if_pos this]; rfl

theorem outs_eq (m : Nat) (la : Bool) (wo wt : Int) (inner : List In) (last : Int) :
    (msgsOf m inner).map (fun x =>
      outOf m (if la then 1 else 0)
        (if (if m = 0 then (-1 : Int) else wo - last) ≥ 0 then x.offset + (if m = 0 then (-1 : Int) else wo - last)
          else x.offset)
        (if (if la then 1 else 0 : Nat) = 1 then (if m = 0 then -1 else wt) else x.ts) x) =
    wrapperOuts m la wo wt inner last := by
  unfold msgsOf wrapperOuts
  rw [List.map_map]
  apply List.map_congr_left
  intro r _
  simp only [Function.comp, outOf, msgOf]
  by_cases hm : m = 0
  · subst hm
    simp
  · cases la <;> simp [hm]

theorem specRead_wrapper (C : Codec) (hC : C.Lawful) (m codec : Nat) (la : Bool) (wo wt : Int)
    (inner : List In) (last : Int) (hcodec : 0 < codec ∧ codec < 8) (hin : ∀ r ∈ inner, WFIn m r)
    (hlast : lastInOffset inner = some last)
    (hw : WFMsg m (wrapperAttrs codec la) wo wt none (some (C.compress codec (specSet m 0 inner)))) :
    specReadBatch C m (specWrapper C m codec la wo wt inner) = some (wrapperOuts m la wo wt inner last) := by
  have hf := wattrs_facts codec la hcodec.2
  have hd := decMsg_enc m (wrapperAttrs codec la) wo wt none _ hw []
  rw [List.append_nil] at hd
  unfold specReadBatch specWrapper
  rw [hd]
  simp only [msgOf, ne_eq, not_true_eq_false, if_false, hf.1, hf.2.1]
  have hc0 : ¬ codec = 0 := by omega
  simp only [hc0, if_false, hC codec]
  rw [decSet_spec m inner hin _ (specSet_length m inner)]
  simp only
  rw [lastOffset_msgsOf, hlast]
  simp only
  rw [← outs_eq m la wo wt inner last]
  rfl

theorem implRead_wrapper (bl : Bool) (C : Codec) (hC : C.Lawful) (m codec : Nat) (la : Bool) (wo wt : Int)
    (inner : List In) (last : Int) (hcodec : 0 < codec ∧ codec < 8) (hin : ∀ r ∈ inner, WFIn m r)
    (hlast : lastInOffset inner = some last)
    (hw : WFMsg m (wrapperAttrs codec la) wo wt none (some (C.compress codec (specSet m 0 inner)))) :
    implReadBatch bl C m (specWrapper C m codec la wo wt inner) = some (wrapperOuts m la wo wt inner last) := by
  have hf := wattrs_facts codec la hcodec.2
  have hd := implMsg_enc bl m (wrapperAttrs codec la) wo wt none _ hw []
  rw [List.append_nil] at hd
  unfold implReadBatch specWrapper
  rw [hd]
  simp only [msgOf, hf.2.2.1, hf.2.2.2.1]
  have hc0 : ¬ codec = 0 := by omega
  simp only [hc0, if_false, hC codec]
  rw [implSet_spec bl m inner hin _ (specSet_length m inner)]
  simp only
  rw [lastOffset_msgsOf, hlast]
  simp only
  have hbase : (if m > 0 then wo - last else (-1 : Int)) = (if m = 0 then (-1 : Int) else wo - last) := by
    by_cases h0 : m = 0 <;> simp [h0] <;> omega
  simp only [hbase]
  rw [← outs_eq m la wo wt inner last]

/-- a plain (uncompressed) message read as a batch: its one record -/
def plainOut (m : Nat) (la : Bool) (o ts : Int) (k v : Option Bytes) : Out :=
  { offset := o, ts := if m = 0 then none else some ts,
    tsType := if m = 0 then none else some (if la then 1 else 0),
    key := k, value := v, crc := crc32 (msgBody m (wrapperAttrs 0 la) ts k v) }

theorem specRead_plain (C : Codec) (m : Nat) (la : Bool) (o ts : Int) (k v : Option Bytes)
    (hw : WFMsg m (wrapperAttrs 0 la) o ts k v) :
    specReadBatch C m (encMsg m (wrapperAttrs 0 la) o ts k v) = some [plainOut m la o ts k v] := by
  have hf := wattrs_facts 0 la (by omega)
  have hd := decMsg_enc m (wrapperAttrs 0 la) o ts k v hw []
  rw [List.append_nil] at hd
  have hm := hw.hmagic
  unfold specReadBatch
  rw [hd]
  simp only [msgOf, ne_eq, not_true_eq_false, if_false, hf.1, hf.2.1, if_true, outOf, plainOut]
  rcases hm with rfl | rfl <;> simp

theorem implRead_plain (bl : Bool) (C : Codec) (m : Nat) (la : Bool) (o ts : Int) (k v : Option Bytes)
    (hw : WFMsg m (wrapperAttrs 0 la) o ts k v) :
    implReadBatch bl C m (encMsg m (wrapperAttrs 0 la) o ts k v) = some [plainOut m la o ts k v] := by
  have hf := wattrs_facts 0 la (by omega)
  have hd := implMsg_enc bl m (wrapperAttrs 0 la) o ts k v hw []
  rw [List.append_nil] at hd
  have hm := hw.hmagic
  unfold implReadBatch
  rw [hd]
  simp only [msgOf, hf.2.2.1, hf.2.2.2.1, if_true, outOf, plainOut]
  rcases hm with rfl | rfl <;> simp

end AkVerif.Legacy
