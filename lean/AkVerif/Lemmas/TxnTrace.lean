import AkVerif.Model.TxnTrace
import AkVerif.Lemmas.Txn
/-! Invariant of the trace acceptor (C07, T-trace) and its preservation. -/
namespace AkVerif.Txn

/-! ## environment-level preservation lemmas (no assumption on the client) -/

theorem InvEG.addParts' {k : Core} (h : InvEG k) (p : Nat) :
    InvEG { k with env := k.env.addParts p } := by
  by_cases hp : p ∈ k.env.parts
  · -- already registered: the coordinator must be in a transaction
    have hon : k.env.ongoing = true := by
      cases ho : k.env.ongoing with
      | true => rfl
      | false =>
        have := (h.env_idle ho).1
        rw [this] at hp; cases hp
    have : k.env.addParts p = k.env := by
      obtain ⟨st, ps, g, e, n, cu, co, go, ba, gf⟩ := k
      obtain ⟨on, eps, eg, la, pe, cm, lo⟩ := e
      simp only at hp hon
      subst hon
      simp [Env.addParts, Env.beginIfNeeded, hp]
    rw [this]
    exact h.of_eq rfl rfl rfl rfl rfl rfl rfl rfl rfl rfl rfl rfl
  · rw [addParts_eq _ _ h.env_idle hp]
    exact
    { env_idle := by simp
      env_pend := by
        intro hpe
        exact ⟨rfl, (h.env_pend hpe).2⟩
      env_nodup := by
        simp only
        rw [List.nodup_append]
        refine ⟨h.env_nodup, by simp, ?_⟩
        intro a ha b hb
        simp only [List.mem_singleton] at hb
        subst hb
        intro hab; subst hab; exact hp ha
      open_reg := by
        intro q hq
        exact ⟨rfl, List.mem_append_left _ (h.open_reg q hq).2⟩
      open_cur := h.open_cur
      cur_open := h.cur_open
      vis_good := h.vis_good
      good_vis := h.good_vis
      bad_gone := h.bad_gone
      fresh_log := h.fresh_log
      fresh_bad := h.fresh_bad
      cur_hidden := h.cur_hidden
      off_comm := h.off_comm
      off_pend := h.off_pend }

theorem InvEG.addOffs' {k : Core} (h : InvEG k) : InvEG { k with env := k.env.addOffs } := by
  rw [addOffs_eq _ h.env_idle]
  exact
  { env_idle := by simp
    env_pend := by intro _; exact ⟨rfl, rfl⟩
    env_nodup := h.env_nodup
    open_reg := by
      intro q hq
      exact ⟨rfl, (h.open_reg q hq).2⟩
    open_cur := h.open_cur
    cur_open := h.cur_open
    vis_good := h.vis_good
    good_vis := h.good_vis
    bad_gone := h.bad_gone
    fresh_log := h.fresh_log
    fresh_bad := h.fresh_bad
    cur_hidden := h.cur_hidden
    off_comm := h.off_comm
    off_pend := h.off_pend }

theorem InvEG.offsCommit' {k : Core} (h : InvEG k) (o : Nat) (hon : k.env.ongoing = true)
    (hg : k.env.grp = true) : InvEG { k with env := k.env.offsCommit o, curOff := some o } :=
  { env_idle := h.env_idle
    env_pend := fun _ => ⟨hon, hg⟩
    env_nodup := h.env_nodup
    open_reg := h.open_reg
    open_cur := h.open_cur
    cur_open := h.cur_open
    vis_good := h.vis_good
    good_vis := h.good_vis
    bad_gone := h.bad_gone
    fresh_log := h.fresh_log
    fresh_bad := h.fresh_bad
    cur_hidden := h.cur_hidden
    off_comm := h.off_comm
    off_pend := rfl }

theorem InvEG.accept' {k : Core} (h : InvEG k) : InvEG { k with nRec := k.nRec + 1 } :=
  { h with
    fresh_log := fun p r hr => Nat.lt_succ_of_lt (h.fresh_log p r hr)
    fresh_bad := fun r hr => Nat.lt_succ_of_lt (h.fresh_bad r hr) }

theorem append_logs (e e' : Env) (p r : Nat) (ha : e.append p r = some e') :
    e.ongoing = true ∧ p ∈ e.parts ∧
    e' = { e with logs := setLog e.logs p (e.logs p ++ [.data r]) } := by
  unfold Env.append at ha
  split at ha
  next hc => exact ⟨hc.1, hc.2, by simpa using ha.symm⟩
  next => cases ha

/-- a record that is in no log yet is appended -/
theorem InvEG.append' {k : Core} (h : InvEG k) (p r : Nat) (e' : Env) (ha : k.env.append p r = some e')
    (hnew : ∀ q, Entry.data r ∉ k.env.logs q) (hnb : r ∉ k.bad) (hr : r < k.nRec) :
    InvEG { k with env := e', cur := r :: k.cur } := by
  obtain ⟨hon, hpp, he'⟩ := append_logs _ _ _ _ ha
  subst he'
  have hlp : ∀ q, setLog k.env.logs p (k.env.logs p ++ [.data r]) q =
      if q = p then k.env.logs p ++ [.data r] else k.env.logs q := fun q => rfl
  have hvis : ∀ q, visible (setLog k.env.logs p (k.env.logs p ++ [.data r]) q) = visible (k.env.logs q) := by
    intro q
    rw [hlp]
    by_cases hq : q = p
    · subst hq; simp [visible_append_data]
    · simp [hq]
  have hund : ∀ q, undecided (setLog k.env.logs p (k.env.logs p ++ [.data r]) q) =
      if q = p then undecided (k.env.logs p) ++ [r] else undecided (k.env.logs q) := by
    intro q
    rw [hlp]
    by_cases hq : q = p
    · subst hq; simp [undecided_append_data]
    · simp [hq]
  have hrnot : ∀ q, r ∉ visible (k.env.logs q) ∧ r ∉ undecided (k.env.logs q) := by
    intro q
    exact ⟨fun hm => hnew q (data_of_mem_scan _ _ (Or.inl hm)),
           fun hm => hnew q (data_of_mem_scan _ _ (Or.inr hm))⟩
  exact
  { env_idle := h.env_idle
    env_pend := h.env_pend
    env_nodup := h.env_nodup
    open_reg := by
      intro q hq
      simp only [hund] at hq
      by_cases hqp : q = p
      · subst hqp; exact ⟨hon, hpp⟩
      · simp only [hqp, if_false] at hq; exact h.open_reg q hq
    open_cur := by
      intro q x hx
      simp only [hund] at hx
      by_cases hqp : q = p
      · simp only [hqp, if_true, List.mem_append, List.mem_singleton] at hx
        rcases hx with hx | hx
        · exact List.mem_cons_of_mem _ (h.open_cur p x hx)
        · subst hx; exact List.mem_cons_self
      · simp only [hqp, if_false] at hx
        exact List.mem_cons_of_mem _ (h.open_cur q x hx)
    cur_open := by
      intro x hx
      rcases List.mem_cons.mp hx with rfl | hx
      · exact ⟨p, by simp [hund]⟩
      · obtain ⟨q, hq⟩ := h.cur_open x hx
        refine ⟨q, ?_⟩
        simp only [hund]
        by_cases hqp : q = p
        · subst hqp; simp [hq]
        · simp [hqp, hq]
    vis_good := by
      intro q x hx
      simp only [hvis] at hx
      exact h.vis_good q x hx
    good_vis := by
      intro x hx
      obtain ⟨q, hq⟩ := h.good_vis x hx
      exact ⟨q, by simp only [hvis]; exact hq⟩
    bad_gone := by
      intro x hx q
      simp only [hvis, hund]
      refine ⟨(h.bad_gone x hx q).1, ?_⟩
      by_cases hqp : q = p
      · subst hqp
        simp only [if_true, List.mem_append, List.mem_singleton, not_or]
        refine ⟨(h.bad_gone x hx q).2, ?_⟩
        intro hxr; subst hxr; exact hnb hx
      · simp only [hqp, if_false]; exact (h.bad_gone x hx q).2
    fresh_log := by
      intro q x hx
      simp only [hlp] at hx
      by_cases hqp : q = p
      · simp only [hqp, if_true, List.mem_append, List.mem_singleton] at hx
        rcases hx with hx | hx
        · exact h.fresh_log p x hx
        · cases hx; exact hr
      · simp only [hqp, if_false] at hx; exact h.fresh_log q x hx
    fresh_bad := h.fresh_bad
    cur_hidden := by
      intro x hx q
      simp only [hvis]
      rcases List.mem_cons.mp hx with rfl | hx
      · exact (hrnot q).1
      · exact h.cur_hidden x hx q
    off_comm := h.off_comm
    off_pend := h.off_pend }


theorem finish_logs_data (e : Env) (c : Bool) (hnd : e.parts.Nodup) (q r : Nat) :
    Entry.data r ∈ (e.finish c).logs q ↔ Entry.data r ∈ e.logs q := by
  rw [finish_logs e c hnd q]
  by_cases hq : q ∈ e.parts <;> simp [hq]

/-! ## the invariant of the acceptor -/

structure TInv (s : TSt) : Prop where
  eg : InvEG s.toCore
  bad_logged : ∀ r, r ∈ s.bad → ∃ p, Entry.data r ∈ s.env.logs p
  good_sub : ∀ r, r ∈ s.appGood → r ∈ s.good
  bad_sub : ∀ r, r ∈ s.appBad → r ∈ s.bad ∨ (∀ p, Entry.data r ∉ s.env.logs p)
  bad_lt : ∀ r, r ∈ s.appBad → r < s.nRec
  mine_lt : ∀ r, r ∈ s.mine → r < s.nRec
  app_mine : ∀ r, r ∈ s.app → r ∈ s.mine
  ackd_app : ∀ r, r ∈ s.ackd → r ∈ s.app
  fresh : s.inTx = true → ∀ r, r ∈ s.mine → r ∉ s.appBad
  fate_app : s.inTx = true → ∀ r, r ∈ s.app →
    r ∈ s.cur ∨ (s.fate = some true ∧ r ∈ s.good) ∨ (s.fate = some false ∧ r ∈ s.bad)
  mine_unapp : s.inTx = true → ∀ r, r ∈ s.mine → r ∉ s.app → ∀ p, Entry.data r ∉ s.env.logs p

theorem tinit_inv : TInv ({} : TSt) := by
  refine { eg := init_inv.toInvEG, bad_logged := ?_, good_sub := ?_, bad_sub := ?_, bad_lt := ?_,
           mine_lt := ?_, app_mine := ?_, ackd_app := ?_, fresh := ?_, fate_app := ?_,
           mine_unapp := ?_ } <;> intros <;> simp_all

/-- only fields the invariant does not mention change -/
theorem TInv.of_eq {s s' : TSt} (h : TInv s) (h1 : s'.toCore = s.toCore) (h2 : s'.appGood = s.appGood)
    (h3 : s'.appBad = s.appBad) (h4 : s'.mine = s.mine) (h5 : s'.app = s.app) (h6 : s'.ackd = s.ackd)
    (h7 : s'.inTx = s.inTx) (h8 : s'.fate = s.fate) : TInv s' := by
  have e1 : s'.env = s.env := by
    show s'.toCore.env = s.toCore.env; rw [h1]
  have e2 : s'.bad = s.bad := by show s'.toCore.bad = s.toCore.bad; rw [h1]
  have e3 : s'.good = s.good := by show s'.toCore.good = s.toCore.good; rw [h1]
  have e4 : s'.cur = s.cur := by show s'.toCore.cur = s.toCore.cur; rw [h1]
  have e5 : s'.nRec = s.nRec := by show s'.toCore.nRec = s.toCore.nRec; rw [h1]
  refine { eg := h1 ▸ h.eg, bad_logged := ?_, good_sub := ?_, bad_sub := ?_, bad_lt := ?_,
           mine_lt := ?_, app_mine := ?_, ackd_app := ?_, fresh := ?_, fate_app := ?_,
           mine_unapp := ?_ }
  · rw [e1, e2]; exact h.bad_logged
  · rw [h2, e3]; exact h.good_sub
  · rw [h3, e2, e1]; exact h.bad_sub
  · rw [h3, e5]; exact h.bad_lt
  · rw [h4, e5]; exact h.mine_lt
  · rw [h5, h4]; exact h.app_mine
  · rw [h6, h5]; exact h.ackd_app
  · rw [h7, h4, h3]; exact h.fresh
  · rw [h7, h5, e4, h8, e3, e2]; exact h.fate_app
  · rw [h7, h4, h5, e1]; exact h.mine_unapp

/-- the application's transaction is closed: the per-transaction clauses become vacuous -/
theorem TInv.close {s s' : TSt} (h : TInv s) (h1 : s'.toCore = s.toCore) (h2 : s'.appGood = s.appGood)
    (h3 : s'.appBad = s.appBad) (h4 : s'.mine = s.mine) (h5 : s'.app = s.app) (h6 : s'.ackd = s.ackd)
    (h7 : s'.inTx = false) : TInv s' := by
  have e1 : s'.env = s.env := by
    show s'.toCore.env = s.toCore.env; rw [h1]
  have e2 : s'.bad = s.bad := by show s'.toCore.bad = s.toCore.bad; rw [h1]
  have e3 : s'.good = s.good := by show s'.toCore.good = s.toCore.good; rw [h1]
  have e5 : s'.nRec = s.nRec := by show s'.toCore.nRec = s.toCore.nRec; rw [h1]
  refine { eg := h1 ▸ h.eg, bad_logged := ?_, good_sub := ?_, bad_sub := ?_, bad_lt := ?_,
           mine_lt := ?_, app_mine := ?_, ackd_app := ?_, fresh := ?_, fate_app := ?_,
           mine_unapp := ?_ }
  · rw [e1, e2]; exact h.bad_logged
  · rw [h2, e3]; exact h.good_sub
  · rw [h3, e2, e1]; exact h.bad_sub
  · rw [h3, e5]; exact h.bad_lt
  · rw [h4, e5]; exact h.mine_lt
  · rw [h5, h4]; exact h.app_mine
  · rw [h6, h5]; exact h.ackd_app
  · intro hx; rw [h7] at hx; cases hx
  · intro hx; rw [h7] at hx; cases hx
  · intro hx; rw [h7] at hx; cases hx


/-- the environment moves without touching logs and bookkeeping -/
theorem TInv.core_change {s : TSt} (h : TInv s) (k' : Core) (heg : InvEG k')
    (hl : k'.env.logs = s.env.logs) (hb : k'.bad = s.bad) (hg : k'.good = s.good)
    (hc : k'.cur = s.cur) (hn : k'.nRec = s.nRec) : TInv { s with toCore := k' } := by
  refine { eg := heg, bad_logged := ?_, good_sub := ?_, bad_sub := ?_, bad_lt := ?_,
           mine_lt := ?_, app_mine := h.app_mine, ackd_app := h.ackd_app, fresh := h.fresh,
           fate_app := ?_, mine_unapp := ?_ }
  · show ∀ r, r ∈ k'.bad → ∃ p, Entry.data r ∈ k'.env.logs p
    rw [hb, hl]; exact h.bad_logged
  · show ∀ r, r ∈ s.appGood → r ∈ k'.good
    rw [hg]; exact h.good_sub
  · show ∀ r, r ∈ s.appBad → r ∈ k'.bad ∨ ∀ p, Entry.data r ∉ k'.env.logs p
    rw [hb, hl]; exact h.bad_sub
  · show ∀ r, r ∈ s.appBad → r < k'.nRec
    rw [hn]; exact h.bad_lt
  · show ∀ r, r ∈ s.mine → r < k'.nRec
    rw [hn]; exact h.mine_lt
  · show s.inTx = true → ∀ r, r ∈ s.app → r ∈ k'.cur ∨ (s.fate = some true ∧ r ∈ k'.good) ∨
        (s.fate = some false ∧ r ∈ k'.bad)
    rw [hc, hg, hb]; exact h.fate_app
  · show s.inTx = true → ∀ r, r ∈ s.mine → r ∉ s.app → ∀ p, Entry.data r ∉ k'.env.logs p
    rw [hl]; exact h.mine_unapp

theorem TInv.accept {s : TSt} (h : TInv s) (hin : s.inTx = true) :
    TInv { s with toCore := { s.toCore with nRec := s.nRec + 1 }, mine := s.nRec :: s.mine,
                  unres := s.nRec :: s.unres } := by
  refine { eg := h.eg.accept', bad_logged := h.bad_logged, good_sub := h.good_sub,
           bad_sub := h.bad_sub, bad_lt := ?_, mine_lt := ?_, app_mine := ?_, ackd_app := h.ackd_app,
           fresh := ?_, fate_app := h.fate_app, mine_unapp := ?_ }
  · intro r hr; exact Nat.lt_succ_of_lt (h.bad_lt r hr)
  · intro r hr
    rcases List.mem_cons.mp hr with rfl | hr
    · exact Nat.lt_succ_self _
    · exact Nat.lt_succ_of_lt (h.mine_lt r hr)
  · intro r hr; exact List.mem_cons_of_mem _ (h.app_mine r hr)
  · intro _ r hr hb
    rcases List.mem_cons.mp hr with rfl | hr
    · exact Nat.lt_irrefl _ (h.bad_lt _ hb)
    · exact h.fresh hin r hr hb
  · intro _ r hr hna p hd
    rcases List.mem_cons.mp hr with rfl | hr
    · exact Nat.lt_irrefl _ (h.eg.fresh_log p _ hd)
    · exact h.mine_unapp hin r hr hna p hd

/-- a record id is used up by somebody else (a zombie's `send`) -/
theorem TInv.skip_id {s : TSt} (h : TInv s) :
    TInv { s with toCore := { s.toCore with nRec := s.nRec + 1 } } := by
  refine { eg := h.eg.accept', bad_logged := h.bad_logged, good_sub := h.good_sub,
           bad_sub := h.bad_sub, bad_lt := ?_, mine_lt := ?_, app_mine := h.app_mine,
           ackd_app := h.ackd_app, fresh := h.fresh, fate_app := h.fate_app,
           mine_unapp := h.mine_unapp }
  · intro r hr; exact Nat.lt_succ_of_lt (h.bad_lt r hr)
  · intro r hr; exact Nat.lt_succ_of_lt (h.mine_lt r hr)

theorem TInv.append {s : TSt} (h : TInv s) (p r : Nat) (e' : Env) (ha : s.env.append p r = some e')
    (hin : s.inTx = true) (hm : r ∈ s.mine) (hna : r ∉ s.app) :
    TInv { s with toCore := { s.toCore with env := e', cur := r :: s.cur }, app := r :: s.app } := by
  have hnew := h.mine_unapp hin r hm hna
  have hnb : r ∉ s.bad := by
    intro hb
    obtain ⟨q, hq⟩ := h.bad_logged r hb
    exact hnew q hq
  obtain ⟨_, _, he'⟩ := append_logs _ _ _ _ ha
  have hlog : ∀ q x, Entry.data x ∈ e'.logs q ↔ (Entry.data x ∈ s.env.logs q ∨ (q = p ∧ x = r)) := by
    intro q x
    rw [he']
    show Entry.data x ∈ setLog s.env.logs p (s.env.logs p ++ [.data r]) q ↔ _
    unfold setLog
    by_cases hq : q = p
    · subst hq; simp
    · simp [hq]
  refine { eg := h.eg.append' p r e' ha hnew hnb (h.mine_lt r hm), bad_logged := ?_,
           good_sub := h.good_sub, bad_sub := ?_, bad_lt := h.bad_lt, mine_lt := h.mine_lt,
           app_mine := ?_, ackd_app := ?_, fresh := h.fresh, fate_app := ?_, mine_unapp := ?_ }
  · intro x hx
    obtain ⟨q, hq⟩ := h.bad_logged x hx
    exact ⟨q, (hlog q x).mpr (Or.inl hq)⟩
  · intro x hx
    rcases h.bad_sub x hx with h1 | h1
    · exact Or.inl h1
    · right
      intro q hq
      rcases (hlog q x).mp hq with h2 | ⟨_, h2⟩
      · exact h1 q h2
      · subst h2; exact h.fresh hin _ hm hx
  · intro x hx
    rcases List.mem_cons.mp hx with rfl | hx
    · exact hm
    · exact h.app_mine x hx
  · intro x hx; exact List.mem_cons_of_mem _ (h.ackd_app x hx)
  · intro _ x hx
    rcases List.mem_cons.mp hx with rfl | hx
    · exact Or.inl List.mem_cons_self
    · rcases h.fate_app hin x hx with h1 | h1 | h1
      · exact Or.inl (List.mem_cons_of_mem _ h1)
      · exact Or.inr (Or.inl h1)
      · exact Or.inr (Or.inr h1)
  · intro _ x hx hxa q hq
    have hxr : x ≠ r := fun e => hxa (e ▸ List.mem_cons_self)
    have hxa' : x ∉ s.app := fun e => hxa (List.mem_cons_of_mem _ e)
    rcases (hlog q x).mp hq with h2 | ⟨_, h2⟩
    · exact h.mine_unapp hin x hx hxa' q h2
    · exact hxr h2

theorem TInv.ended {s : TSt} (h : TInv s) (c : Bool) (hin : s.inTx = true) (hf : s.fate = none) :
    TInv { s with toCore := (({ s.toCore with env := s.env.finish c } : Core).settle c),
                  fate := some c } := by
  have hd := finish_logs_data s.env c h.eg.env_nodup
  refine { eg := h.eg.finish c, bad_logged := ?_, good_sub := ?_, bad_sub := ?_, bad_lt := ?_,
           mine_lt := ?_, app_mine := h.app_mine, ackd_app := h.ackd_app, fresh := h.fresh,
           fate_app := ?_, mine_unapp := ?_ }
  · intro x hx
    show ∃ q, Entry.data x ∈ (Core.settle _ c).env.logs q
    rw [settle_env]
    change x ∈ (Core.settle _ c).bad at hx
    rw [settle_bad] at hx
    have hold : x ∈ s.bad → ∃ q, Entry.data x ∈ (s.env.finish c).logs q := by
      intro hb
      obtain ⟨q, hq⟩ := h.bad_logged x hb
      exact ⟨q, (hd q x).mpr hq⟩
    cases c
    · simp only [Bool.false_eq_true, if_false, List.mem_append] at hx
      rcases hx with hx | hx
      · obtain ⟨q, hq⟩ := h.eg.cur_open x hx
        exact ⟨q, (hd q x).mpr (data_of_mem_scan _ _ (Or.inr hq))⟩
      · exact hold hx
    · simp only [if_true] at hx; exact hold hx
  · intro x hx
    show x ∈ (Core.settle _ c).good
    rw [settle_good]
    have := h.good_sub x hx
    cases c
    · simpa using this
    · simp only [if_true, List.mem_append]; exact Or.inr this
  · intro x hx
    show x ∈ (Core.settle _ c).bad ∨ ∀ q, Entry.data x ∉ (Core.settle _ c).env.logs q
    rw [settle_bad, settle_env]
    rcases h.bad_sub x hx with h1 | h1
    · left
      cases c
      · simp only [Bool.false_eq_true, if_false, List.mem_append]; exact Or.inr h1
      · simpa using h1
    · right
      intro q hq
      exact h1 q ((hd q x).mp hq)
  · intro x hx
    show x < (Core.settle _ c).nRec
    rw [settle_nRec]; exact h.bad_lt x hx
  · intro x hx
    show x < (Core.settle _ c).nRec
    rw [settle_nRec]; exact h.mine_lt x hx
  · intro _ x hx
    show x ∈ (Core.settle _ c).cur ∨ (some c = some true ∧ x ∈ (Core.settle _ c).good) ∨
      (some c = some false ∧ x ∈ (Core.settle _ c).bad)
    rw [settle_good, settle_bad]
    have hcur : x ∈ s.cur := by
      rcases h.fate_app hin x hx with h1 | h1 | h1
      · exact h1
      · rw [hf] at h1; cases h1.1
      · rw [hf] at h1; cases h1.1
    cases c
    · right; right
      refine ⟨rfl, ?_⟩
      simp only [Bool.false_eq_true, if_false, List.mem_append]
      exact Or.inl hcur
    · right; left
      refine ⟨rfl, ?_⟩
      simp only [if_true, List.mem_append]
      exact Or.inl hcur
  · intro _ x hx hxa q hq
    change Entry.data x ∈ (Core.settle _ c).env.logs q at hq
    rw [settle_env] at hq
    exact h.mine_unapp hin x hx hxa q ((hd q x).mp hq)


theorem TInv.begin {s : TSt} (h : TInv s) :
    TInv { s with inTx := true, mine := [], app := [], ackd := [], unres := [], fate := none,
                  intent := none, myOff := none, known := [] } := by
  refine { eg := h.eg, bad_logged := h.bad_logged, good_sub := h.good_sub, bad_sub := h.bad_sub,
           bad_lt := h.bad_lt, mine_lt := ?_, app_mine := ?_, ackd_app := ?_, fresh := ?_,
           fate_app := ?_, mine_unapp := ?_ }
  · intro r hr; cases hr
  · intro r hr; cases hr
  · intro r hr; cases hr
  · intro _ r hr; cases hr
  · intro _ r hr; cases hr
  · intro _ r hr; cases hr

theorem TInv.acked {s : TSt} (h : TInv s) (r : Nat) (hr : r ∈ s.app) (u : List Nat) :
    TInv { s with unres := u, ackd := r :: s.ackd } := by
  refine { eg := h.eg, bad_logged := h.bad_logged, good_sub := h.good_sub, bad_sub := h.bad_sub,
           bad_lt := h.bad_lt, mine_lt := h.mine_lt, app_mine := h.app_mine, ackd_app := ?_,
           fresh := h.fresh, fate_app := h.fate_app, mine_unapp := h.mine_unapp }
  intro x hx
  rcases List.mem_cons.mp hx with rfl | hx
  · exact hr
  · exact h.ackd_app x hx

theorem TInv.commitOk {s : TSt} (h : TInv s) (hin : s.inTx = true)
    (hf : (s.fate = some true ∧ s.env.ongoing = false) ∨ (s.fate = none ∧ s.app = [])) (o : Option Nat) :
    TInv { s.closeApp with appGood := s.ackd ++ s.appGood, appOff := o } := by
  refine { eg := h.eg, bad_logged := h.bad_logged, good_sub := ?_, bad_sub := h.bad_sub,
           bad_lt := h.bad_lt, mine_lt := h.mine_lt, app_mine := h.app_mine, ackd_app := h.ackd_app,
           fresh := ?_, fate_app := ?_, mine_unapp := ?_ }
  · intro x hx
    rcases List.mem_append.mp hx with hx | hx
    · have hxa := h.ackd_app x hx
      rcases hf with ⟨hf, hon⟩ | ⟨_, hf⟩
      · have hcur : s.cur = [] := h.eg.cur_nil_of_idle hon
        rcases h.fate_app hin x hxa with h1 | h1 | h1
        · rw [hcur] at h1; cases h1
        · exact h1.2
        · rw [hf] at h1; cases h1.1
      · rw [hf] at hxa; cases hxa
    · exact h.good_sub x hx
  · intro hx; cases hx
  · intro hx; cases hx
  · intro hx; cases hx

theorem TInv.abortOk {s : TSt} (h : TInv s) (hin : s.inTx = true)
    (hf : (s.fate = some false ∧ s.env.ongoing = false) ∨ (s.fate = none ∧ s.app = [])) :
    TInv { s.closeApp with appBad := s.mine ++ s.appBad } := by
  refine { eg := h.eg, bad_logged := h.bad_logged, good_sub := h.good_sub, bad_sub := ?_,
           bad_lt := ?_, mine_lt := h.mine_lt, app_mine := h.app_mine, ackd_app := h.ackd_app,
           fresh := ?_, fate_app := ?_, mine_unapp := ?_ }
  · intro x hx
    rcases List.mem_append.mp hx with hx | hx
    · by_cases hxa : x ∈ s.app
      · left
        rcases hf with ⟨hf, hon⟩ | ⟨_, hf⟩
        · have hcur : s.cur = [] := h.eg.cur_nil_of_idle hon
          rcases h.fate_app hin x hxa with h1 | h1 | h1
          · rw [hcur] at h1; cases h1
          · rw [hf] at h1; cases h1.1
          · exact h1.2
        · rw [hf] at hxa; cases hxa
      · exact Or.inr (h.mine_unapp hin x hx hxa)
    · exact h.bad_sub x hx
  · intro x hx
    rcases List.mem_append.mp hx with hx | hx
    · exact h.mine_lt x hx
    · exact h.bad_lt x hx
  · intro hx; cases hx
  · intro hx; cases hx
  · intro hx; cases hx

/-- the epoch is bumped: an ongoing transaction is aborted by the coordinator, the application's
    running transaction (unless already committed) is fenced -/
theorem TInv.fence {s : TSt} (h : TInv s) :
    ∀ s', tstep s .fence = .ok s' → TInv s' := by
  intro s' hs
  simp only [tstep] at hs
  -- the core after the coordinator's abort
  have hk : ∃ k : Core, k = (if s.env.ongoing then
        ({ s.toCore with env := s.env.finish false } : Core).settle false else s.toCore) ∧
      InvEG k ∧ (∀ q x, Entry.data x ∈ k.env.logs q ↔ Entry.data x ∈ s.env.logs q) ∧
      k.good = s.good ∧ k.nRec = s.nRec ∧ (∀ x, x ∈ s.bad → x ∈ k.bad) ∧
      (∀ x, x ∈ s.cur → x ∈ k.bad) ∧ (∀ x, x ∈ k.bad → ∃ q, Entry.data x ∈ k.env.logs q) := by
    refine ⟨_, rfl, ?_⟩
    by_cases hon : s.env.ongoing = true
    · rw [if_pos hon]
      have hd := finish_logs_data s.env false h.eg.env_nodup
      refine ⟨h.eg.finish false, ?_, ?_, ?_, ?_, ?_, ?_⟩
      · intro q x; rw [settle_env]; exact hd q x
      · rw [settle_good]; rfl
      · rw [settle_nRec]
      · intro x hx; rw [settle_bad]; simp only [Bool.false_eq_true, if_false, List.mem_append]; exact Or.inr hx
      · intro x hx; rw [settle_bad]; simp only [Bool.false_eq_true, if_false, List.mem_append]; exact Or.inl hx
      · intro x hx
        rw [settle_bad] at hx
        simp only [Bool.false_eq_true, if_false, List.mem_append] at hx
        rw [settle_env]
        rcases hx with hx | hx
        · obtain ⟨q, hq⟩ := h.eg.cur_open x hx
          exact ⟨q, (hd q x).mpr (data_of_mem_scan _ _ (Or.inr hq))⟩
        · obtain ⟨q, hq⟩ := h.bad_logged x hx
          exact ⟨q, (hd q x).mpr hq⟩
    · have hon' : s.env.ongoing = false := by simpa using hon
      rw [if_neg hon]
      refine ⟨h.eg, fun _ _ => Iff.rfl, rfl, rfl, fun _ hx => hx, ?_, h.bad_logged⟩
      intro x hx
      rw [h.eg.cur_nil_of_idle hon'] at hx; cases hx
  obtain ⟨k, hkdef, hkeg, hklog, hkgood, hkn, hkbad, hkcur, hkbl⟩ := hk
  rw [← hkdef] at hs
  have heg' : InvEG ({ k with env := { k.env with last := none } } : Core) :=
    hkeg.of_eq rfl rfl rfl rfl rfl rfl rfl rfl rfl rfl rfl rfl
  -- common part of the two outcomes
  have base : ∀ (ab : List Nat), (∀ x, x ∈ ab → x ∈ k.bad ∨ ∀ q, Entry.data x ∉ k.env.logs q) →
      (∀ x, x ∈ ab → x < s.nRec) →
      TInv { ({ s with toCore := { k with env := { k.env with last := none } }, live := none } : TSt).closeApp
             with appBad := ab } := by
    intro ab hab hlt
    refine { eg := heg', bad_logged := hkbl, good_sub := ?_, bad_sub := hab, bad_lt := ?_,
             mine_lt := ?_, app_mine := h.app_mine, ackd_app := h.ackd_app, fresh := ?_,
             fate_app := ?_, mine_unapp := ?_ }
    · intro x hx
      show x ∈ k.good
      rw [hkgood]; exact h.good_sub x hx
    · intro x hx
      show x < k.nRec
      rw [hkn]; exact hlt x hx
    · intro x hx
      show x < k.nRec
      rw [hkn]; exact h.mine_lt x hx
    · intro hx; cases hx
    · intro hx; cases hx
    · intro hx; cases hx
  have hold : ∀ x, x ∈ s.appBad → x ∈ k.bad ∨ ∀ q, Entry.data x ∉ k.env.logs q := by
    intro x hx
    rcases h.bad_sub x hx with h1 | h1
    · exact Or.inl (hkbad x h1)
    · exact Or.inr (fun q hq => h1 q ((hklog q x).mp hq))
  by_cases hc : s.inTx = true ∧ s.fate ≠ some true
  · simp only [hc, and_self, if_true, ne_eq, not_false_eq_true, Except.ok.injEq] at hs
    subst hs
    apply base
    · intro x hx
      rcases List.mem_append.mp hx with hx | hx
      · by_cases hxa : x ∈ s.app
        · left
          rcases h.fate_app hc.1 x hxa with h1 | h1 | h1
          · exact hkcur x h1
          · exact absurd h1.1 hc.2
          · exact hkbad x h1.2
        · right
          intro q hq
          exact h.mine_unapp hc.1 x hx hxa q ((hklog q x).mp hq)
      · exact hold x hx
    · intro x hx
      rcases List.mem_append.mp hx with hx | hx
      · exact h.mine_lt x hx
      · exact h.bad_lt x hx
  · simp only [hc, if_false, Except.ok.injEq] at hs
    subst hs
    exact base s.appBad hold h.bad_lt


theorem tstep_inv (s : TSt) (e : Ev) (s' : TSt) (h : TInv s) (hs : tstep s e = .ok s') : TInv s' := by
  cases e with
  | fence => exact TInv.fence h s' hs
  | init i =>
    simp only [tstep] at hs
    split at hs
    · cases hs
    · split at hs
      · cases hs
      · simp only [Except.ok.injEq] at hs; subst hs
        exact h.of_eq rfl rfl rfl rfl rfl rfl rfl rfl
  | regOk i p =>
    simp only [tstep] at hs
    split at hs
    · cases hs
    · split at hs
      · cases hs
      · split at hs
        · cases hs
        · simp only [Except.ok.injEq] at hs; subst hs
          exact h.core_change _ (h.eg.addParts' p) (addParts_logs _ _) rfl rfl rfl rfl
  | grpOk i =>
    simp only [tstep] at hs
    split at hs
    · cases hs
    · split at hs
      · cases hs
      · split at hs
        · cases hs
        · simp only [Except.ok.injEq] at hs; subst hs
          refine h.core_change _ h.eg.addOffs' ?_ rfl rfl rfl rfl
          show s.env.addOffs.logs = s.env.logs
          rw [addOffs_eq _ h.eg.env_idle]
  | offStored i o =>
    simp only [tstep] at hs
    split at hs
    · cases hs
    · split at hs
      · cases hs
      · next hg =>
        simp only [Except.ok.injEq] at hs; subst hs
        have hg' : s.env.ongoing = true ∧ s.env.grp = true := by
          simpa using hg
        exact h.core_change _ (h.eg.offsCommit' o hg'.1 hg'.2) rfl rfl rfl rfl rfl
  | append i p r =>
    simp only [tstep] at hs
    split at hs
    · cases hs
    · split at hs
      · cases hs
      · next e' ha =>
        split at hs
        · cases hs
        · next hin =>
          split at hs
          · cases hs
          · next hm =>
            split at hs
            · cases hs
            · next hna =>
              split at hs
              · cases hs
              · simp only [Except.ok.injEq] at hs; subst hs
                exact TInv.append h p r e' ha (by simpa using hin) (by simpa using hm) hna
  | appendPlain i p r =>
    simp only [tstep] at hs
    cases hs
  | ended i c =>
    simp only [tstep] at hs
    split at hs
    · cases hs
    · split at hs
      · cases hs
      · split at hs
        · cases hs
        · next hin =>
          split at hs
          · cases hs
          · next hf =>
            split at hs
            · cases hs
            · split at hs
              · cases hs
              · simp only [Except.ok.injEq] at hs; subst hs
                have hf' : s.fate = none := by
                  cases hfa : s.fate with
                  | none => rfl
                  | some b => rw [hfa] at hf; simp at hf
                exact TInv.ended h c (by simpa using hin) hf'
  | produceReq i p =>
    simp only [tstep] at hs
    split at hs
    · simp only [Except.ok.injEq] at hs; subst hs; exact h
    · split at hs
      · cases hs
      · split at hs
        · cases hs
        · simp only [Except.ok.injEq] at hs; subst hs; exact h
  | endReq i c =>
    simp only [tstep] at hs
    split at hs
    · simp only [Except.ok.injEq] at hs; subst hs; exact h
    · split at hs
      · cases hs
      · split at hs
        · cases hs
        · split at hs
          · cases hs
          · simp only [Except.ok.injEq] at hs; subst hs; exact h
  | regAck i p =>
    simp only [tstep] at hs
    split at hs
    · simp only [Except.ok.injEq] at hs; subst hs; exact h
    · split at hs
      · cases hs
      · split at hs
        · cases hs
        · simp only [Except.ok.injEq] at hs; subst hs
          exact h.of_eq rfl rfl rfl rfl rfl rfl rfl rfl
  | produceSend i p =>
    simp only [tstep] at hs
    split at hs
    · simp only [Except.ok.injEq] at hs; subst hs; exact h
    · split at hs
      · cases hs
      · split at hs
        · cases hs
        · simp only [Except.ok.injEq] at hs; subst hs; exact h
  | begin i =>
    simp only [tstep] at hs
    split at hs
    · simp only [Except.ok.injEq] at hs; subst hs; exact h
    · split at hs
      · cases hs
      · simp only [Except.ok.injEq] at hs; subst hs; exact TInv.begin h
  | accept i r p =>
    simp only [tstep] at hs
    split at hs
    · cases hs
    · next hr =>
      have hr' : r = s.nRec := by simpa using hr
      subst hr'
      split at hs
      · simp only [Except.ok.injEq] at hs; subst hs
        exact TInv.skip_id h
      · split at hs
        · cases hs
        · next hin =>
          simp only [Except.ok.injEq] at hs; subst hs
          exact TInv.accept h (by simpa using hin)
  | acked i r =>
    simp only [tstep] at hs
    split at hs
    · simp only [Except.ok.injEq] at hs; subst hs; exact h
    · split at hs
      · simp only [Except.ok.injEq] at hs; subst hs; exact h
      · split at hs
        · cases hs
        · next hra =>
          simp only [Except.ok.injEq] at hs; subst hs
          exact TInv.acked h r (by simpa using hra) _
  | failed i r =>
    simp only [tstep] at hs
    split at hs
    · simp only [Except.ok.injEq] at hs; subst hs; exact h
    · simp only [Except.ok.injEq] at hs; subst hs
      exact h.of_eq rfl rfl rfl rfl rfl rfl rfl rfl
  | offsOk i o =>
    simp only [tstep] at hs
    split at hs
    · simp only [Except.ok.injEq] at hs; subst hs; exact h
    · split at hs
      · cases hs
      · split at hs
        · cases hs
        · simp only [Except.ok.injEq] at hs; subst hs
          exact h.of_eq rfl rfl rfl rfl rfl rfl rfl rfl
  | commitCall i =>
    simp only [tstep] at hs
    split at hs
    · simp only [Except.ok.injEq] at hs; subst hs; exact h
    · simp only [Except.ok.injEq] at hs; subst hs
      exact h.of_eq rfl rfl rfl rfl rfl rfl rfl rfl
  | abortCall i =>
    simp only [tstep] at hs
    split at hs
    · simp only [Except.ok.injEq] at hs; subst hs; exact h
    · simp only [Except.ok.injEq] at hs; subst hs
      exact h.of_eq rfl rfl rfl rfl rfl rfl rfl rfl
  | commitOk i =>
    simp only [tstep] at hs
    split at hs
    · simp only [Except.ok.injEq] at hs; subst hs; exact h
    · split at hs
      · cases hs
      · next hin =>
        split at hs
        · cases hs
        · split at hs
          · next hf =>
            split at hs
            · cases hs
            · simp only [Except.ok.injEq] at hs; subst hs
              refine TInv.commitOk h (by simpa using hin) ?_ _
              rcases hf with hf | ⟨h1, h2, _⟩
              · exact Or.inl hf
              · exact Or.inr ⟨h1, h2⟩
          · cases hs
  | abortOk i =>
    simp only [tstep] at hs
    split at hs
    · simp only [Except.ok.injEq] at hs; subst hs; exact h
    · split at hs
      · cases hs
      · next hin =>
        split at hs
        · next hf =>
          split at hs
          · cases hs
          · simp only [Except.ok.injEq] at hs; subst hs
            exact TInv.abortOk h (by simpa using hin) hf
        · cases hs

theorem trun_inv (tr : List Ev) : ∀ (s s' : TSt), TInv s → trun s tr = .ok s' → TInv s' := by
  induction tr with
  | nil =>
    intro s s' h hs
    simp only [trun, Except.ok.injEq] at hs
    subst hs; exact h
  | cons e es ih =>
    intro s s' h hs
    simp only [trun] at hs
    cases hst : tstep s e with
    | error m => rw [hst] at hs; cases hs
    | ok s1 =>
      rw [hst] at hs
      exact ih s1 s' (tstep_inv s e s1 h hst) hs

/-- an accepted history is accepted step by step -/
theorem trun_split (a : List Ev) : ∀ (s s' : TSt) (e : Ev) (b : List Ev),
    trun s (a ++ e :: b) = .ok s' → ∃ s1 s2, trun s a = .ok s1 ∧ tstep s1 e = .ok s2 ∧ trun s2 b = .ok s' := by
  induction a with
  | nil =>
    intro s s' e b h
    simp only [List.nil_append, trun] at h
    cases hst : tstep s e with
    | error m => rw [hst] at h; cases h
    | ok s2 => rw [hst] at h; exact ⟨s, s2, rfl, hst, h⟩
  | cons x a ih =>
    intro s s' e b h
    simp only [List.cons_append, trun] at h
    cases hst : tstep s x with
    | error m => rw [hst] at h; cases h
    | ok sx =>
      rw [hst] at h
      obtain ⟨s1, s2, h1, h2, h3⟩ := ih sx s' e b h
      exact ⟨s1, s2, by simp only [trun, hst]; exact h1, h2, h3⟩

end AkVerif.Txn
