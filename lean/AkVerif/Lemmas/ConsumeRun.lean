import AkVerif.Lemmas.Consume
/-!
More lemmas for C03 / C13: existence of honest answers, operations that keep the start position,
the `partitions` filter of `next_record` / `fetched_records`, the observation checkers, and the
start-position automaton.
-/
namespace AkVerif.Consume

/-! ## an honest answer exists while the log continues after the position -/

theorem exists_split (L : List Batch) (pos : Nat) (h : ∃ b ∈ L, pos < b.next) :
    ∃ pre b suf, L = pre ++ b :: suf ∧ (∀ x ∈ pre, x.next ≤ pos) ∧ pos < b.next := by
  induction L with
  | nil => obtain ⟨b, hb, _⟩ := h; cases hb
  | cons x xs ih =>
    by_cases hx : pos < x.next
    · exact ⟨[], x, xs, rfl, by simp, hx⟩
    · obtain ⟨b, hb, hlt⟩ := h
      have hb' : b ∈ xs := by
        rcases List.mem_cons.mp hb with rfl | h'
        · exact absurd hlt hx
        · exact h'
      obtain ⟨pre, c, suf, e1, e2, e3⟩ := ih ⟨b, hb', hlt⟩
      refine ⟨x :: pre, c, suf, by simp [e1], ?_, e3⟩
      intro y hy
      rcases List.mem_cons.mp hy with rfl | hy'
      · omega
      · exact e2 y hy'

theorem exists_honest (L : List Batch) (pos : Nat) (h : ∃ b ∈ L, pos < b.next) :
    ∃ resp, Honest L pos resp := by
  obtain ⟨pre, b, suf, e1, e2, e3⟩ := exists_split L pos h
  exact ⟨[b], pre, suf, by simp [e1], by simp, e2, by simpa using e3⟩

/-! ## operations that do not move the start position -/

/-- anything but a seek, a seek_to_* and an out-of-range answer -/
def KeepsStart : Op → Prop
  | Op.seek _ => False
  | Op.seekTo _ => False
  | Op.reply _ Reply.outOfRange => False
  | _ => True

/-- the position is valid, was last set to `x` by a seek or a reset, and no reset is pending -/
def Settled (x : Nat) (s : PSt) : Prop := s.start = some x ∧ s.pos.isSome = true ∧ s.strat = none

theorem setError_fields (s : PSt) (c : Nat) :
    (s.setError c).1.start = s.start ∧ (s.setError c).1.pos = s.pos ∧ (s.setError c).1.strat = s.strat ∧
    (s.setError c).1.delivered = s.delivered ∧ (s.setError c).1.paused = s.paused ∧
    (s.setError c).1.active = s.active := by
  unfold PSt.setError
  cases s.buf <;> simp

theorem getone_fields (s : PSt) (g : Gen) :
    (s.getone g).1.start = s.start ∧ (s.getone g).1.strat = s.strat ∧
    (s.pos.isSome = true → (s.getone g).1.pos.isSome = true) := by
  unfold PSt.getone
  cases s.check g with
  | none => simp
  | some b =>
    cases b with
    | false => simp
    | true =>
      simp only
      cases hq : gnext g.nfo g.pend with
      | mk res rest =>
        obtain ⟨n', r⟩ := rest
        cases res <;> simp

theorem getall_fields (s : PSt) (g : Gen) (max : Nat) :
    (s.getall g max).1.start = s.start ∧ (s.getall g max).1.strat = s.strat ∧
    (s.pos.isSome = true → (s.getall g max).1.pos.isSome = true) := by
  unfold PSt.getall
  cases s.check g with
  | none => simp
  | some b =>
    cases b <;> simp

theorem step_settled (gd : Bool) (policy : Option Int) (x : Nat) (s : PSt) (op : Op)
    (hs : Settled x s) (hk : KeepsStart op) : Settled x (step gd policy s op).1 := by
  obtain ⟨h1, h2, h3⟩ := hs
  cases op with
  | reply f r =>
    simp only [step]
    by_cases ha : s.active = true
    · by_cases hp : (s.pos != some f) = true
      · simpa [ha, hp] using ⟨h1, h2, h3⟩
      · simp only [ha, hp, Bool.not_true, Bool.false_eq_true, if_false]
        cases r with
        | data resp =>
          by_cases he : resp.isEmpty = true
          · simpa [he] using ⟨h1, h2, h3⟩
          · simpa [he] using ⟨h1, h2, h3⟩
        | tooLarge =>
          obtain ⟨e1, e2, e3, _⟩ := setError_fields s 3
          unfold PSt.setError at e1 e2 e3 ⊢
          cases hb : s.buf with
          | some e => simpa [hb] using ⟨h1, h2, h3⟩
          | none => simp [Settled, h1, h3]
        | outOfRange => exact absurd hk (by simp [KeepsStart])
        | otherError => exact ⟨h1, h2, h3⟩
    · have ha' : s.active = false := by simpa using ha
      simpa [ha'] using ⟨h1, h2, h3⟩
  | getone =>
    simp only [step]
    cases hb : s.buf with
    | none => exact ⟨h1, h2, h3⟩
    | some e =>
      cases e with
      | err c => exact ⟨h1, h2, h3⟩
      | res g =>
        obtain ⟨e1, e2, e3⟩ := getone_fields s g
        exact ⟨by rw [e1]; exact h1, e3 h2, by rw [e2]; exact h3⟩
  | getall max =>
    simp only [step]
    cases hb : s.buf with
    | none => exact ⟨h1, h2, h3⟩
    | some e =>
      cases e with
      | err c => exact ⟨h1, h2, h3⟩
      | res g =>
        obtain ⟨e1, e2, e3⟩ := getall_fields s g max
        exact ⟨by rw [e1]; exact h1, e3 h2, by rw [e2]; exact h3⟩
  | raise =>
    simp only [step]
    cases hb : s.buf with
    | none => exact ⟨h1, h2, h3⟩
    | some e => cases e <;> exact ⟨h1, h2, h3⟩
  | seek y => exact absurd hk (by simp [KeepsStart])
  | seekTo st => exact absurd hk (by simp [KeepsStart])
  | pause => exact ⟨h1, h2, h3⟩
  | resume => exact ⟨h1, h2, h3⟩
  | unassign => exact ⟨h1, h2, h3⟩
  | committed v =>
    simp only [step, h2, Bool.true_or, if_true]
    exact ⟨h1, h2, h3⟩
  | offsets sent off =>
    simp only [step, h3]
    exact ⟨h1, h2, h3⟩

theorem run_settled (gd : Bool) (policy : Option Int) (x : Nat) (s : PSt) (ops : List Op)
    (hs : Settled x s) (hk : ∀ op ∈ ops, KeepsStart op) : Settled x (run gd policy s ops) := by
  induction ops generalizing s with
  | nil => exact hs
  | cons op rest ih =>
    simp only [run, List.foldl_cons]
    exact ih _ (step_settled gd policy x s op hs (hk op List.mem_cons_self))
      (fun o h => hk o (List.mem_cons_of_mem _ h))

/-! ## the `partitions` argument -/

theorem passes_filter {filter : List Nat} (hne : filter ≠ []) {tp : Nat}
    (h : ¬ ((!filter.isEmpty && !filter.contains tp) = true)) : tp ∈ filter := by
  have h1 : filter.isEmpty = false := by
    cases filter with
    | nil => exact absurd rfl hne
    | cons a b => rfl
  simp only [h1, Bool.not_false, Bool.true_and, Bool.not_eq_true', Bool.not_eq_false] at h
  simpa using h

theorem nextLoop_filter (gd : Bool) (policy : Option Int) (filter : List Nat) (hne : filter ≠ []) :
    ∀ (keys : List Nat) (st st' : FSt) (tp o : Nat),
      nextLoop gd policy filter keys st = (st', FRes.handed tp o) → tp ∈ filter := by
  intro keys
  induction keys with
  | nil => intro st st' tp o h; simp [nextLoop] at h
  | cons k ks ih =>
    intro st st' tp o h
    unfold nextLoop at h
    split at h
    · exact ih _ _ _ _ h
    · rename_i hf
      have hk : k ∈ filter := passes_filter hne hf
      split at h
      · exact ih _ _ _ _ h
      · split at h
        · exact ih _ _ _ _ h
        · split at h
          · simp at h
          · exact ih _ _ _ _ h
        · split at h
          · injection h with _ h2
            injection h2 with h2 _
            subst h2; exact hk
          · simp at h
          · exact ih _ _ _ _ h

theorem manyLoop_filter (gd : Bool) (policy : Option Int) (filter : List Nat) (hne : filter ≠ []) :
    ∀ (keys : List Nat) (max : Nat) (acc : List (Nat × List Nat)) (st st' : FSt)
      (l : List (Nat × List Nat)), (∀ x ∈ acc, x.1 ∈ filter) →
      manyLoop gd policy filter keys max acc st = (st', FRes.recs l) → ∀ x ∈ l, x.1 ∈ filter := by
  intro keys
  induction keys with
  | nil =>
    intro max acc st st' l hacc h
    simp only [manyLoop] at h
    injection h with _ h2
    injection h2 with h2
    subst h2
    intro x hx
    exact hacc x (List.mem_reverse.mp hx)
  | cons k ks ih =>
    intro max acc st st' l hacc h
    unfold manyLoop at h
    split at h
    · exact ih _ _ _ _ _ hacc h
    · rename_i hf
      have hk : k ∈ filter := passes_filter hne hf
      split at h
      · exact ih _ _ _ _ _ hacc h
      · split at h
        · exact ih _ _ _ _ _ hacc h
        · split at h
          · injection h with _ h2
            injection h2 with h2
            subst h2
            intro x hx
            exact hacc x (List.mem_reverse.mp hx)
          · split at h
            · simp at h
            · exact ih _ _ _ _ _ hacc h
        · split at h
          · rename_i lst _
            have hacc' : ∀ x ∈ (k, lst) :: acc, x.1 ∈ filter := by
              intro x hx
              rcases List.mem_cons.mp hx with rfl | hx'
              · exact hk
              · exact hacc x hx'
            split at h
            · exact ih _ _ _ _ _ hacc' h
            · split at h
              · injection h with _ h2
                injection h2 with h2
                subst h2
                intro x hx
                exact hacc' x (List.mem_reverse.mp hx)
              · exact ih _ _ _ _ _ hacc' h
          · split at h
            · injection h with _ h2
              injection h2 with h2
              subst h2
              intro x hx
              exact hacc x (List.mem_reverse.mp hx)
            · simp at h
          · exact ih _ _ _ _ _ hacc h

/-! ## the observation checker of C03 -/

theorem firstGE_eq_head (vis : List Nat) (c : Nat) :
    firstGE vis c = (vis.filter (fun o => decide (c ≤ o))).head? := by
  induction vis with
  | nil => rfl
  | cons v vs ih =>
    by_cases h : c ≤ v
    · simp [firstGE, h, List.filter_cons]
    · simp [firstGE, h, List.filter_cons, ih]

theorem filter_ge_tail {vis : List Nat} (hv : Inc vis) (c d : Nat) (t : List Nat)
    (h : vis.filter (fun o => decide (c ≤ o)) = d :: t) :
    t = vis.filter (fun o => decide (d + 1 ≤ o)) := by
  induction vis with
  | nil => simp at h
  | cons v vs ih =>
    have hvv := List.pairwise_cons.mp hv
    by_cases hc : c ≤ v
    · simp only [List.filter_cons, hc, decide_true, if_true] at h
      injection h with h1 h2
      subst h1
      have hnot : ¬ (v + 1 ≤ v) := by omega
      simp only [List.filter_cons, hnot, decide_false, Bool.false_eq_true, if_false]
      rw [← h2]
      apply List.filter_congr
      intro x hx
      have := hvv.1 x hx
      have a1 : c ≤ x := by omega
      have a2 : v + 1 ≤ x := by omega
      simp [a1, a2]
    · simp only [List.filter_cons, hc, decide_false, Bool.false_eq_true, if_false] at h
      have hd : d ∈ vs := by
        have : d ∈ vs.filter (fun o => decide (c ≤ o)) := by rw [h]; simp
        exact (List.mem_filter.mp this).1
      have := hvv.1 d hd
      have hnot : ¬ (d + 1 ≤ v) := by omega
      simp only [List.filter_cons, hnot, decide_false, Bool.false_eq_true, if_false]
      exact ih hvv.2 h

theorem orun_deliver {vis : List Nat} (hv : Inc vis) (c : Nat) (sg : Option Nat) (ds : List Nat) :
    (orun vis { cur := some c, paused := false, sought := sg } (ds.map Obs.deliver)).isSome = true ↔
      ds = (vis.filter (fun o => decide (c ≤ o))).take ds.length := by
  induction ds generalizing c sg with
  | nil => simp [orun]
  | cons d ds ih =>
    simp only [List.map_cons, orun, ostep, Bool.false_eq_true, if_false, List.length_cons]
    rw [firstGE_eq_head]
    cases hf : vis.filter (fun o => decide (c ≤ o)) with
    | nil => simp
    | cons a t =>
      have ht := filter_ge_tail hv c a t hf
      simp only [List.head?_cons, Option.some.injEq, List.take_succ_cons, List.cons.injEq]
      by_cases hd : a = d
      · subst hd
        simp only [if_true, true_and]
        rw [ih (a + 1) none, ht]
      · simp [hd]
        intro hc; exact absurd hc.symm hd

theorem holds_segment {vis : List Nat} (hv : Inc vis) (x : Nat) (ds : List Nat) :
    holdsC03 vis (Obs.seek x :: ds.map Obs.deliver) = true ↔
      ds = (vis.filter (fun o => decide (x ≤ o))).take ds.length := by
  unfold holdsC03
  simp only [orun, ostep]
  exact orun_deliver hv x (some x) ds

/-! ## the start-position automaton (C13) -/

/-- the environment of a run without user seeks: every committed-offset lookup answers `cmt`,
    ListOffsets lookups are sent for the policy's strategy only (nobody calls seek_to_*) and are
    answered with the broker's value `B` for that strategy -/
def EnvOp (cmt : Option Nat) (policy : Option Int) (B : Int → Nat) : Op → Prop
  | Op.committed v => v = cmt
  | Op.offsets sent off => off = B sent ∧ policy = some sent
  | Op.seek _ => False
  | Op.seekTo _ => False
  | _ => True

structure StartInv (cmt : Option Nat) (policy : Option Int) (B : Int → Nat) (s : PSt) : Prop where
  strat : ∀ st, s.strat = some st → policy = some st
  start : ∀ x, s.start = some x → cmt = some x ∨ ∃ st, policy = some st ∧ x = B st
  valid : ∀ p, s.pos = some p → ∃ x, s.start = some x

theorem resetOrError_fields (policy : Option Int) (s : PSt) (c : Nat) :
    (s.resetOrError policy c).1.start = s.start ∧
    (∀ st, (s.resetOrError policy c).1.strat = some st → policy = some st ∨ s.strat = some st) ∧
    (∀ p, (s.resetOrError policy c).1.pos = some p → s.pos = some p) := by
  unfold PSt.resetOrError
  cases policy with
  | none =>
    obtain ⟨e1, e2, e3, _⟩ := setError_fields s c
    exact ⟨e1, fun st h => Or.inr (by rw [← e3]; exact h), fun p h => by rw [← e2]; exact h⟩
  | some st0 =>
    refine ⟨rfl, ?_, ?_⟩
    · intro st h
      simp only [PSt.awaitReset] at h
      injection h with h
      exact Or.inl (by rw [h])
    · intro p h; simp [PSt.awaitReset] at h

theorem step_startInv (gd : Bool) (cmt : Option Nat) (policy : Option Int) (B : Int → Nat)
    (s : PSt) (op : Op) (hi : StartInv cmt policy B s) (he : EnvOp cmt policy B op) :
    StartInv cmt policy B (step gd policy s op).1 := by
  cases op with
  | reply f r =>
    simp only [step]
    by_cases ha : s.active = true
    · by_cases hp : (s.pos != some f) = true
      · simpa [ha, hp] using hi
      · simp only [ha, hp, Bool.not_true, Bool.false_eq_true, if_false]
        cases r with
        | data resp =>
          by_cases hem : resp.isEmpty = true
          · simpa [hem] using hi
          · simp only [hem, Bool.false_eq_true, if_false]
            exact ⟨hi.strat, hi.start, hi.valid⟩
        | tooLarge =>
          unfold PSt.setError
          cases hb : s.buf with
          | some e => simpa [hb] using hi
          | none =>
            simp only
            refine ⟨hi.strat, hi.start, ?_⟩
            intro p _
            have hpos : s.pos = some f := by simpa using hp
            exact hi.valid f hpos
        | outOfRange =>
          obtain ⟨e1, e2, e3⟩ := resetOrError_fields policy s 1
          refine ⟨?_, ?_, ?_⟩
          · intro st h
            rcases e2 st h with h' | h'
            · exact h'
            · exact hi.strat st h'
          · intro x h; rw [e1] at h; exact hi.start x h
          · intro p h; rw [e1]; exact hi.valid p (e3 p h)
        | otherError => exact hi
    · have ha' : s.active = false := by simpa using ha
      simpa [ha'] using hi
  | getone =>
    simp only [step]
    cases hb : s.buf with
    | none => exact hi
    | some e =>
      cases e with
      | err c => exact hi
      | res g =>
        obtain ⟨e1, e2, _⟩ := getone_fields s g
        refine ⟨fun st h => hi.strat st (by rw [← e2]; exact h), fun x h => hi.start x (by rw [← e1]; exact h), ?_⟩
        intro p hp
        rw [e1]
        -- a hand-out only happens from a valid position
        unfold PSt.getone at hp
        cases hc : s.check g with
        | none => simp [hc] at hp; exact hi.valid p hp
        | some b =>
          cases b with
          | false => simp [hc] at hp; exact hi.valid p hp
          | true =>
            obtain ⟨_, _, hpos⟩ := check_true hc
            exact hi.valid _ hpos
  | getall max =>
    simp only [step]
    cases hb : s.buf with
    | none => exact hi
    | some e =>
      cases e with
      | err c => exact hi
      | res g =>
        obtain ⟨e1, e2, _⟩ := getall_fields s g max
        refine ⟨fun st h => hi.strat st (by rw [← e2]; exact h), fun x h => hi.start x (by rw [← e1]; exact h), ?_⟩
        intro p hp
        rw [e1]
        unfold PSt.getall at hp
        cases hc : s.check g with
        | none => simp [hc] at hp; exact hi.valid p hp
        | some b =>
          cases b with
          | false => simp [hc] at hp; exact hi.valid p hp
          | true =>
            obtain ⟨_, _, hpos⟩ := check_true hc
            exact hi.valid _ hpos
  | raise =>
    simp only [step]
    cases hb : s.buf with
    | none => exact hi
    | some e => cases e <;> exact ⟨hi.strat, hi.start, hi.valid⟩
  | seek y => exact absurd he (by simp [EnvOp])
  | seekTo st => exact absurd he (by simp [EnvOp])
  | pause => exact ⟨hi.strat, hi.start, hi.valid⟩
  | resume => exact ⟨hi.strat, hi.start, hi.valid⟩
  | unassign => exact ⟨hi.strat, hi.start, hi.valid⟩
  | committed v =>
    simp only [step]
    by_cases hg : (s.pos.isSome || s.strat.isSome) = true
    · simpa [hg] using hi
    · simp only [hg, Bool.false_eq_true, if_false]
      have hv : v = cmt := he
      cases v with
      | none =>
        obtain ⟨e1, e2, e3⟩ := resetOrError_fields policy s 2
        refine ⟨?_, ?_, ?_⟩
        · intro st h
          rcases e2 st h with h' | h'
          · exact h'
          · exact hi.strat st h'
        · intro x h; rw [e1] at h; exact hi.start x h
        · intro p h; rw [e1]; exact hi.valid p (e3 p h)
      | some c =>
        refine ⟨?_, ?_, ?_⟩
        · intro st h; simp [PSt.resetTo] at h
        · intro x h
          simp only [PSt.resetTo] at h
          injection h with h
          left; rw [← hv, h]
        · intro p _; exact ⟨c, rfl⟩
  | offsets sent off =>
    simp only [step]
    cases hs : s.strat with
    | none => exact hi
    | some cur =>
      simp only
      by_cases hgd : (gd && cur != sent) = true
      · simpa [hgd] using hi
      · simp only [hgd, Bool.false_eq_true, if_false]
        obtain ⟨h1, h2⟩ : off = B sent ∧ policy = some sent := he
        refine ⟨?_, ?_, ?_⟩
        · intro st h; simp [PSt.resetTo] at h
        · intro x h
          simp only [PSt.resetTo] at h
          injection h with h
          right; exact ⟨sent, h2, by rw [← h, h1]⟩
        · intro p _; exact ⟨off, rfl⟩

theorem run_startInv (gd : Bool) (cmt : Option Nat) (policy : Option Int) (B : Int → Nat)
    (s : PSt) (ops : List Op) (hi : StartInv cmt policy B s) (he : ∀ op ∈ ops, EnvOp cmt policy B op) :
    StartInv cmt policy B (run gd policy s ops) := by
  induction ops generalizing s with
  | nil => exact hi
  | cons op rest ih =>
    simp only [run, List.foldl_cons]
    exact ih _ (step_startInv gd cmt policy B s op hi (he op List.mem_cons_self))
      (fun o h => he o (List.mem_cons_of_mem _ h))

/-- no out-of-range answer among the operations -/
def NoOOR : Op → Prop
  | Op.reply _ Reply.outOfRange => False
  | _ => True

/-- with a committed offset `c` and no out-of-range answer: no reset is ever pending and the only
    start position is `c` -/
structure CommittedInv (c : Nat) (s : PSt) : Prop where
  strat : s.strat = none
  start : ∀ x, s.start = some x → x = c

theorem step_committedInv (gd : Bool) (policy : Option Int) (B : Int → Nat) (c : Nat)
    (s : PSt) (op : Op) (hi : CommittedInv c s) (he : EnvOp (some c) policy B op) (hn : NoOOR op) :
    CommittedInv c (step gd policy s op).1 := by
  cases op with
  | reply f r =>
    simp only [step]
    by_cases ha : s.active = true
    · by_cases hp : (s.pos != some f) = true
      · simpa [ha, hp] using hi
      · simp only [ha, hp, Bool.not_true, Bool.false_eq_true, if_false]
        cases r with
        | data resp =>
          by_cases hem : resp.isEmpty = true
          · simpa [hem] using hi
          · simp only [hem, Bool.false_eq_true, if_false]
            exact ⟨hi.strat, hi.start⟩
        | tooLarge =>
          unfold PSt.setError
          cases hb : s.buf with
          | some e => simpa [hb] using hi
          | none => exact ⟨hi.strat, hi.start⟩
        | outOfRange => exact absurd hn (by simp [NoOOR])
        | otherError => exact hi
    · have ha' : s.active = false := by simpa using ha
      simpa [ha'] using hi
  | getone =>
    simp only [step]
    cases hb : s.buf with
    | none => exact hi
    | some e =>
      cases e with
      | err c => exact hi
      | res g =>
        obtain ⟨e1, e2, _⟩ := getone_fields s g
        exact ⟨by rw [e2]; exact hi.strat, fun x h => hi.start x (by rw [← e1]; exact h)⟩
  | getall max =>
    simp only [step]
    cases hb : s.buf with
    | none => exact hi
    | some e =>
      cases e with
      | err c => exact hi
      | res g =>
        obtain ⟨e1, e2, _⟩ := getall_fields s g max
        exact ⟨by rw [e2]; exact hi.strat, fun x h => hi.start x (by rw [← e1]; exact h)⟩
  | raise =>
    simp only [step]
    cases hb : s.buf with
    | none => exact hi
    | some e => cases e <;> exact ⟨hi.strat, hi.start⟩
  | seek y => exact absurd he (by simp [EnvOp])
  | seekTo st => exact absurd he (by simp [EnvOp])
  | pause => exact ⟨hi.strat, hi.start⟩
  | resume => exact ⟨hi.strat, hi.start⟩
  | unassign => exact ⟨hi.strat, hi.start⟩
  | committed v =>
    simp only [step]
    by_cases hg : (s.pos.isSome || s.strat.isSome) = true
    · simpa [hg] using hi
    · simp only [hg, Bool.false_eq_true, if_false]
      have hv : v = some c := he
      subst hv
      refine ⟨rfl, ?_⟩
      intro x h
      simp only [PSt.resetTo] at h
      injection h with h
      exact h.symm
  | offsets sent off =>
    simp only [step, hi.strat]
    exact hi

theorem run_committedInv (gd : Bool) (policy : Option Int) (B : Int → Nat) (c : Nat)
    (s : PSt) (ops : List Op) (hi : CommittedInv c s)
    (he : ∀ op ∈ ops, EnvOp (some c) policy B op) (hn : ∀ op ∈ ops, NoOOR op) :
    CommittedInv c (run gd policy s ops) := by
  induction ops generalizing s with
  | nil => exact hi
  | cons op rest ih =>
    simp only [run, List.foldl_cons]
    exact ih _ (step_committedInv gd policy B c s op hi (he op List.mem_cons_self) (hn op List.mem_cons_self))
      (fun o h => he o (List.mem_cons_of_mem _ h)) (fun o h => hn o (List.mem_cons_of_mem _ h))

/-! ### a pending seek_to_* (guarded variant) -/

/-- the partition waits for the answer of a lookup for strategy `st` -/
def Waiting (st : Int) (s : PSt) : Prop := s.pos = none ∧ s.strat = some st

/-- the ListOffsets answers among `ops` that were asked for strategy `st` -/
def answersFor (st : Int) : List Op → List Nat
  | [] => []
  | Op.offsets sent off :: r => if sent = st then off :: answersFor st r else answersFor st r
  | _ :: r => answersFor st r

theorem step_waiting (policy : Option Int) (st : Int) (s : PSt) (op : Op) (hw : Waiting st s)
    (hk : KeepsStart op) :
    Waiting st (step true policy s op).1 ∨
    ∃ off, op = Op.offsets st off ∧ Settled off (step true policy s op).1 := by
  obtain ⟨h1, h2⟩ := hw
  cases op with
  | reply f r =>
    left
    simp only [step]
    by_cases ha : s.active = true
    · have hp : (s.pos != some f) = true := by simp [h1]
      simpa [ha, hp] using ⟨h1, h2⟩
    · have ha' : s.active = false := by simpa using ha
      simpa [ha'] using ⟨h1, h2⟩
  | getone =>
    left
    simp only [step]
    cases hb : s.buf with
    | none => exact ⟨h1, h2⟩
    | some e =>
      cases e with
      | err c => exact ⟨h1, h2⟩
      | res g =>
        unfold PSt.getone PSt.check
        by_cases ha : s.active = true
        · by_cases hp : s.paused = true
          · simpa [ha, hp] using ⟨h1, h2⟩
          · have hp' : s.paused = false := by simpa using hp
            simpa [ha, hp', h1] using ⟨h1, h2⟩
        · have ha' : s.active = false := by simpa using ha
          simpa [ha'] using ⟨h1, h2⟩
  | getall max =>
    left
    simp only [step]
    cases hb : s.buf with
    | none => exact ⟨h1, h2⟩
    | some e =>
      cases e with
      | err c => exact ⟨h1, h2⟩
      | res g =>
        unfold PSt.getall PSt.check
        by_cases ha : s.active = true
        · by_cases hp : s.paused = true
          · simpa [ha, hp] using ⟨h1, h2⟩
          · have hp' : s.paused = false := by simpa using hp
            simpa [ha, hp', h1] using ⟨h1, h2⟩
        · have ha' : s.active = false := by simpa using ha
          simpa [ha'] using ⟨h1, h2⟩
  | raise =>
    left
    simp only [step]
    cases hb : s.buf with
    | none => exact ⟨h1, h2⟩
    | some e => cases e <;> exact ⟨h1, h2⟩
  | seek y => exact absurd hk (by simp [KeepsStart])
  | seekTo st' => exact absurd hk (by simp [KeepsStart])
  | pause => left; exact ⟨h1, h2⟩
  | resume => left; exact ⟨h1, h2⟩
  | unassign => left; exact ⟨h1, h2⟩
  | committed v =>
    left
    simp only [step, h2, Option.isSome_some, Bool.or_true, if_true]
    exact ⟨h1, h2⟩
  | offsets sent off =>
    simp only [step, h2]
    by_cases hs : st = sent
    · subst hs
      right
      refine ⟨off, rfl, ?_⟩
      simp [Settled, PSt.resetTo]
    · left
      have : (st != sent) = true := by simpa using hs
      simpa [this] using ⟨h1, h2⟩

theorem answersFor_cons_mem (st : Int) (op : Op) (r : List Op) (x : Nat) (h : x ∈ answersFor st r) :
    x ∈ answersFor st (op :: r) := by
  cases op with
  | offsets sent off =>
    simp only [answersFor]
    by_cases hs : sent = st
    · simp [hs, h]
    · simp [hs, h]
  | _ => simpa [answersFor] using h

theorem run_waiting (policy : Option Int) (st : Int) (s : PSt) (ops : List Op) (hw : Waiting st s)
    (hk : ∀ op ∈ ops, KeepsStart op) :
    Waiting st (run true policy s ops) ∨
    ∃ off ∈ answersFor st ops, Settled off (run true policy s ops) := by
  induction ops generalizing s with
  | nil => left; exact hw
  | cons op rest ih =>
    simp only [run, List.foldl_cons]
    have hk' : ∀ o ∈ rest, KeepsStart o := fun o h => hk o (List.mem_cons_of_mem _ h)
    rcases step_waiting policy st s op hw (hk op List.mem_cons_self) with h | ⟨off, hop, hset⟩
    · rcases ih _ h hk' with h' | ⟨off, hm, hs⟩
      · left; exact h'
      · right; exact ⟨off, answersFor_cons_mem st op rest off hm, hs⟩
    · right
      subst hop
      refine ⟨off, by simp [answersFor], ?_⟩
      exact run_settled true policy off _ rest hset hk'

end AkVerif.Consume
