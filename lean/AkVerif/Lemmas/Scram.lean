import AkVerif.Model.Scram
/-! Helper lemmas for C18 (SCRAM): string primitives, decimal round trip, XOR on byte lists. -/
namespace AkVerif.Scram

/-! ## saslname escaping -/

theorem saslName_nil : saslName [] = [] := by simp [saslName, replaceChar]

theorem saslName_cons_eq (u : Str) : saslName ('=' :: u) = '=' :: '3' :: 'D' :: saslName u := by
  simp [saslName, replaceChar]

theorem saslName_cons_comma (u : Str) : saslName (',' :: u) = '=' :: '2' :: 'C' :: saslName u := by
  simp [saslName, replaceChar]

theorem saslName_cons_other (c : Char) (u : Str) (h1 : c ≠ '=') (h2 : c ≠ ',') :
    saslName (c :: u) = c :: saslName u := by
  simp [saslName, replaceChar, h1, h2]

theorem unesc_eq (r : Str) : unesc ('=' :: '3' :: 'D' :: r) = (unesc r).map ('=' :: ·) := by
  rw [unesc.eq_def]; simp

theorem unesc_comma (r : Str) : unesc ('=' :: '2' :: 'C' :: r) = (unesc r).map (',' :: ·) := by
  rw [unesc.eq_def]; simp

theorem unesc_other (c : Char) (r : Str) (h1 : c ≠ '=') (h2 : c ≠ ',') :
    unesc (c :: r) = (unesc r).map (c :: ·) := by
  rw [unesc.eq_def]; simp [h1, h2]

theorem unesc_saslName (u : Str) : unesc (saslName u) = some u := by
  induction u with
  | nil => simp [saslName_nil, unesc]
  | cons c u ih =>
    by_cases h1 : c = '='
    · subst h1; rw [saslName_cons_eq, unesc_eq, ih]; rfl
    · by_cases h2 : c = ','
      · subst h2; rw [saslName_cons_comma, unesc_comma, ih]; rfl
      · rw [saslName_cons_other c u h1 h2, unesc_other c _ h1 h2, ih]; rfl

theorem comma_not_mem_saslName (u : Str) : ',' ∉ saslName u := by
  induction u with
  | nil => simp [saslName_nil]
  | cons c u ih =>
    by_cases h1 : c = '='
    · subst h1; rw [saslName_cons_eq]; simp [ih]
    · by_cases h2 : c = ','
      · subst h2; rw [saslName_cons_comma]; simp [ih]
      · rw [saslName_cons_other c u h1 h2]
        simp only [List.mem_cons, not_or]
        exact ⟨fun h => h2 h.symm, ih⟩

theorem validSaslName_saslName (u : Str) : validSaslName (saslName u) = true := by
  induction u with
  | nil => simp [saslName_nil, validSaslName]
  | cons c u ih =>
    by_cases h1 : c = '='
    · subst h1; rw [saslName_cons_eq, validSaslName.eq_def]; simp [ih]
    · by_cases h2 : c = ','
      · subst h2; rw [saslName_cons_comma, validSaslName.eq_def]; simp [ih]
      · rw [saslName_cons_other c u h1 h2, validSaslName.eq_def]; simp [h1, h2, ih]

/-! ## split -/

theorem splitOn_of_not_mem (sep : Char) (a : Str) (h : sep ∉ a) : splitOn sep a = [a] := by
  induction a with
  | nil => simp [splitOn]
  | cons c cs ih =>
    simp only [List.mem_cons, not_or] at h
    have hc : c ≠ sep := fun e => h.1 e.symm
    simp [splitOn, hc, ih h.2, consHead]

theorem splitOn_append (sep : Char) (a b : Str) (h : sep ∉ a) :
    splitOn sep (a ++ sep :: b) = a :: splitOn sep b := by
  induction a with
  | nil => simp [splitOn]
  | cons c cs ih =>
    simp only [List.mem_cons, not_or] at h
    have hc : c ≠ sep := fun e => h.1 e.symm
    simp [splitOn, hc, ih h.2, consHead]

theorem split1_append (sep : Char) (k v : Str) (h : sep ∉ k) :
    split1 sep (k ++ sep :: v) = some (k, v) := by
  induction k with
  | nil => simp [split1]
  | cons c cs ih =>
    simp only [List.mem_cons, not_or] at h
    have hc : c ≠ sep := fun e => h.1 e.symm
    simp [split1, hc, ih h.2]

theorem stripPre_append (p s : Str) : stripPre p (p ++ s) = some s := by
  induction p with
  | nil => cases s <;> simp [stripPre]
  | cons c cs ih => simp [stripPre, ih]

theorem isPrefixOf_append (a b : Str) : a.isPrefixOf (a ++ b) = true := by
  rw [List.isPrefixOf_iff_prefix]; exact List.prefix_append a b

/-! ## decimal text -/

def isDigit (c : Char) : Prop := 48 ≤ c.toNat ∧ c.toNat ≤ 57

theorem digitChar_toNat (d : Nat) (h : d < 10) : (digitChar d).toNat = 48 + d := by
  unfold digitChar
  have hv : (48 + d).isValidChar := by
    left; omega
  rw [Char.ofNat, dif_pos hv]
  rfl

theorem digitVal_digitChar (d : Nat) (h : d < 10) : digitVal (digitChar d) = some d := by
  unfold digitVal
  rw [digitChar_toNat d h]
  have : 48 ≤ 48 + d ∧ 48 + d ≤ 57 := by omega
  simp [this]

theorem isDigit_digitChar (d : Nat) (h : d < 10) : isDigit (digitChar d) := by
  unfold isDigit; rw [digitChar_toNat d h]; omega

theorem natDecAux_acc (f n : Nat) (acc : Str) : natDecAux f n acc = natDecAux f n [] ++ acc := by
  induction f generalizing n acc with
  | zero => simp [natDecAux]
  | succ f ih =>
    unfold natDecAux
    by_cases h : n < 10
    · simp [h]
    · simp only [h, if_false]
      rw [ih (n / 10) (digitChar (n % 10) :: acc), ih (n / 10) [digitChar (n % 10)]]
      simp

/-- all characters produced are digits, and with enough fuel the digits denote `n` -/
theorem natDecAux_spec (f n : Nat) (hf : n < f) :
    (∀ c ∈ natDecAux f n [], isDigit c) ∧ natDecAux f n [] ≠ [] ∧
    ∀ acc, digitsU acc true (natDecAux f n []) = some (acc * 10 ^ (natDecAux f n []).length + n) ∧
           digitsU acc false (natDecAux f n []) = some (acc * 10 ^ (natDecAux f n []).length + n) := by
  induction f generalizing n with
  | zero => omega
  | succ f ih =>
    unfold natDecAux
    by_cases h : n < 10
    · simp only [h, if_true]
      refine ⟨?_, by simp, ?_⟩
      · intro c hc
        simp only [List.mem_singleton] at hc
        subst hc; exact isDigit_digitChar n h
      · intro acc
        simp [digitsU, digitVal_digitChar n h]
    · simp only [h, if_false]
      have hlt : n / 10 < f := by omega
      obtain ⟨hd, hne, hv⟩ := ih (n / 10) hlt
      rw [natDecAux_acc]
      refine ⟨?_, by simp, ?_⟩
      · intro c hc
        simp only [List.mem_append, List.mem_singleton] at hc
        rcases hc with hc | hc
        · exact hd c hc
        · subst hc; exact isDigit_digitChar _ (by omega)
      · have app : ∀ (l : Str) (acc : Nat) (b : Bool) (d : Nat), d < 10 → (∀ c ∈ l, isDigit c) →
            (b = true ∨ l ≠ []) →
            ∀ m, digitsU acc b l = some m → digitsU acc b (l ++ [digitChar d]) = some (m * 10 + d) := by
          intro l
          induction l with
          | nil =>
            intro acc b d hd' _ hb m hm
            rcases hb with hb | hb
            · subst hb
              simp only [digitsU, if_true] at hm
              cases hm
              simp [digitsU, digitVal_digitChar d hd']
            · exact absurd rfl hb
          | cons c cs ihl =>
            intro acc b d hd' hall _ m hm
            have hcd : isDigit c := hall c (by simp)
            have hdv : digitVal c = some (c.toNat - 48) := by
              unfold digitVal; unfold isDigit at hcd; simp [hcd]
            simp only [List.cons_append, digitsU, hdv] at hm ⊢
            exact ihl _ true d hd' (fun x hx => hall x (by simp [hx])) (Or.inl rfl) m hm
        intro acc
        have hmod : n % 10 < 10 := by omega
        have e1 := app _ acc true (n % 10) hmod hd (Or.inl rfl) _ (hv acc).1
        have e2 := app _ acc false (n % 10) hmod hd (Or.inr hne) _ (hv acc).2
        rw [e1, e2]
        simp only [List.length_append, List.length_singleton, Nat.pow_succ]
        have : (acc * 10 ^ (natDecAux f (n / 10) []).length + n / 10) * 10 + n % 10
            = acc * (10 ^ (natDecAux f (n / 10) []).length * 10) + n := by
          rw [Nat.add_mul, Nat.mul_assoc]; omega
        simp [this]

theorem natDec_digits (n : Nat) : ∀ c ∈ natDec n, isDigit c :=
  (natDecAux_spec (n + 1) n (by omega)).1

theorem natDec_ne_nil (n : Nat) : natDec n ≠ [] :=
  (natDecAux_spec (n + 1) n (by omega)).2.1

theorem digitsU_natDec (n : Nat) : digitsU 0 false (natDec n) = some n := by
  have := ((natDecAux_spec (n + 1) n (by omega)).2.2 0).2
  simpa [natDec] using this

theorem not_mem_of_digits (l : Str) (h : ∀ c ∈ l, isDigit c) (x : Char) (hx : ¬ isDigit x) : x ∉ l :=
  fun hm => hx (h x hm)

theorem comma_not_mem_natDec (n : Nat) : ',' ∉ natDec n :=
  not_mem_of_digits _ (natDec_digits n) ',' (by unfold isDigit; decide)

theorem isWs_of_digit (c : Char) (h : isDigit c) : isWs c = false := by
  unfold isDigit at h
  unfold isWs
  have ne : ∀ d : Char, d.toNat < 48 → (c == d) = false := by
    intro d hd
    rw [beq_eq_false_iff_ne]
    intro e; subst e; omega
  simp only [Bool.or_eq_false_iff, decide_eq_false_iff_not]
  have f : ∀ d : Char, d.toNat < 48 → c ≠ d := by
    intro d hd e; subst e; omega
  refine ⟨⟨⟨⟨⟨f _ (by decide), f _ (by decide)⟩, f _ (by decide)⟩, f _ (by decide)⟩, f _ (by decide)⟩, f _ (by decide)⟩

theorem dropWs_digits (l : Str) (h : ∀ c ∈ l, isDigit c) : dropWs l = l := by
  cases l with
  | nil => rfl
  | cons c cs => simp [dropWs, isWs_of_digit c (h c (by simp))]

theorem stripWs_digits (l : Str) (h : ∀ c ∈ l, isDigit c) : stripWs l = l := by
  unfold stripWs
  rw [dropWs_digits l h, dropWs_digits l.reverse (fun c hc => h c (by simpa using hc))]
  simp

/-- `int(str(n)) == n` -/
theorem pyInt_natDec (n : Nat) : pyInt (natDec n) = some (n : Int) := by
  unfold pyInt
  rw [stripWs_digits _ (natDec_digits n)]
  have hne := natDec_ne_nil n
  have hd := natDec_digits n
  cases hl : natDec n with
  | nil => exact absurd hl hne
  | cons c cs =>
    have hc : isDigit c := hd c (by simp [hl])
    have h1 : c ≠ '+' := by intro e; subst e; revert hc; unfold isDigit; decide
    have h2 : c ≠ '-' := by intro e; subst e; revert hc; unfold isDigit; decide
    have := digitsU_natDec n
    rw [hl] at this
    split
    · rename_i r heq; cases heq; exact absurd rfl h1
    · rename_i r heq; cases heq; exact absurd rfl h2
    · rename_i r _ _; simp [this]

/-! ## XOR on byte lists -/

theorem xorBytes_cancel (a b : List UInt8) (h : a.length = b.length) :
    xorBytes (xorBytes a b) b = a := by
  induction a generalizing b with
  | nil => cases b <;> simp [xorBytes]
  | cons x xs ih =>
    cases b with
    | nil => simp at h
    | cons y ys =>
      simp only [List.length_cons, Nat.add_right_cancel_iff] at h
      simp only [xorBytes, ih ys h]
      rw [UInt8.xor_assoc, UInt8.xor_self, UInt8.xor_zero]

theorem bytesCrypto_laws (utf8 : Str → List UInt8) (H : List UInt8 → List UInt8)
    (hmac : List UInt8 → List UInt8 → List UInt8) (hi : List UInt8 → List UInt8 → Nat → List UInt8)
    (b64enc : List UInt8 → Str) (b64dec : Str → Option (List UInt8)) (hlen : Nat)
    (h_rt : ∀ x, b64dec (b64enc x) = some x) (h_nc : ∀ x, ',' ∉ b64enc x)
    (h_len : ∀ k m, (hmac k m).length = hlen) :
    Laws (bytesCrypto utf8 H hmac hi b64enc b64dec) List.length where
  b64_rt := h_rt
  b64_nocomma := h_nc
  hmac_len := fun k m k' m' => by simp [bytesCrypto, h_len]
  xor_cancel := fun a b h => xorBytes_cancel a b h

/-! ## characterisation of the two client steps -/

variable {β : Type}

theorem attr_of_parse {k : Char} {sf : Str} {ps : List (Str × Str)} (h : parseAttrs sf = some ps) :
    attr k sf = lookupLast [k] ps := by
  simp [attr, h]

/-- everything `process_server_first_message` checks, and what it computes -/
theorem onServerFirst_ok_iff (C : Crypto β) (st : St1 β) (sf : Str) (r : St2 β × Str) :
    onServerFirst C st sf = .ok r ↔
    ∃ n s64 salt istr i, attr 'r' sf = some n ∧ st.nonce.isPrefixOf n = true ∧
      attr 's' sf = some s64 ∧ C.b64dec s64 = some salt ∧
      attr 'i' sf = some istr ∧ pyInt istr = some i ∧ 1 ≤ i ∧ i < 2 ^ 31 ∧
      r = derive C st.pw (st.auth ++ ',' :: sf ++ cs!",c=biws,r=" ++ n) n salt i.toNat := by
  unfold onServerFirst
  cases hp : parseAttrs sf with
  | none => simp [attr, hp]
  | some ps =>
    simp only [attr, hp]
    cases hr : lookupLast ['r'] ps with
    | none => simp
    | some n =>
      dsimp only
      by_cases hpre : st.nonce.isPrefixOf n = true
      · simp only [hpre, Bool.true_eq_false, if_false]
        cases hs : lookupLast ['s'] ps with
        | none => simp
        | some s64 =>
          dsimp only
          cases hd : C.b64dec s64 with
          | none => simp [hd]
          | some salt =>
            dsimp only
            cases hi : lookupLast ['i'] ps with
            | none => simp
            | some istr =>
              dsimp only
              cases hpi : pyInt istr with
              | none => simp [hpi]
              | some i =>
                dsimp only
                by_cases hrange : i < 1 ∨ 2 ^ 31 ≤ i
                · simp only [hrange, if_true]
                  constructor
                  · intro h; cases h
                  · rintro ⟨n', s', salt', istr', i', h1, _, h3, h4, h5, h6, h7, h8, _⟩
                    cases h1; cases h3; rw [hd] at h4; cases h4; cases h5; rw [hpi] at h6; cases h6
                    omega
                · simp only [hrange, if_false]
                  constructor
                  · intro h
                    cases h
                    exact ⟨n, s64, salt, istr, i, rfl, hpre, rfl, hd, rfl, hpi, by omega, by omega, rfl⟩
                  · rintro ⟨n', s', salt', istr', i', h1, _, h3, h4, h5, h6, _, _, h9⟩
                    cases h1; cases h3; rw [hd] at h4; cases h4; cases h5; rw [hpi] at h6; cases h6
                    rw [h9]
      · have hf : st.nonce.isPrefixOf n = false := by
          cases hx : st.nonce.isPrefixOf n with
          | true => exact absurd hx hpre
          | false => rfl
        simp only [hf, if_true]
        constructor
        · intro h; cases h
        · rintro ⟨n', _, _, _, _, h1, h2, _⟩
          cases h1; rw [hf] at h2; cases h2

theorem sentSignature_ok_iff (C : Crypto β) (sfin : Str) (sig : β) :
    sentSignature C sfin = .ok sig ↔ ∃ v64, attr 'v' sfin = some v64 ∧ C.b64dec v64 = some sig := by
  unfold sentSignature
  cases hp : parseAttrs sfin with
  | none => simp [attr, hp]
  | some ps =>
    simp only [attr, hp]
    cases hv : lookupLast ['v'] ps with
    | none => simp
    | some v64 =>
      dsimp only
      cases hd : C.b64dec v64 with
      | none => simp [hd]
      | some s =>
        simp only [Option.some.injEq, exists_eq_left', hd]
        constructor
        · intro h; cases h; rfl
        · intro h; rw [h]

theorem onServerFinal_ok_iff [DecidableEq β] (C : Crypto β) (st : St2 β) (sfin : Str) :
    onServerFinal C st sfin = .ok () ↔
    ∃ v64, attr 'v' sfin = some v64 ∧ C.b64dec v64 = some st.serverSig := by
  unfold onServerFinal
  cases hs : sentSignature C sfin with
  | error e =>
    simp only [reduceCtorEq, false_iff]
    rintro ⟨v64, h1, h2⟩
    have := (sentSignature_ok_iff C sfin st.serverSig).2 ⟨v64, h1, h2⟩
    rw [hs] at this; cases this
  | ok sig =>
    obtain ⟨v64, h1, h2⟩ := (sentSignature_ok_iff C sfin sig).1 hs
    by_cases he : sig = st.serverSig
    · subst he; simp only [if_true, true_iff]; exact ⟨v64, h1, h2⟩
    · simp only [he, if_false, reduceCtorEq, false_iff]
      rintro ⟨v', h1', h2'⟩
      rw [h1] at h1'; cases h1'; rw [h2] at h2'; cases h2'; exact he rfl

/-! ## the messages of an honest exchange parse back -/

theorem splitOn_three (a b c : Str) (ha : ',' ∉ a) (hb : ',' ∉ b) (hc : ',' ∉ c) :
    splitOn ',' (a ++ ',' :: (b ++ ',' :: c)) = [a, b, c] := by
  rw [splitOn_append _ _ _ ha, splitOn_append _ _ _ hb, splitOn_of_not_mem _ _ hc]

/-- text of a server-first message -/
def sfText (n e d : Str) : Str := cs!"r=" ++ n ++ cs!",s=" ++ e ++ cs!",i=" ++ d

theorem parseAttrs_sfText (n e d : Str) (hn : ',' ∉ n) (he : ',' ∉ e) (hd : ',' ∉ d) :
    parseAttrs (sfText n e d) = some [(['r'], n), (['s'], e), (['i'], d)] := by
  have e1 : sfText n e d
      = ('r' :: '=' :: n) ++ ',' :: (('s' :: '=' :: e) ++ ',' :: ('i' :: '=' :: d)) := by
    simp [sfText]
  rw [e1]
  unfold parseAttrs
  rw [splitOn_three _ _ _ (by simp [hn]) (by simp [he]) (by simp [hd])]
  simp [split1]

theorem attrs_sfText (n e d : Str) (hn : ',' ∉ n) (he : ',' ∉ e) (hd : ',' ∉ d) :
    attr 'r' (sfText n e d) = some n ∧ attr 's' (sfText n e d) = some e ∧
    attr 'i' (sfText n e d) = some d := by
  have hp := parseAttrs_sfText n e d hn he hd
  refine ⟨?_, ?_, ?_⟩ <;> (unfold attr; rw [hp]; simp [lookupLast])

theorem attr_v (x : Str) (hx : ',' ∉ x) : attr 'v' ('v' :: '=' :: x) = some x := by
  unfold attr parseAttrs
  rw [splitOn_of_not_mem _ _ (by simp [hx])]
  simp [split1, lookupLast]

theorem parseClientFirst_start (user cn : Str) (hcn : ',' ∉ cn) :
    parseClientFirst (cs!"n,," ++ clientFirstBare user cn)
      = some (user, cn, clientFirstBare user cn) := by
  unfold parseClientFirst
  rw [stripPre_append]
  have e1 : clientFirstBare user cn = (cs!"n=" ++ saslName user) ++ ',' :: (cs!"r=" ++ cn) := by
    simp [clientFirstBare]
  dsimp only
  rw [e1, splitOn_append _ _ _ (by simp [comma_not_mem_saslName]), splitOn_of_not_mem _ _ (by simp [hcn])]
  dsimp only
  rw [stripPre_append, stripPre_append]
  dsimp only
  rw [unesc_saslName]

theorem splitOn_clientFinal (n p : Str) (hn : ',' ∉ n) (hp : ',' ∉ p) :
    splitOn ',' (cs!"c=biws,r=" ++ n ++ cs!",p=" ++ p)
      = [cs!"c=biws", cs!"r=" ++ n, cs!"p=" ++ p] := by
  have e1 : cs!"c=biws,r=" ++ n ++ cs!",p=" ++ p
      = cs!"c=biws" ++ ',' :: ((cs!"r=" ++ n) ++ ',' :: (cs!"p=" ++ p)) := by simp
  rw [e1, splitOn_three _ _ _ (by decide) (by simp [hn]) (by simp [hp])]

end AkVerif.Scram
