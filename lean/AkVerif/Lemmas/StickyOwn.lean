import AkVerif.Lemmas.StickyAlg
/-! second invariant of the sticky port: the owner map and the consumers' lists describe the
    same function (every held partition is owned by its holder and vice versa, no duplicates) -/
namespace AkVerif.StickyAlg
open AkVerif.Assign

set_option linter.unusedSectionVars false
section AL2
variable {α β : Type} [BEq α] [LawfulBEq α]

def keysOf (l : List (α × β)) : List α := l.map (·.1)

theorem alHas_iff_mem_keys (l : List (α × β)) (k : α) : alHas l k = true ↔ k ∈ keysOf l := by
  unfold alHas keysOf
  simp only [List.any_eq_true, List.mem_map]
  constructor
  · rintro ⟨x, hx, he⟩; exact ⟨x, hx, by simpa using he⟩
  · rintro ⟨x, hx, he⟩; exact ⟨x, hx, by simpa using he⟩

theorem keys_alSet_has (l : List (α × β)) (k : α) (v : β) (h : alHas l k = true) :
    keysOf (alSet l k v) = keysOf l := by
  unfold alSet keysOf
  simp only [h, if_true, List.map_map]
  apply List.map_congr_left
  intro x _
  simp only [Function.comp]
  split
  · rename_i hk; have : x.1 = k := by simpa using hk
    exact this.symm
  · rfl

theorem keys_alSet_new (l : List (α × β)) (k : α) (v : β) (h : alHas l k = false) :
    keysOf (alSet l k v) = keysOf l ++ [k] := by
  unfold alSet keysOf
  simp [h]

theorem mem_alSet (l : List (α × β)) (k : α) (v : β) (x : α × β) (h : x ∈ alSet l k v) :
    x = (k, v) ∨ (x ∈ l ∧ (x.1 == k) = false) := by
  unfold alSet at h
  split at h
  · simp only [List.mem_map] at h
    obtain ⟨y, hy, he⟩ := h
    split at he
    · exact Or.inl he.symm
    · rename_i hk; subst he; exact Or.inr ⟨hy, by simpa using hk⟩
  · rename_i hno
    rcases List.mem_append.mp h with h | h
    · right
      refine ⟨h, ?_⟩
      cases hx : (x.1 == k) with
      | false => rfl
      | true =>
        exfalso; apply hno
        unfold alHas; exact List.any_eq_true.mpr ⟨x, h, hx⟩
    · simp at h; exact Or.inl h

theorem mem_alSet_of_ne (l : List (α × β)) (k : α) (v : β) (x : α × β) (hx : x ∈ l)
    (hne : (x.1 == k) = false) : x ∈ alSet l k v := by
  unfold alSet
  split
  · exact List.mem_map.mpr ⟨x, hx, by simp [hne]⟩
  · exact List.mem_append_left _ hx

theorem mem_alSet_self (l : List (α × β)) (k : α) (v : β) : (k, v) ∈ alSet l k v := by
  exact alGet_mem _ _ _ (alGet_alSet_same l k v)

theorem mem_alDel (l : List (α × β)) (k : α) (x : α × β) : x ∈ alDel l k ↔ x ∈ l ∧ (x.1 == k) = false := by
  unfold alDel; simp [List.mem_filter]

theorem keys_alDel (l : List (α × β)) (k : α) : keysOf (alDel l k) = (keysOf l).filter (fun a => !(a == k)) := by
  unfold alDel keysOf
  induction l with
  | nil => rfl
  | cons x xs ih =>
    simp only [List.filter_cons, List.map_cons]
    split <;> simp [ih]

theorem nodup_unique_val (l : List (α × β)) (hn : (keysOf l).Nodup) (k : α) (v w : β)
    (h1 : (k, v) ∈ l) (h2 : (k, w) ∈ l) : v = w := by
  have a := alGet_of_mem_nodup l k v hn h1
  have b := alGet_of_mem_nodup l k w hn h2
  rw [a] at b; injection b

end AL2

theorem removeFirst_nodup {α} [BEq α] [LawfulBEq α] (l : List α) (x : α) (h : l.Nodup) :
    (removeFirst l x).Nodup ∧ x ∉ removeFirst l x ∧ ∀ y, y ∈ l → y ≠ x → y ∈ removeFirst l x := by
  induction l with
  | nil => exact ⟨List.nodup_nil, by simp [removeFirst], by intro y hy; cases hy⟩
  | cons a r ih =>
    rw [List.nodup_cons] at h
    unfold removeFirst
    split
    · rename_i hax
      have : a = x := by simpa using hax
      subst this
      exact ⟨h.2, h.1, by
        intro y hy hne
        rcases List.mem_cons.mp hy with rfl | hy
        · exact absurd rfl hne
        · exact hy⟩
    · rename_i hax
      have hne : a ≠ x := by simpa using hax
      obtain ⟨i1, i2, i3⟩ := ih h.2
      refine ⟨List.nodup_cons.mpr ⟨fun hm => h.1 (mem_removeFirst _ _ _ hm), i1⟩, ?_, ?_⟩
      · intro hm
        rcases List.mem_cons.mp hm with rfl | hm
        · exact hne rfl
        · exact i2 hm
      · intro y hy hyx
        rcases List.mem_cons.mp hy with rfl | hy
        · exact List.mem_cons_self
        · exact List.mem_cons_of_mem _ (i3 y hy hyx)

end AkVerif.StickyAlg

namespace AkVerif.StickyAlg
open AkVerif.Assign

/-- the consumers' lists (current assignment plus the ones set aside as fixed) and the owner map
    describe the same function -/
structure Own (s : St) (fx : List (Member × List TP)) : Prop where
  K : (keysOf (s.cur ++ fx)).Nodup
  N : ∀ cp ∈ s.cur ++ fx, cp.2.Nodup
  HO : ∀ cp ∈ s.cur ++ fx, ∀ p ∈ cp.2, alGet s.owner p = some cp.1
  OH : ∀ p c, alGet s.owner p = some c → ∃ ps, (c, ps) ∈ s.cur ++ fx ∧ p ∈ ps
  S : ∀ c ∈ s.subs, c ∈ keysOf s.cur
  SN : s.subs.Nodup

theorem keysOf_append {α β : Type} (a b : List (α × β)) : keysOf (a ++ b) = keysOf a ++ keysOf b := by
  unfold keysOf; simp

theorem curOf_entry (s : St) (c : Member) (hc : c ∈ keysOf s.cur) : (c, curOf s c) ∈ s.cur := by
  have := (alHas_iff_mem_keys s.cur c).mpr hc
  obtain ⟨v, hv⟩ := (alHas_iff s.cur c).mp this
  have hm := alGet_mem _ _ _ hv
  unfold curOf alGetD
  rw [hv]; exact hm

theorem entry_curOf (s : St) (fx : List (Member × List TP)) (h : Own s fx) (c : Member) (ps : List TP)
    (hm : (c, ps) ∈ s.cur) : ps = curOf s c := by
  have hk : (keysOf s.cur).Nodup := by
    have := h.K; rw [keysOf_append] at this; exact (List.nodup_append.mp this).1
  have := alGet_of_mem_nodup s.cur c ps hk hm
  unfold curOf alGetD; rw [this]; rfl

/-- insertion sort by any comparison keeps the elements -/
theorem mem_insertBy {α} (lt : α → α → Bool) (a x : α) (l : List α) : x ∈ insertBy lt a l ↔ x = a ∨ x ∈ l := by
  induction l with
  | nil => simp [insertBy]
  | cons y ys ih =>
    unfold insertBy
    split
    · simp
    · simp only [List.mem_cons, ih]
      constructor
      · rintro (h | h | h) <;> simp [h]
      · rintro (h | h | h) <;> simp [h]

theorem mem_sortBy {α} (lt : α → α → Bool) (x : α) (l : List α) : x ∈ sortBy lt l ↔ x ∈ l := by
  induction l with
  | nil => simp [sortBy]
  | cons y ys ih =>
    show x ∈ insertBy lt y (sortBy lt ys) ↔ _
    rw [mem_insertBy, ih]; simp

theorem own_setSubsFlags (s s' : St) (fx) (h : Own s fx) (hc : s'.cur = s.cur) (ho : s'.owner = s.owner)
    (hs : s'.subs = s.subs) : Own s' fx := by
  refine ⟨?_, ?_, ?_, ?_, ?_, ?_⟩
  · rw [hc]; exact h.K
  · rw [hc]; exact h.N
  · rw [hc, ho]; exact h.HO
  · rw [hc, ho]; exact h.OH
  · rw [hc, hs]; exact h.S
  · rw [hs]; exact h.SN

/-- `_assign_partition` for a partition that nobody owns yet -/
theorem assignPartition_own (s : St) (fx) (h : Own s fx) (p : TP) (hun : alGet s.owner p = none) :
    Own (assignPartition s p) fx := by
  unfold assignPartition
  split
  · exact h
  · rename_i c hc
    have hcsub : c ∈ s.subs := (mem_sortBy _ _ _).mp (List.mem_of_find?_eq_some hc)
    have hckey : c ∈ keysOf s.cur := h.S c hcsub
    have hhas : alHas s.cur c = true := (alHas_iff_mem_keys _ _).mpr hckey
    have hentry : (c, curOf s c) ∈ s.cur := curOf_entry s c hckey
    have hpnot : ∀ cp ∈ s.cur ++ fx, p ∉ cp.2 := by
      intro cp hcp hp
      have := h.HO cp hcp p hp
      rw [hun] at this; cases this
    have memNew : ∀ cp, cp ∈ alSet s.cur c (curOf s c ++ [p]) ++ fx →
        cp = (c, curOf s c ++ [p]) ∨ (cp ∈ s.cur ++ fx ∧ cp.1 ≠ c) := by
      intro cp hcp
      rcases List.mem_append.mp hcp with hcp | hcp
      · rcases mem_alSet _ _ _ _ hcp with h1 | ⟨h1, h2⟩
        · exact Or.inl h1
        · exact Or.inr ⟨List.mem_append_left _ h1, by simpa using h2⟩
      · right
        refine ⟨List.mem_append_right _ hcp, ?_⟩
        intro heq
        have hk := h.K
        rw [keysOf_append] at hk
        have := (List.nodup_append.mp hk).2.2 cp.1 (by rw [heq]; exact hckey) cp.1
          (List.mem_map.mpr ⟨cp, hcp, rfl⟩)
        exact this rfl
    refine ⟨?_, ?_, ?_, ?_, ?_, ?_⟩
    · show (keysOf (alSet s.cur c (curOf s c ++ [p]) ++ fx)).Nodup
      rw [keysOf_append, keys_alSet_has _ _ _ hhas, ← keysOf_append]; exact h.K
    · intro cp hcp
      rcases memNew cp hcp with heq | ⟨hin, _⟩
      · subst heq
        simp only
        rw [List.nodup_append]
        refine ⟨h.N _ (List.mem_append_left _ hentry), by simp, ?_⟩
        intro a ha b hb
        simp at hb; subst hb
        intro heq; subst heq
        exact hpnot _ (List.mem_append_left _ hentry) ha
      · exact h.N cp hin
    · intro cp hcp q hq
      show alGet (alSet s.owner p c) q = some cp.1
      rcases memNew cp hcp with heq | ⟨hin, _⟩
      · subst heq
        simp only at hq ⊢
        rcases List.mem_append.mp hq with hq | hq
        · have hne : (p == q) = false := by
            apply Bool.eq_false_iff.mpr; intro he
            have : p = q := by simpa using he
            subst this
            exact hpnot _ (List.mem_append_left _ hentry) hq
          rw [alGet_alSet_other _ _ _ _ hne]
          exact h.HO _ (List.mem_append_left _ hentry) q hq
        · simp at hq; subst hq; exact alGet_alSet_same _ _ _
      · have hne : (p == q) = false := by
          apply Bool.eq_false_iff.mpr; intro he
          have : p = q := by simpa using he
          subst this
          exact hpnot cp hin hq
        rw [alGet_alSet_other _ _ _ _ hne]
        exact h.HO cp hin q hq
    · intro q c' hq
      have hq' : alGet (alSet s.owner p c) q = some c' := hq
      by_cases he : (p == q) = true
      · have : p = q := by simpa using he
        subst this
        rw [alGet_alSet_same] at hq'
        injection hq' with hq'; subst hq'
        exact ⟨curOf s c ++ [p], List.mem_append_left _ (mem_alSet_self _ _ _), by simp⟩
      · have hne : (p == q) = false := by simpa using he
        rw [alGet_alSet_other _ _ _ _ hne] at hq'
        obtain ⟨ps, hps, hqps⟩ := h.OH q c' hq'
        by_cases hcc : c' = c
        · subst hcc
          have : ps = curOf s c' := by
            have hk := h.K
            exact nodup_unique_val (s.cur ++ fx) hk c' ps (curOf s c') hps (List.mem_append_left _ hentry)
          subst this
          exact ⟨curOf s c' ++ [p], List.mem_append_left _ (mem_alSet_self _ _ _), List.mem_append_left _ hqps⟩
        · refine ⟨ps, ?_, hqps⟩
          rcases List.mem_append.mp hps with hps | hps
          · exact List.mem_append_left _ (mem_alSet_of_ne _ _ _ _ hps (by simpa using hcc))
          · exact List.mem_append_right _ hps
    · intro c' hc'
      show c' ∈ keysOf (alSet s.cur c (curOf s c ++ [p]))
      rw [keys_alSet_has _ _ _ hhas]; exact h.S c' hc'
    · exact h.SN

end AkVerif.StickyAlg

namespace AkVerif.StickyAlg
open AkVerif.Assign

theorem addMovement_fields (s : St) (p : TP) (pair : Member × Member) :
    (addMovement s p pair).cur = s.cur ∧ (addMovement s p pair).owner = s.owner ∧
    (addMovement s p pair).subs = s.subs := ⟨rfl, rfl, rfl⟩

theorem removeMovement_fields (s : St) (p : TP) :
    (removeMovement s p).1.cur = s.cur ∧ (removeMovement s p).1.owner = s.owner ∧
    (removeMovement s p).1.subs = s.subs := by
  unfold removeMovement; split <;> exact ⟨rfl, rfl, rfl⟩

theorem movePartitionRecord_fields (s : St) (p : TP) (old new : Member) :
    (movePartitionRecord s p old new).cur = s.cur ∧ (movePartitionRecord s p old new).owner = s.owner ∧
    (movePartitionRecord s p old new).subs = s.subs := by
  unfold movePartitionRecord
  split
  · have hf := removeMovement_fields s p
    cases hr : removeMovement s p with
    | mk s1 o =>
      rw [hr] at hf
      cases o with
      | none => exact hf
      | some existing =>
        simp only
        split
        · split <;> exact hf
        · split <;> exact hf
  · exact addMovement_fields s p (old, new)

/-- the cur/owner update of `_move_partition` -/
theorem moveCore_own (s : St) (fx) (h : Own s fx) (q : TP) (old new : Member)
    (hown : alGet s.owner q = some old) (hold : old ∈ keysOf s.cur) (hnew : new ∈ keysOf s.cur) :
    Own { s with
          cur := alSet (alSet s.cur old (removeFirst (curOf s old) q)) new
                   (alGetD (alSet s.cur old (removeFirst (curOf s old) q)) new [] ++ [q]),
          owner := alSet s.owner q new } fx := by
  have hkc : (keysOf s.cur).Nodup := by
    have := h.K; rw [keysOf_append] at this; exact (List.nodup_append.mp this).1
  have hhasOld : alHas s.cur old = true := (alHas_iff_mem_keys _ _).mpr hold
  have hentryOld : (old, curOf s old) ∈ s.cur := curOf_entry s old hold
  have hentryNew : (new, curOf s new) ∈ s.cur := curOf_entry s new hnew
  have hLnd : (curOf s old).Nodup := h.N _ (List.mem_append_left _ hentryOld)
  obtain ⟨hL'nd, hqL', hL'keep⟩ := removeFirst_nodup (curOf s old) q hLnd
  -- q sits in old's list and nowhere else
  have hq_old : q ∈ curOf s old := by
    obtain ⟨ps, hps, hqps⟩ := h.OH q old hown
    have := nodup_unique_val (s.cur ++ fx) h.K old ps (curOf s old) hps (List.mem_append_left _ hentryOld)
    rw [← this]; exact hqps
  have hq_only : ∀ cp ∈ s.cur ++ fx, q ∈ cp.2 → cp.1 = old := by
    intro cp hcp hq
    have := h.HO cp hcp q hq
    rw [hown] at this; injection this with this; exact this.symm
  generalize hcur1 : alSet s.cur old (removeFirst (curOf s old) q) = cur1
  have hk1 : keysOf cur1 = keysOf s.cur := by rw [← hcur1]; exact keys_alSet_has _ _ _ hhasOld
  have hhasNew1 : alHas cur1 new = true := (alHas_iff_mem_keys _ _).mpr (by rw [hk1]; exact hnew)
  -- the list `new` has after step 1
  have hX : alGetD cur1 new [] = if old = new then removeFirst (curOf s old) q else curOf s new := by
    rw [alGetD_def, ← hcur1]
    split
    · rename_i he; subst he; rw [alGet_alSet_same]; rfl
    · rename_i he
      rw [alGet_alSet_other _ _ _ _ (by simpa using he)]
      rfl
  generalize hXdef : (if old = new then removeFirst (curOf s old) q else curOf s new) = X at hX
  have hXnd : X.Nodup ∧ q ∉ X ∧ (∀ x ∈ X, alGet s.owner x = some new ∨ (old = new ∧ x ∈ curOf s old)) := by
    rw [← hXdef]
    split
    · rename_i he
      exact ⟨hL'nd, hqL', fun x hx => Or.inr ⟨he, mem_removeFirst _ _ _ hx⟩⟩
    · rename_i he
      refine ⟨h.N _ (List.mem_append_left _ hentryNew), ?_, fun x hx => Or.inl (h.HO _ (List.mem_append_left _ hentryNew) x hx)⟩
      intro hq
      exact he (hq_only _ (List.mem_append_left _ hentryNew) hq).symm
  rw [hX]
  -- membership in the new table
  have memNew : ∀ cp, cp ∈ alSet cur1 new (X ++ [q]) ++ fx →
      cp = (new, X ++ [q]) ∨ (cp = (old, removeFirst (curOf s old) q) ∧ old ≠ new) ∨
      (cp ∈ s.cur ++ fx ∧ cp.1 ≠ old ∧ cp.1 ≠ new) := by
    intro cp hcp
    rcases List.mem_append.mp hcp with hcp | hcp
    · rcases mem_alSet _ _ _ _ hcp with h1 | ⟨h1, h2⟩
      · exact Or.inl h1
      · have hne : cp.1 ≠ new := by simpa using h2
        rw [← hcur1] at h1
        rcases mem_alSet _ _ _ _ h1 with h3 | ⟨h3, h4⟩
        · right; left; refine ⟨h3, ?_⟩; intro he; apply hne; rw [h3]; exact he
        · right; right; exact ⟨List.mem_append_left _ h3, by simpa using h4, hne⟩
    · right; right
      have hk := h.K
      rw [keysOf_append] at hk
      have hdisj := (List.nodup_append.mp hk).2.2
      refine ⟨List.mem_append_right _ hcp, ?_, ?_⟩
      · intro he; exact hdisj cp.1 (by rw [he]; exact hold) cp.1 (List.mem_map.mpr ⟨cp, hcp, rfl⟩) rfl
      · intro he; exact hdisj cp.1 (by rw [he]; exact hnew) cp.1 (List.mem_map.mpr ⟨cp, hcp, rfl⟩) rfl
  have newEntry : (new, X ++ [q]) ∈ alSet cur1 new (X ++ [q]) ++ fx :=
    List.mem_append_left _ (mem_alSet_self _ _ _)
  have oldEntry : old ≠ new → (old, removeFirst (curOf s old) q) ∈ alSet cur1 new (X ++ [q]) ++ fx := by
    intro hne
    apply List.mem_append_left
    apply mem_alSet_of_ne
    · rw [← hcur1]; exact mem_alSet_self _ _ _
    · simpa using hne
  have otherEntry : ∀ cp ∈ s.cur ++ fx, cp.1 ≠ old → cp.1 ≠ new → cp ∈ alSet cur1 new (X ++ [q]) ++ fx := by
    intro cp hcp h1 h2
    rcases List.mem_append.mp hcp with hcp | hcp
    · apply List.mem_append_left
      apply mem_alSet_of_ne _ _ _ _ _ (by simpa using h2)
      rw [← hcur1]
      exact mem_alSet_of_ne _ _ _ _ hcp (by simpa using h1)
    · exact List.mem_append_right _ hcp
  refine ⟨?_, ?_, ?_, ?_, ?_, ?_⟩
  · show (keysOf (alSet cur1 new (X ++ [q]) ++ fx)).Nodup
    rw [keysOf_append, keys_alSet_has _ _ _ hhasNew1, hk1, ← keysOf_append]; exact h.K
  · intro cp hcp
    rcases memNew cp hcp with heq | ⟨heq, _⟩ | ⟨hin, _, _⟩
    · subst heq
      simp only
      rw [List.nodup_append]
      refine ⟨hXnd.1, by simp, ?_⟩
      intro a ha b hb
      simp at hb; subst hb
      intro heq; subst heq; exact hXnd.2.1 ha
    · subst heq; exact hL'nd
    · exact h.N cp hin
  · intro cp hcp x hx
    show alGet (alSet s.owner q new) x = some cp.1
    rcases memNew cp hcp with heq | ⟨heq, hne⟩ | ⟨hin, h1, h2⟩
    · subst heq
      simp only at hx ⊢
      rcases List.mem_append.mp hx with hx | hx
      · have hxq : (q == x) = false := by
          apply Bool.eq_false_iff.mpr; intro he
          have : q = x := by simpa using he
          subst this; exact hXnd.2.1 hx
        rw [alGet_alSet_other _ _ _ _ hxq]
        rcases hXnd.2.2 x hx with h1 | ⟨h1, h2⟩
        · exact h1
        · subst h1; exact h.HO _ (List.mem_append_left _ hentryOld) x h2
      · simp at hx; subst hx; exact alGet_alSet_same _ _ _
    · subst heq
      simp only at hx ⊢
      have hxq : (q == x) = false := by
        apply Bool.eq_false_iff.mpr; intro he
        have : q = x := by simpa using he
        subst this; exact hqL' hx
      rw [alGet_alSet_other _ _ _ _ hxq]
      exact h.HO _ (List.mem_append_left _ hentryOld) x (mem_removeFirst _ _ _ hx)
    · have hxq : (q == x) = false := by
        apply Bool.eq_false_iff.mpr; intro he
        have : q = x := by simpa using he
        subst this; exact h1 (hq_only cp hin hx)
      rw [alGet_alSet_other _ _ _ _ hxq]
      exact h.HO cp hin x hx
  · intro x c' hx
    have hx' : alGet (alSet s.owner q new) x = some c' := hx
    by_cases he : (q == x) = true
    · have : q = x := by simpa using he
      subst this
      rw [alGet_alSet_same] at hx'
      injection hx' with hx'; subst hx'
      exact ⟨X ++ [q], newEntry, by simp⟩
    · have hne : (q == x) = false := by simpa using he
      have hxq : x ≠ q := by intro e; subst e; simp at hne
      rw [alGet_alSet_other _ _ _ _ hne] at hx'
      obtain ⟨ps, hps, hxps⟩ := h.OH x c' hx'
      by_cases hcn : c' = new
      · subst hcn
        refine ⟨X ++ [q], newEntry, List.mem_append_left _ ?_⟩
        rw [← hXdef]
        split
        · rename_i heq
          subst heq
          have : ps = curOf s old := nodup_unique_val (s.cur ++ fx) h.K old ps _ hps (List.mem_append_left _ hentryOld)
          subst this
          exact hL'keep x hxps hxq
        · have : ps = curOf s c' := nodup_unique_val (s.cur ++ fx) h.K c' ps _ hps (List.mem_append_left _ hentryNew)
          subst this; exact hxps
      · by_cases hco : c' = old
        · subst hco
          have : ps = curOf s c' := nodup_unique_val (s.cur ++ fx) h.K c' ps _ hps (List.mem_append_left _ hentryOld)
          subst this
          exact ⟨removeFirst (curOf s c') q, oldEntry hcn, hL'keep x hxps hxq⟩
        · exact ⟨ps, otherEntry _ hps hco hcn, hxps⟩
  · intro c' hc'
    show c' ∈ keysOf (alSet cur1 new (X ++ [q]))
    rw [keys_alSet_has _ _ _ hhasNew1, hk1]; exact h.S c' hc'
  · exact h.SN

end AkVerif.StickyAlg

namespace AkVerif.StickyAlg
open AkVerif.Assign

theorem own_sameCore (s s' : St) (fx) (h : Own s fx) (hc : SameCore s s') : Own s' fx :=
  own_setSubsFlags s s' fx h hc.1 hc.2.1 hc.2.2.2.2.2.1

/-- "`s'` still owns everything `s` owned, and has the same `subs`" -/
def Keeps (s s' : St) : Prop :=
  s'.subs = s.subs ∧ ∀ p, (alGet s.owner p).isSome → (alGet s'.owner p).isSome

theorem Keeps.refl (s : St) : Keeps s s := ⟨rfl, fun _ h => h⟩
theorem Keeps.trans {a b c : St} (h1 : Keeps a b) (h2 : Keeps b c) : Keeps a c :=
  ⟨by rw [h2.1, h1.1], fun p hp => h2.2 p (h1.2 p hp)⟩

theorem movePartition_own (s : St) (fx) (h : Own s fx) (q : TP) (new : Member) :
    Own (movePartition s q new) fx ∧ Keeps s (movePartition s q new) := by
  unfold movePartition
  split
  · exact ⟨own_setSubsFlags s _ fx h rfl rfl rfl, ⟨rfl, fun _ hp => hp⟩⟩
  · rename_i old hold
    split
    · exact ⟨own_setSubsFlags s _ fx h rfl rfl rfl, ⟨rfl, fun _ hp => hp⟩⟩
    · rename_i hsubs
      have hso : old ∈ s.subs ∧ new ∈ s.subs := by
        simp only [Bool.or_eq_true, Bool.not_eq_true', not_or, Bool.not_eq_false] at hsubs
        exact ⟨by simpa using hsubs.1, by simpa using hsubs.2⟩
      have hf := movePartitionRecord_fields s q old new
      generalize movePartitionRecord s q old new = s1 at hf
      have h1 : Own s1 fx := own_setSubsFlags s s1 fx h hf.1 hf.2.1 hf.2.2
      have hown1 : alGet s1.owner q = some old := by rw [hf.2.1]; exact hold
      have hk1 : old ∈ keysOf s1.cur ∧ new ∈ keysOf s1.cur := by
        rw [hf.1]; exact ⟨h.S old hso.1, h.S new hso.2⟩
      have := moveCore_own s1 fx h1 q old new hown1 hk1.1 hk1.2
      refine ⟨this, ⟨hf.2.2, ?_⟩⟩
      intro p hp
      show (alGet (alSet s1.owner q new) p).isSome
      by_cases he : (q == p) = true
      · have : q = p := by simpa using he
        subst this; rw [alGet_alSet_same]; rfl
      · rw [alGet_alSet_other _ _ _ _ (by simpa using he), hf.2.1]; exact hp

theorem reassignPartition_own (s : St) (fx) (h : Own s fx) (hp : Pot s) (p : TP) :
    Own (reassignPartition s p) fx ∧ Keeps s (reassignPartition s p) := by
  unfold reassignPartition
  split
  · exact ⟨own_setSubsFlags s _ fx h rfl rfl rfl, ⟨rfl, fun _ hq => hq⟩⟩
  · rename_i new hnew
    have hpnew : p ∈ potOf s new := by
      have := List.find?_some hnew; simpa using this
    split
    · exact ⟨own_setSubsFlags s _ fx h rfl rfl rfl, ⟨rfl, fun _ hq => hq⟩⟩
    · rename_i consumer _
      have hspec := partitionToBeMoved_spec s hp p consumer new hpnew
      cases hr : partitionToBeMoved s p consumer new with
      | mk s1 q =>
        rw [hr] at hspec
        simp only
        have h1 : Own s1 fx := own_sameCore s s1 fx h hspec.1
        have hk : Keeps s s1 := ⟨hspec.1.2.2.2.2.2.1, fun x hx => by rw [hspec.1.2.1]; exact hx⟩
        have hm := movePartition_own s1 fx h1 q new
        exact ⟨hm.1, hk.trans hm.2⟩

theorem reassignPass_own (ps : List TP) : ∀ (s : St) (m : Bool) (fx), Own s fx → Pot s →
    Own (reassignPass s ps m).1 fx ∧ Keeps s (reassignPass s ps m).1 := by
  induction ps with
  | nil => intro s m fx h _; exact ⟨h, Keeps.refl s⟩
  | cons p rest ih =>
    intro s m fx h hp
    unfold reassignPass
    split
    · exact ⟨h, Keeps.refl s⟩
    · split
      · exact ⟨h, Keeps.refl s⟩
      · split
        · exact ih s m fx h hp
        · split
          · have h1 := reassignPartition_own s fx h hp p
            have hp1 := reassignPartition_pot s hp p
            have := ih (reassignPartition s p) true fx h1.1 hp1
            exact ⟨this.1, h1.2.trans this.2⟩
          · exact ih s m fx h hp

theorem performReassignments_own (fuel : Nat) : ∀ (s : St) (ps : List TP) (b : Bool) (r : St × Bool) (fx),
    Own s fx → Pot s → performReassignments fuel s ps b = some r → Own r.1 fx ∧ Keeps s r.1 := by
  induction fuel with
  | zero => intro s ps b r fx _ _ h; simp [performReassignments] at h
  | succ n ih =>
    intro s ps b r fx ho hp h
    unfold performReassignments at h
    have hpass := reassignPass_own ps s false fx ho hp
    have hpot := reassignPass_pot ps s false hp
    cases hr : reassignPass s ps false with
    | mk s' modified =>
      rw [hr] at hpass hpot h
      simp only at h hpass hpot
      split at h
      · injection h with h; subst h; exact hpass
      · split at h
        · have := ih s' ps true r fx hpass.1 hpot.1 h
          exact ⟨this.1, hpass.2.trans this.2⟩
        · injection h with h; subst h; exact hpass

theorem reassignBoth_own (fuel : Nat) (s : St) (r : St × Bool) (fx) (ho : Own s fx) (hp : Pot s)
    (hr : reassignBoth fuel s = some r) : Own r.1 fx ∧ Keeps s r.1 := by
  unfold reassignBoth at hr
  have r1ok : ∀ r1, (if !s.revocation then performReassignments fuel s s.unassigned false else some (s, false)) = some r1 →
      (Own r1.1 fx ∧ Keeps s r1.1) ∧ Pot r1.1 := by
    intro r1 h1
    split at h1
    · exact ⟨performReassignments_own fuel s _ false r1 fx ho hp h1, (performReassignments_pot fuel s _ false r1 hp h1).1⟩
    · injection h1 with h1; subst h1; exact ⟨⟨ho, Keeps.refl s⟩, hp⟩
  cases h1 : (if !s.revocation then performReassignments fuel s s.unassigned false else some (s, false)) with
  | none => rw [h1] at hr; cases hr
  | some r1 =>
    rw [h1] at hr
    obtain ⟨s1, b1⟩ := r1
    have hs1 := r1ok (s1, b1) h1
    simp only at hr hs1
    split at hr
    · injection hr with hr; subst hr; exact hs1.1
    · have := performReassignments_own fuel s1 _ false r fx hs1.1.1 hs1.2 hr
      exact ⟨this.1, hs1.1.2.trans this.2⟩

end AkVerif.StickyAlg

namespace AkVerif.StickyAlg
open AkVerif.Assign

theorem assignPartition_fields (s : St) (p : TP) :
    (assignPartition s p).subs = s.subs ∧ (assignPartition s p).c2p = s.c2p ∧
    (assignPartition s p).p2c = s.p2c ∧
    (∀ q, (q == p) = false → alGet (assignPartition s p).owner q = alGet s.owner q) := by
  unfold assignPartition
  split
  · exact ⟨rfl, rfl, rfl, fun _ _ => rfl⟩
  · refine ⟨rfl, rfl, rfl, ?_⟩
    intro q hq
    show alGet (alSet s.owner p _) q = _
    rw [alGet_alSet_other]
    cases h : (p == q) with
    | false => rfl
    | true =>
      have : p = q := by simpa using h
      subst this; simp at hq

/-- a partition some subscribed, still-listed consumer could take gets an owner -/
theorem assignPartition_owned (s : St) (p : TP)
    (hex : ∃ c ∈ s.subs, (potOf s c).contains p = true) :
    (alGet (assignPartition s p).owner p).isSome := by
  unfold assignPartition
  obtain ⟨c, hc, hpc⟩ := hex
  cases hf : (sortedSubs s).find? (fun c => (potOf s c).contains p) with
  | none =>
    exfalso
    have := List.find?_eq_none.mp hf c ((mem_sortBy _ _ _).mpr hc)
    simp at this
    exact this (by simpa using hpc)
  | some c' =>
    simp only
    rw [alGet_alSet_same]; rfl

theorem assignFold_own (l : List TP) : ∀ (s : St) (fx), Own s fx → l.Nodup →
    (∀ p ∈ l, alGet s.owner p = none) →
    let r := l.foldl (fun s p => if (consumersOf s p).isEmpty then s else assignPartition s p) s
    Own r fx ∧ Keeps s r ∧ r.c2p = s.c2p ∧ r.p2c = s.p2c ∧
    (∀ p ∈ l, (consumersOf s p).isEmpty = false →
      (∃ c ∈ s.subs, (potOf s c).contains p = true) → (alGet r.owner p).isSome) := by
  induction l with
  | nil => intro s fx h _ _; exact ⟨h, Keeps.refl s, rfl, rfl, fun p hp => by cases hp⟩
  | cons p rest ih =>
    intro s fx h hnd hun
    rw [List.nodup_cons] at hnd
    simp only [List.foldl_cons]
    by_cases hemp : (consumersOf s p).isEmpty = true
    · simp only [hemp, if_true]
      have := ih s fx h hnd.2 (fun q hq => hun q (List.mem_cons_of_mem _ hq))
      simp only at this
      refine ⟨this.1, this.2.1, this.2.2.1, this.2.2.2.1, ?_⟩
      intro q hq hne hex
      rcases List.mem_cons.mp hq with rfl | hq
      · rw [hemp] at hne; cases hne
      · exact this.2.2.2.2 q hq hne hex
    · have hemp' : (consumersOf s p).isEmpty = false := by simpa using hemp
      simp only [hemp', Bool.false_eq_true, if_false]
      have hf := assignPartition_fields s p
      have h1 := assignPartition_own s fx h p (hun p List.mem_cons_self)
      have hun1 : ∀ q ∈ rest, alGet (assignPartition s p).owner q = none := by
        intro q hq
        have hqp : (q == p) = false := by
          apply Bool.eq_false_iff.mpr; intro he
          have : q = p := by simpa using he
          subst this; exact hnd.1 hq
        rw [hf.2.2.2 q hqp]; exact hun q (List.mem_cons_of_mem _ hq)
      have := ih (assignPartition s p) fx h1 hnd.2 hun1
      simp only at this
      have hk1 : Keeps s (assignPartition s p) := by
        refine ⟨hf.1, ?_⟩
        intro q hq
        by_cases hqp : (q == p) = true
        · have : q = p := by simpa using hqp
          subst this
          have := hun q List.mem_cons_self
          rw [this] at hq; cases hq
        · rw [hf.2.2.2 q (by simpa using hqp)]; exact hq
      have hpot : ∀ c, potOf (assignPartition s p) c = potOf s c := by
        intro c; unfold potOf; rw [hf.2.1]
      have hcons : ∀ q, consumersOf (assignPartition s p) q = consumersOf s q := by
        intro q; unfold consumersOf; rw [hf.2.2.1]
      refine ⟨this.1, hk1.trans this.2.1, by rw [this.2.2.1, hf.2.1], by rw [this.2.2.2.1, hf.2.2.1], ?_⟩
      intro q hq hne hex
      rcases List.mem_cons.mp hq with rfl | hq
      · exact this.2.1.2 q (assignPartition_owned s q hex)
      · apply this.2.2.2.2 q hq
        · rw [hcons]; exact hne
        · obtain ⟨c, hc, hpc⟩ := hex
          exact ⟨c, by rw [hf.1]; exact hc, by rw [hpot]; exact hpc⟩

end AkVerif.StickyAlg

namespace AkVerif.StickyAlg
open AkVerif.Assign

/-- setting one consumer aside: its entry moves from `cur` to the fixed list -/
theorem setAside_own (s : St) (fx) (h : Own s fx) (c : Member) (hc : c ∈ keysOf s.cur) :
    Own { s with subs := removeFirst s.subs c, cur := alDel s.cur c } (fx ++ [(c, curOf s c)]) := by
  have hentry := curOf_entry s c hc
  have hk := h.K
  rw [keysOf_append] at hk
  obtain ⟨hkc, hkf, hdisj⟩ := List.nodup_append.mp hk
  have hcfx : c ∉ keysOf fx := fun hm => hdisj c hc c hm rfl
  have sub : ∀ cp, cp ∈ alDel s.cur c ++ (fx ++ [(c, curOf s c)]) → cp ∈ s.cur ++ fx := by
    intro cp hcp
    rcases List.mem_append.mp hcp with hcp | hcp
    · exact List.mem_append_left _ ((mem_alDel _ _ _).mp hcp).1
    · rcases List.mem_append.mp hcp with hcp | hcp
      · exact List.mem_append_right _ hcp
      · simp at hcp; subst hcp; exact List.mem_append_left _ hentry
  have sup : ∀ cp, cp ∈ s.cur ++ fx → cp ∈ alDel s.cur c ++ (fx ++ [(c, curOf s c)]) := by
    intro cp hcp
    rcases List.mem_append.mp hcp with hcp | hcp
    · by_cases he : cp.1 = c
      · have : cp = (c, curOf s c) := by
          obtain ⟨a, b⟩ := cp
          simp only at he; subst he
          have := nodup_unique_val s.cur hkc a b (curOf s a) hcp hentry
          rw [this]
        rw [this]
        exact List.mem_append_right _ (List.mem_append_right _ (List.mem_singleton.mpr rfl))
      · exact List.mem_append_left _ ((mem_alDel _ _ _).mpr ⟨hcp, by simpa using he⟩)
    · exact List.mem_append_right _ (List.mem_append_left _ hcp)
  refine ⟨?_, ?_, ?_, ?_, ?_, ?_⟩
  · show (keysOf (alDel s.cur c ++ (fx ++ [(c, curOf s c)]))).Nodup
    rw [keysOf_append, keysOf_append, keys_alDel]
    have hfilt : ((keysOf s.cur).filter (fun a => !(a == c))).Nodup := List.Nodup.sublist List.filter_sublist hkc
    rw [List.nodup_append]
    refine ⟨hfilt, ?_, ?_⟩
    · rw [List.nodup_append]
      refine ⟨hkf, by simp [keysOf], ?_⟩
      intro a ha b hb; simp [keysOf] at hb; subst hb
      intro he; subst he; exact hcfx ha
    · intro a ha b hb
      have ha' := List.mem_filter.mp ha
      rcases List.mem_append.mp hb with hb | hb
      · exact hdisj a ha'.1 b hb
      · simp [keysOf] at hb; subst hb
        intro he; subst he; simp at ha'
  · intro cp hcp; exact h.N cp (sub cp hcp)
  · intro cp hcp; exact h.HO cp (sub cp hcp)
  · intro p c' hp
    obtain ⟨ps, hps, hpp⟩ := h.OH p c' hp
    exact ⟨ps, sup _ hps, hpp⟩
  · intro c' hc'
    show c' ∈ keysOf (alDel s.cur c)
    obtain ⟨_, hnot, _⟩ := removeFirst_nodup s.subs c h.SN
    have hin := mem_removeFirst _ _ _ hc'
    rw [keys_alDel]
    apply List.mem_filter.mpr
    refine ⟨h.S c' hin, ?_⟩
    have : c' ≠ c := by intro he; subst he; exact hnot hc'
    simpa using this
  · exact (removeFirst_nodup s.subs c h.SN).1

theorem setAsideFold_own (cs : List Member) : ∀ (s : St) (fx), Own s fx → cs.Nodup →
    (∀ c ∈ cs, c ∈ keysOf s.cur) →
    let r := cs.foldl (fun (acc : St × List (Member × List TP)) c =>
        if !canConsumerParticipate acc.1 c then
          ({ acc.1 with subs := removeFirst acc.1.subs c, cur := alDel acc.1.cur c }, acc.2 ++ [(c, curOf acc.1 c)])
        else acc) (s, fx)
    Own r.1 r.2 ∧ r.1.owner = s.owner := by
  induction cs with
  | nil => intro s fx h _ _; exact ⟨h, rfl⟩
  | cons c rest ih =>
    intro s fx h hnd hkeys
    rw [List.nodup_cons] at hnd
    simp only [List.foldl_cons]
    split
    · have h1 := setAside_own s fx h c (hkeys c List.mem_cons_self)
      have := ih _ _ h1 hnd.2 (by
        intro c' hc'
        show c' ∈ keysOf (alDel s.cur c)
        rw [keys_alDel]
        apply List.mem_filter.mpr
        refine ⟨hkeys c' (List.mem_cons_of_mem _ hc'), ?_⟩
        have : c' ≠ c := by intro he; subst he; exact hnd.1 hc'
        simpa using this)
      exact ⟨this.1, this.2⟩
    · exact ih s fx h hnd.2 (fun c' hc' => hkeys c' (List.mem_cons_of_mem _ hc'))

/-- adding the fixed consumers back -/
theorem addBack_own (fx : List (Member × List TP)) : ∀ (s : St), Own s fx →
    Own (fx.foldl (fun s cp => { s with cur := alSet s.cur cp.1 cp.2, subs := s.subs ++ [cp.1] }) s) [] ∧
    (fx.foldl (fun s cp => { s with cur := alSet s.cur cp.1 cp.2, subs := s.subs ++ [cp.1] }) s).owner = s.owner := by
  induction fx with
  | nil => intro s h; exact ⟨h, rfl⟩
  | cons cp rest ih =>
    intro s h
    simp only [List.foldl_cons]
    have hk := h.K
    rw [keysOf_append] at hk
    obtain ⟨hkc, hkf, hdisj⟩ := List.nodup_append.mp hk
    have hkf' : cp.1 ∉ keysOf rest ∧ (keysOf rest).Nodup := by
      have : keysOf (cp :: rest) = cp.1 :: keysOf rest := rfl
      rw [this, List.nodup_cons] at hkf; exact hkf
    have hcnot : cp.1 ∉ keysOf s.cur := fun hm => hdisj cp.1 hm cp.1 (List.mem_map.mpr ⟨cp, List.mem_cons_self, rfl⟩) rfl
    have hnohas : alHas s.cur cp.1 = false := by
      cases hh : alHas s.cur cp.1 with
      | false => rfl
      | true => exact absurd ((alHas_iff_mem_keys _ _).mp hh) hcnot
    have hcur' : alSet s.cur cp.1 cp.2 = s.cur ++ [(cp.1, cp.2)] := by unfold alSet; simp [hnohas]
    have h1 : Own { s with cur := alSet s.cur cp.1 cp.2, subs := s.subs ++ [cp.1] } rest := by
      have eqset : ∀ x, x ∈ (s.cur ++ [(cp.1, cp.2)]) ++ rest ↔ x ∈ s.cur ++ cp :: rest := by
        intro x; simp [List.mem_append, List.mem_cons]
      refine ⟨?_, ?_, ?_, ?_, ?_, ?_⟩
      · show (keysOf (alSet s.cur cp.1 cp.2 ++ rest)).Nodup
        rw [hcur']
        have : keysOf ((s.cur ++ [(cp.1, cp.2)]) ++ rest) = keysOf (s.cur ++ cp :: rest) := by
          unfold keysOf; simp
        rw [this]; exact h.K
      · intro x hx
        have hx' : x ∈ alSet s.cur cp.1 cp.2 ++ rest := hx
        rw [hcur'] at hx'
        exact h.N x ((eqset x).mp hx')
      · intro x hx
        have hx' : x ∈ alSet s.cur cp.1 cp.2 ++ rest := hx
        rw [hcur'] at hx'
        exact h.HO x ((eqset x).mp hx')
      · intro p c hp
        obtain ⟨ps, hps, hpp⟩ := h.OH p c hp
        refine ⟨ps, ?_, hpp⟩
        show (c, ps) ∈ alSet s.cur cp.1 cp.2 ++ rest
        rw [hcur']; exact (eqset _).mpr hps
      · intro c hc
        show c ∈ keysOf (alSet s.cur cp.1 cp.2)
        rw [hcur', keysOf_append]
        rcases List.mem_append.mp hc with hc | hc
        · exact List.mem_append_left _ (h.S c hc)
        · simp at hc; subst hc; exact List.mem_append_right _ (by simp [keysOf])
      · show (s.subs ++ [cp.1]).Nodup
        rw [List.nodup_append]
        refine ⟨h.SN, by simp, ?_⟩
        intro a ha b hb; simp at hb
        intro he; rw [hb] at he; rw [he] at ha; exact hcnot (h.S _ ha)
    have := ih _ h1
    exact ⟨this.1, this.2⟩

end AkVerif.StickyAlg

namespace AkVerif.StickyAlg
open AkVerif.Assign

/-! ### the initial state -/

/-- the claims table built from the members' user data has one entry per partition -/
theorem claims_nodup (members : List MemberIn) :
    (keysOf (members.foldl (fun acc m => m.prev.foldl
      (fun acc p => if alHas acc p then acc else acc ++ [(p, m.id)]) acc) ([] : List (TP × Member)))).Nodup := by
  have inner : ∀ (ps : List TP) (c : Member) (acc : List (TP × Member)), (keysOf acc).Nodup →
      (keysOf (ps.foldl (fun acc p => if alHas acc p then acc else acc ++ [(p, c)]) acc)).Nodup := by
    intro ps c
    induction ps with
    | nil => intro acc h; exact h
    | cons p rest ih =>
      intro acc h
      simp only [List.foldl_cons]
      apply ih
      split
      · exact h
      · rename_i hno
        rw [keysOf_append, List.nodup_append]
        refine ⟨h, by simp [keysOf], ?_⟩
        intro a ha b hb; simp [keysOf] at hb
        intro he; rw [hb] at he; rw [he] at ha
        exact hno ((alHas_iff_mem_keys _ _).mpr ha)
  have outer : ∀ (ms : List MemberIn) (acc : List (TP × Member)), (keysOf acc).Nodup →
      (keysOf (ms.foldl (fun acc m => m.prev.foldl
        (fun acc p => if alHas acc p then acc else acc ++ [(p, m.id)]) acc) acc)).Nodup := by
    intro ms
    induction ms with
    | nil => intro acc h; exact h
    | cons m rest ih => intro acc h; simp only [List.foldl_cons]; exact ih _ (inner m.prev m.id acc h)
  exact outer members [] (by simp [keysOf])

/-- grouping the claims by consumer -/
structure Grouped (cur : List (Member × List TP)) (done : List (TP × Member)) : Prop where
  g1 : (keysOf cur).Nodup
  g2 : ∀ cp ∈ cur, cp.2.Nodup ∧ ∀ p ∈ cp.2, (p, cp.1) ∈ done
  g3 : ∀ pc ∈ done, ∃ ps, (pc.2, ps) ∈ cur ∧ pc.1 ∈ ps

theorem group_step (cur : List (Member × List TP)) (done : List (TP × Member)) (p : TP) (c : Member)
    (h : Grouped cur done) (hp : p ∉ keysOf done) :
    Grouped (alSet cur c (alGetD cur c [] ++ [p])) (done ++ [(p, c)]) := by
  have hLmem : ∀ q ∈ alGetD cur c [], (q, c) ∈ done ∧ (alGetD cur c []).Nodup := by
    intro q hq
    rw [alGetD_def] at hq ⊢
    cases hg : alGet cur c with
    | none => rw [hg] at hq; cases hq
    | some L =>
      rw [hg] at hq
      have := h.g2 (c, L) (alGet_mem _ _ _ hg)
      exact ⟨this.2 q hq, this.1⟩
  have hLnd : (alGetD cur c []).Nodup := by
    rw [alGetD_def]
    cases hg : alGet cur c with
    | none => simp
    | some L => exact (h.g2 (c, L) (alGet_mem _ _ _ hg)).1
  have hpL : p ∉ alGetD cur c [] := by
    intro hm
    have := (hLmem p hm).1
    exact hp (List.mem_map.mpr ⟨(p, c), this, rfl⟩)
  refine ⟨?_, ?_, ?_⟩
  · cases hh : alHas cur c with
    | true => rw [keys_alSet_has _ _ _ hh]; exact h.g1
    | false =>
      rw [keys_alSet_new _ _ _ hh, List.nodup_append]
      refine ⟨h.g1, by simp, ?_⟩
      intro a ha b hb; simp at hb
      intro he; rw [hb] at he; rw [he] at ha
      have := (alHas_iff_mem_keys cur c).mpr ha
      rw [hh] at this; cases this
  · intro cp hcp
    rcases mem_alSet _ _ _ _ hcp with heq | ⟨hin, _⟩
    · subst heq
      simp only
      refine ⟨?_, ?_⟩
      · rw [List.nodup_append]
        refine ⟨hLnd, by simp, ?_⟩
        intro a ha b hb; simp at hb
        intro he; rw [hb] at he; rw [he] at ha; exact hpL ha
      · intro q hq
        rcases List.mem_append.mp hq with hq | hq
        · exact List.mem_append_left _ (hLmem q hq).1
        · simp at hq; rw [hq]; exact List.mem_append_right _ (by simp)
    · have := h.g2 cp hin
      exact ⟨this.1, fun q hq => List.mem_append_left _ (this.2 q hq)⟩
  · intro pc hpc
    rcases List.mem_append.mp hpc with hpc | hpc
    · obtain ⟨ps, hps, hq⟩ := h.g3 pc hpc
      by_cases he : pc.2 = c
      · refine ⟨alGetD cur c [] ++ [p], by rw [he]; exact mem_alSet_self _ _ _, ?_⟩
        apply List.mem_append_left
        rw [alGetD_def]
        have := alGet_of_mem_nodup cur pc.2 ps h.g1 hps
        rw [← he, this]; exact hq
      · exact ⟨ps, mem_alSet_of_ne _ _ _ _ hps (by simpa using he), hq⟩
    · simp at hpc; subst hpc
      exact ⟨alGetD cur c [] ++ [p], mem_alSet_self _ _ _, by simp⟩

theorem group_fold (claims : List (TP × Member)) : ∀ (cur : List (Member × List TP)) (done : List (TP × Member)),
    Grouped cur done → (keysOf (done ++ claims)).Nodup →
    Grouped (claims.foldl (fun cur pc => alSet cur pc.2 (alGetD cur pc.2 [] ++ [pc.1])) cur) (done ++ claims) := by
  induction claims with
  | nil => intro cur done h _; simpa using h
  | cons pc rest ih =>
    intro cur done h hnd
    simp only [List.foldl_cons]
    have hp : pc.1 ∉ keysOf done := by
      rw [keysOf_append] at hnd
      have := (List.nodup_append.mp hnd).2.2
      intro hm
      exact this pc.1 hm pc.1 (List.mem_map.mpr ⟨pc, List.mem_cons_self, rfl⟩) rfl
    have hstep := group_step cur done pc.1 pc.2 h hp
    have := ih _ (done ++ [(pc.1, pc.2)]) hstep (by simpa using hnd)
    simpa using this

theorem initCurrent_grouped (members : List MemberIn) :
    ∃ claims : List (TP × Member), (keysOf claims).Nodup ∧ Grouped (initCurrent members) claims := by
  refine ⟨members.foldl (fun acc m => m.prev.foldl
      (fun acc p => if alHas acc p then acc else acc ++ [(p, m.id)]) acc) [], claims_nodup members, ?_⟩
  unfold initCurrent
  have := group_fold (members.foldl (fun acc m => m.prev.foldl
      (fun acc p => if alHas acc p then acc else acc ++ [(p, m.id)]) acc) []) [] []
    (Grouped.mk (by simp [keysOf]) (fun cp h => by cases h) (fun pc h => by cases h))
    (by simpa using claims_nodup members)
  simpa using this

end AkVerif.StickyAlg

namespace AkVerif.StickyAlg
open AkVerif.Assign

/-- `Own` without the bookkeeping about `subs`, for states before `balance` starts -/
structure OwnCore (cur : List (Member × List TP)) (owner : List (TP × Member)) : Prop where
  K : (keysOf cur).Nodup
  N : ∀ cp ∈ cur, cp.2.Nodup
  HO : ∀ cp ∈ cur, ∀ p ∈ cp.2, alGet owner p = some cp.1
  OH : ∀ p c, alGet owner p = some c → ∃ ps, (c, ps) ∈ cur ∧ p ∈ ps

theorem addEmpties_spec (ms : List MemberIn) : ∀ (cur : List (Member × List TP)), (keysOf cur).Nodup →
    let r := ms.foldl (fun cur m => if alHas cur m.id then cur else cur ++ [(m.id, [])]) cur
    (keysOf r).Nodup ∧ (∀ cp ∈ r, cp ∈ cur ∨ cp.2 = []) ∧ (∀ cp ∈ cur, cp ∈ r) ∧
    (∀ m ∈ ms, m.id ∈ keysOf r) ∧ (∀ k ∈ keysOf cur, k ∈ keysOf r) := by
  induction ms with
  | nil =>
    intro cur h
    refine ⟨h, fun cp hcp => Or.inl hcp, fun cp hcp => hcp, ?_, fun k hk => hk⟩
    intro m hm; cases hm
  | cons m rest ih =>
    intro cur h
    simp only [List.foldl_cons]
    split
    · rename_i hh
      have := ih cur h
      simp only at this
      refine ⟨this.1, this.2.1, this.2.2.1, ?_, this.2.2.2.2⟩
      intro m' hm'
      rcases List.mem_cons.mp hm' with rfl | hm'
      · exact this.2.2.2.2 _ ((alHas_iff_mem_keys _ _).mp hh)
      · exact this.2.2.2.1 m' hm'
    · rename_i hh
      have hk : (keysOf (cur ++ [(m.id, ([] : List TP))])).Nodup := by
        rw [keysOf_append, List.nodup_append]
        refine ⟨h, by simp [keysOf], ?_⟩
        intro a ha b hb; simp [keysOf] at hb
        intro he; rw [hb] at he; rw [he] at ha
        exact hh ((alHas_iff_mem_keys _ _).mpr ha)
      have := ih _ hk
      simp only at this
      refine ⟨this.1, ?_, ?_, ?_, ?_⟩
      · intro cp hcp
        rcases this.2.1 cp hcp with h1 | h1
        · rcases List.mem_append.mp h1 with h1 | h1
          · exact Or.inl h1
          · simp at h1; right; rw [h1]
        · exact Or.inr h1
      · intro cp hcp; exact this.2.2.1 cp (List.mem_append_left _ hcp)
      · intro m' hm'
        rcases List.mem_cons.mp hm' with rfl | hm'
        · apply this.2.2.2.2; rw [keysOf_append]; exact List.mem_append_right _ (by simp [keysOf])
        · exact this.2.2.2.1 m' hm'
      · intro k hk'; apply this.2.2.2.2; rw [keysOf_append]; exact List.mem_append_left _ hk'

theorem initState_ownCore (parts : List (Topic × List Nat)) (members : List MemberIn) (oracle : List TP) :
    OwnCore (initState parts members oracle).cur (initState parts members oracle).owner ∧
    (∀ m ∈ members, m.id ∈ keysOf (initState parts members oracle).cur) := by
  obtain ⟨claims, hcn, hg⟩ := initCurrent_grouped members
  have hsp := addEmpties_spec members (initCurrent members) hg.g1
  simp only at hsp
  have hcur : (initState parts members oracle).cur
      = members.foldl (fun cur m => if alHas cur m.id then cur else cur ++ [(m.id, [])]) (initCurrent members) := rfl
  have hown : (initState parts members oracle).owner
      = (initCurrent members).flatMap (fun cp => cp.2.map (fun p => (p, cp.1))) := rfl
  rw [hcur, hown]
  -- an entry of the owner list comes from a list of cur0
  have ownMem : ∀ p c, (p, c) ∈ (initCurrent members).flatMap (fun cp => cp.2.map (fun p => (p, cp.1))) ↔
      ∃ ps, (c, ps) ∈ initCurrent members ∧ p ∈ ps := by
    intro p c
    simp only [List.mem_flatMap, List.mem_map]
    constructor
    · rintro ⟨cp, hcp, q, hq, heq⟩
      injection heq with e1 e2
      subst e1; subst e2
      exact ⟨cp.2, hcp, hq⟩
    · rintro ⟨ps, hps, hp⟩
      exact ⟨(c, ps), hps, p, hp, rfl⟩
  refine ⟨⟨hsp.1, ?_, ?_, ?_⟩, hsp.2.2.2.1⟩
  · intro cp hcp
    rcases hsp.2.1 cp hcp with h1 | h1
    · exact (hg.g2 cp h1).1
    · rw [h1]; simp
  · intro cp hcp p hp
    rcases hsp.2.1 cp hcp with h1 | h1
    · -- (p, cp.1) is an entry of owner, and any entry with key p names the same consumer
      have hin : (p, cp.1) ∈ (initCurrent members).flatMap (fun cp => cp.2.map (fun p => (p, cp.1))) :=
        (ownMem p cp.1).mpr ⟨cp.2, h1, hp⟩
      have hhas : alHas ((initCurrent members).flatMap (fun cp => cp.2.map (fun p => (p, cp.1)))) p = true :=
        (alHas_iff_mem_keys _ _).mpr (List.mem_map.mpr ⟨(p, cp.1), hin, rfl⟩)
      obtain ⟨c', hc'⟩ := (alHas_iff _ _).mp hhas
      have hin' := alGet_mem _ _ _ hc'
      obtain ⟨ps', hps', hp'⟩ := (ownMem p c').mp hin'
      have e1 : (p, c') ∈ claims := (hg.g2 (c', ps') hps').2 p hp'
      have e2 : (p, cp.1) ∈ claims := (hg.g2 cp h1).2 p hp
      have := nodup_unique_val claims hcn p c' cp.1 e1 e2
      rw [hc', this]
    · rw [h1] at hp; cases hp
  · intro p c hp
    have hin := alGet_mem _ _ _ hp
    obtain ⟨ps, hps, hpp⟩ := (ownMem p c).mp hin
    exact ⟨ps, hsp.2.2.1 _ hps, hpp⟩

theorem alGet_filter_key {α β : Type} [BEq α] [LawfulBEq α] (l : List (α × β)) (f : α → Bool) (k : α) :
    alGet (l.filter (fun kv => f kv.1)) k = if f k then alGet l k else none := by
  induction l with
  | nil => simp [alGet]
  | cons x xs ih =>
    obtain ⟨k0, v0⟩ := x
    simp only [List.filter_cons]
    by_cases hk : (k0 == k) = true
    · have : k0 = k := by simpa using hk
      subst this
      by_cases hf : f k0 = true
      · simp [hf, alGet_cons]
      · have hf' : f k0 = false := by simpa using hf
        simp only [hf', Bool.false_eq_true, if_false, ih]
    · by_cases hf0 : f k0 = true
      · simp only [hf0, if_true, alGet_cons, hk, Bool.false_eq_true, if_false, ih]
      · have hf0' : f k0 = false := by simpa using hf0
        simp only [hf0', Bool.false_eq_true, if_false, alGet_cons, hk, ih]

/-- `_populate_partitions_to_reassign` keeps cur and owner in agreement -/
theorem populate_ownCore (s : St) (h : OwnCore s.cur s.owner) :
    OwnCore (populatePartitionsToReassign s).cur (populatePartitionsToReassign s).owner := by
  unfold populatePartitionsToReassign
  simp only
  have hkeys : keysOf (s.cur.map (fun cp => (cp.1, cp.2.filter (fun p => keepFor s cp.1 p)))) = keysOf s.cur := by
    unfold keysOf; simp [List.map_map, Function.comp_def]
  have notRemoved : ∀ cp ∈ s.cur, ∀ p ∈ cp.2, keepFor s cp.1 p = true →
      p ∉ s.cur.flatMap (fun cp => cp.2.filter (fun p => !keepFor s cp.1 p)) := by
    intro cp hcp p hp hkeep hrem
    obtain ⟨cp2, hcp2, hp2⟩ := List.mem_flatMap.mp hrem
    obtain ⟨hp2in, hp2k⟩ := List.mem_filter.mp hp2
    have o1 := h.HO cp hcp p hp
    have o2 := h.HO cp2 hcp2 p hp2in
    rw [o1] at o2; injection o2 with o2
    rw [← o2, hkeep] at hp2k; simp at hp2k
  refine ⟨by rw [hkeys]; exact h.K, ?_, ?_, ?_⟩
  · intro cp hcp
    obtain ⟨cp0, hcp0, heq⟩ := List.mem_map.mp hcp
    subst heq
    exact List.Nodup.sublist List.filter_sublist (h.N cp0 hcp0)
  · intro cp hcp p hp
    obtain ⟨cp0, hcp0, heq⟩ := List.mem_map.mp hcp
    subst heq
    simp only at hp ⊢
    obtain ⟨hp0, hkeep⟩ := List.mem_filter.mp hp
    have := alGet_filter_key s.owner
      (fun k => !(s.cur.flatMap (fun cp => cp.2.filter (fun p => !keepFor s cp.1 p))).contains k) p
    rw [this]
    have hnr := notRemoved cp0 hcp0 p hp0 hkeep
    have hc : (s.cur.flatMap (fun cp => cp.2.filter (fun p => !keepFor s cp.1 p))).contains p = false := by
      cases hcc : (s.cur.flatMap (fun cp => cp.2.filter (fun p => !keepFor s cp.1 p))).contains p with
      | false => rfl
      | true => exact absurd (by simpa using hcc) hnr
    rw [hc]
    exact h.HO cp0 hcp0 p hp0
  · intro p c hp
    have := alGet_filter_key s.owner
      (fun k => !(s.cur.flatMap (fun cp => cp.2.filter (fun p => !keepFor s cp.1 p))).contains k) p
    rw [this] at hp
    split at hp
    · rename_i hnr
      obtain ⟨ps, hps, hpp⟩ := h.OH p c hp
      refine ⟨ps.filter (fun p => keepFor s c p), List.mem_map.mpr ⟨(c, ps), hps, rfl⟩, ?_⟩
      apply List.mem_filter.mpr
      refine ⟨hpp, ?_⟩
      cases hk : keepFor s c p with
      | true => rfl
      | false =>
        exfalso
        have : p ∈ s.cur.flatMap (fun cp => cp.2.filter (fun p => !keepFor s cp.1 p)) :=
          List.mem_flatMap.mpr ⟨(c, ps), hps, List.mem_filter.mpr ⟨hpp, by simp [hk]⟩⟩
        simp [List.contains_iff_mem, this] at hnr
    · cases hp

end AkVerif.StickyAlg

namespace AkVerif.StickyAlg
open AkVerif.Assign

/-- what must hold of the state handed to `balance` -/
structure PreBalance (s : St) : Prop where
  core : OwnCore s.cur s.owner
  un_nodup : s.unassigned.Nodup
  un_free : ∀ p ∈ s.unassigned, alGet s.owner p = none
  c2p_nodup : (keysOf s.c2p).Nodup
  c2p_cur : ∀ c ∈ keysOf s.c2p, c ∈ keysOf s.cur
  pot : Pot s

theorem own_of_core (s : St) (h : OwnCore s.cur s.owner) : Own { s with subs := s.cur.map (·.1) } [] := by
  refine ⟨by simpa using h.K, by simpa using h.N, by simpa using h.HO, ?_, ?_, ?_⟩
  · intro p c hp; obtain ⟨ps, h1, h2⟩ := h.OH p c hp; exact ⟨ps, by simpa using h1, h2⟩
  · intro c hc; exact hc
  · exact h.K

theorem assignUnassigned_own (s : St) (h : Own s []) (hnd : s.unassigned.Nodup)
    (hfree : ∀ p ∈ s.unassigned, alGet s.owner p = none) :
    Own (assignUnassigned s) [] ∧ Keeps s (assignUnassigned s) ∧
    (assignUnassigned s).c2p = s.c2p ∧
    (∀ p ∈ s.unassigned, (consumersOf s p).isEmpty = false →
      (∃ c ∈ s.subs, (potOf s c).contains p = true) → (alGet (assignUnassigned s).owner p).isSome) := by
  unfold assignUnassigned
  have := assignFold_own s.unassigned s [] h hnd hfree
  simp only at this
  obtain ⟨h1, h2, h3, _, h5⟩ := this
  refine ⟨own_setSubsFlags _ _ [] h1 rfl rfl rfl, ⟨h2.1, h2.2⟩, h3, h5⟩

theorem setAsideFixed_own (s : St) (h : Own s []) (hn : (keysOf s.c2p).Nodup)
    (hk : ∀ c ∈ keysOf s.c2p, c ∈ keysOf s.cur) :
    Own (setAsideFixed s).1 (setAsideFixed s).2 ∧ (setAsideFixed s).1.owner = s.owner := by
  unfold setAsideFixed
  have hn' : (s.c2p.map (·.1)).Nodup := hn
  have hk' : ∀ c ∈ s.c2p.map (·.1), c ∈ keysOf s.cur := hk
  exact setAsideFold_own (s.c2p.map (·.1)) s [] h hn' hk'

theorem finishBalance_own (ini : Bool) (s2 s4 : St) (fx) (performed : Bool)
    (h2 : Own s2 fx) (h4 : Own s4 fx) (hk : Keeps s2 s4)
    (hok : (finishBalance ini s2.cur s2.owner fx s4 performed).failed = none) :
    Own (finishBalance ini s2.cur s2.owner fx s4 performed) [] ∧
    (∀ p, (alGet s2.owner p).isSome → (alGet (finishBalance ini s2.cur s2.owner fx s4 performed).owner p).isSome) := by
  unfold finishBalance at hok ⊢
  split
  · rename_i hf
    simp only [hf, if_true] at hok
    rw [hok] at hf; cases hf
  · simp only
    have hrev : Own (if (!ini && performed && decide (balanceScore s4.cur ≥ balanceScore s2.cur)) = true
        then { s4 with cur := s2.cur, owner := s2.owner } else s4) fx ∧
        (∀ p, (alGet s2.owner p).isSome → (alGet (if (!ini && performed && decide (balanceScore s4.cur ≥ balanceScore s2.cur)) = true
        then { s4 with cur := s2.cur, owner := s2.owner } else s4).owner p).isSome) := by
      split
      · exact ⟨own_setSubsFlags s2 _ fx h2 rfl rfl hk.1, fun p hp => hp⟩
      · exact ⟨h4, hk.2⟩
    generalize (if (!ini && performed && decide (balanceScore s4.cur ≥ balanceScore s2.cur)) = true
        then { s4 with cur := s2.cur, owner := s2.owner } else s4) = s5 at hrev
    have := addBack_own fx s5 hrev.1
    exact ⟨this.1, fun p hp => by rw [this.2]; exact hrev.2 p hp⟩

theorem balance_own (fuel : Nat) (s0 s' : St) (h : PreBalance s0) (hb : balance fuel s0 = some s')
    (hok : s'.failed = none) :
    Own s' [] ∧ s'.c2p = s0.c2p ∧
    (∀ p ∈ s0.unassigned, (consumersOf s0 p).isEmpty = false →
      (∃ c ∈ keysOf s0.cur, (potOf s0 c).contains p = true) → (alGet s'.owner p).isSome) ∧
    (∀ p, (alGet s0.owner p).isSome → (alGet s'.owner p).isSome) := by
  have hc2p := (balance_pot fuel s0 s' h.pot hb).2
  unfold balance at hb
  simp only at hb
  split at hb
  · injection hb with hb; rw [← hb] at hok; cases hok
  · have hown0 := own_of_core s0 h.core
    have ha := assignUnassigned_own _ hown0 h.un_nodup h.un_free
    have hpa := assignUnassigned_pot _ (pot_setSubs s0 h.pot (s0.cur.map (·.1)))
    generalize hsa : assignUnassigned { s0 with subs := s0.cur.map (·.1) } = sa at ha hpa hb
    have hcur_keys : ∀ c ∈ keysOf s0.c2p, c ∈ keysOf sa.cur := by
      intro c hc
      have := ha.1.S c (by rw [ha.2.1.1]; exact h.c2p_cur c hc)
      exact this
    have hf := setAsideFixed_own sa ha.1 (by rw [ha.2.2.1]; exact h.c2p_nodup)
      (by rw [ha.2.2.1]; exact hcur_keys)
    have hpf := setAsideFixed_pot sa hpa.1
    cases hsf : setAsideFixed sa with
    | mk s2 fixedAsg =>
      rw [hsf] at hb hf hpf
      simp only at hb hf hpf
      cases hrb : reassignBoth fuel s2 with
      | none => rw [hrb] at hb; cases hb
      | some r =>
        rw [hrb] at hb
        obtain ⟨s4, performed⟩ := r
        simp only at hb
        injection hb with hb
        have h4 := reassignBoth_own fuel s2 (s4, performed) fixedAsg hf.1 hpf.1 hrb
        simp only at h4
        rw [← hb] at hok
        have hfin := finishBalance_own _ s2 s4 fixedAsg performed hf.1 h4.1 h4.2 hok
        rw [← hb]
        refine ⟨hfin.1, by rw [hb]; exact hc2p, ?_, ?_⟩
        · intro p hp hne hex
          apply hfin.2 p
          rw [hf.2]
          apply ha.2.2.2 p hp hne
          obtain ⟨c, hc, hpc⟩ := hex
          exact ⟨c, hc, hpc⟩
        · intro p hp
          apply hfin.2 p
          rw [hf.2]
          exact ha.2.1.2 p hp

end AkVerif.StickyAlg

namespace AkVerif.StickyAlg
open AkVerif.Assign

/-! ### the work lists -/

theorem insertBy_perm {α} (lt : α → α → Bool) (a : α) (l : List α) : (insertBy lt a l).Perm (a :: l) := by
  induction l with
  | nil => exact List.Perm.refl _
  | cons x r ih =>
    unfold insertBy
    split
    · exact List.Perm.refl _
    · exact (List.Perm.cons x ih).trans (List.Perm.swap a x r)

theorem sortBy_perm {α} (lt : α → α → Bool) (l : List α) : (sortBy lt l).Perm l := by
  induction l with
  | nil => exact List.Perm.refl _
  | cons x r ih =>
    show (insertBy lt x (sortBy lt r)).Perm (x :: r)
    exact (insertBy_perm lt x _).trans (List.Perm.cons x ih)

theorem foldl_removeFirst_sub {α} [BEq α] (ys : List α) : ∀ (l : List α) (x : α),
    x ∈ ys.foldl removeFirst l → x ∈ l := by
  induction ys with
  | nil => intro l x h; exact h
  | cons y r ih => intro l x h; exact mem_removeFirst _ _ _ (ih _ x h)

theorem foldl_removeFirst_nodup {α} [BEq α] [LawfulBEq α] (ys : List α) : ∀ (l : List α), l.Nodup →
    (ys.foldl removeFirst l).Nodup ∧ (∀ x ∈ ys, x ∉ ys.foldl removeFirst l) ∧
    (∀ x ∈ l, x ∉ ys → x ∈ ys.foldl removeFirst l) := by
  induction ys with
  | nil =>
    intro l h
    refine ⟨h, ?_, fun x hx _ => hx⟩
    intro x hx; cases hx
  | cons y r ih =>
    intro l h
    obtain ⟨n1, n2, n3⟩ := removeFirst_nodup l y h
    obtain ⟨i1, i2, i3⟩ := ih (removeFirst l y) n1
    refine ⟨i1, ?_, ?_⟩
    · intro x hx
      rcases List.mem_cons.mp hx with rfl | hx
      · intro hm; exact n2 (foldl_removeFirst_sub r _ _ hm)
      · exact i2 x hx
    · intro x hx hnot
      simp only [List.mem_cons, not_or] at hnot
      exact i3 x (n3 x hx hnot.1) hnot.2

theorem mem_of_mem_dropLast' {α} {l : List α} {x : α} (h : x ∈ l.dropLast) : x ∈ l :=
  (List.dropLast_sublist l).subset h

theorem getLast_not_mem_dropLast {α} (l : List α) (p : α) (h : l.Nodup) (hl : l.getLast? = some p) :
    p ∉ l.dropLast := by
  induction l with
  | nil => simp at hl
  | cons a r ih =>
    cases r with
    | nil => simp
    | cons b r' =>
      rw [List.nodup_cons] at h
      have hl' : (b :: r').getLast? = some p := by simpa [List.getLast?_cons_cons] using hl
      have hp : p ∈ b :: r' := List.mem_of_getLast? hl'
      simp only [List.dropLast_cons_cons, List.mem_cons, not_or]
      refine ⟨?_, ih h.2 hl'⟩
      intro he; subst he; exact h.1 hp

/-- the round-robin listing never lists a partition twice -/
theorem roundRobinList_nodup (fuel : Nat) : ∀ (asg : List (Member × List TP)) (acc : List TP),
    acc.Nodup → (keysOf asg).Nodup → (∀ cp ∈ asg, cp.2.Nodup) →
    (∀ x ∈ acc, ∀ cp ∈ asg, x ∉ cp.2) →
    (∀ cp1 ∈ asg, ∀ cp2 ∈ asg, cp1.1 ≠ cp2.1 → ∀ x ∈ cp1.2, x ∉ cp2.2) →
    (roundRobinList fuel asg acc).Nodup := by
  induction fuel with
  | zero => intro asg acc h _ _ _ _; exact h
  | succ n ih =>
    intro asg acc hacc hk hn hdis hpair
    unfold roundRobinList
    simp only
    split
    · exact hacc
    · rename_i c ps hmax
      have hin : (c, ps) ∈ asg := by
        have := List.mem_of_getLast? hmax
        have := (mem_sortBy _ _ _).mp this
        simpa using this
      have hhas : alHas asg c = true := (alHas_iff_mem_keys _ _).mpr (List.mem_map.mpr ⟨(c, ps), hin, rfl⟩)
      split
      · -- empty list: the consumer is dropped
        apply ih
        · exact hacc
        · rw [keys_alDel]; exact List.Nodup.sublist List.filter_sublist hk
        · intro cp hcp; exact hn cp ((mem_alDel _ _ _).mp hcp).1
        · intro x hx cp hcp; exact hdis x hx cp ((mem_alDel _ _ _).mp hcp).1
        · intro cp1 h1 cp2 h2; exact hpair cp1 ((mem_alDel _ _ _).mp h1).1 cp2 ((mem_alDel _ _ _).mp h2).1
      · rename_i p hlast
        have hp : p ∈ ps := List.mem_of_getLast? hlast
        have hpd : p ∉ ps.dropLast := getLast_not_mem_dropLast ps p (hn _ hin) hlast
        have memNew : ∀ cp, cp ∈ alSet asg c ps.dropLast → cp = (c, ps.dropLast) ∨ (cp ∈ asg ∧ cp.1 ≠ c) := by
          intro cp hcp
          rcases mem_alSet _ _ _ _ hcp with h1 | ⟨h1, h2⟩
          · exact Or.inl h1
          · exact Or.inr ⟨h1, by simpa using h2⟩
        apply ih
        · rw [List.nodup_append]
          refine ⟨hacc, by simp, ?_⟩
          intro a ha b hb; simp at hb
          intro he; rw [hb] at he; rw [he] at ha
          exact hdis p ha (c, ps) hin hp
        · rw [keys_alSet_has _ _ _ hhas]; exact hk
        · intro cp hcp
          rcases memNew cp hcp with heq | ⟨h1, _⟩
          · rw [heq]; exact List.Nodup.sublist (List.dropLast_sublist _) (hn _ hin)
          · exact hn cp h1
        · intro x hx cp hcp
          rcases List.mem_append.mp hx with hx | hx
          · rcases memNew cp hcp with heq | ⟨h1, _⟩
            · rw [heq]; intro hm; exact hdis x hx (c, ps) hin (mem_of_mem_dropLast' hm)
            · exact hdis x hx cp h1
          · simp at hx; rw [hx]
            rcases memNew cp hcp with heq | ⟨h1, h2⟩
            · rw [heq]; exact hpd
            · exact hpair (c, ps) hin cp h1 (fun he => h2 he.symm) p hp
        · intro cp1 h1 cp2 h2 hne x hx
          rcases memNew cp1 h1 with e1 | ⟨i1, _⟩ <;> rcases memNew cp2 h2 with e2 | ⟨i2, _⟩
          · rw [e1, e2] at hne; exact absurd rfl hne
          · rw [e1] at hx hne
            exact hpair (c, ps) hin cp2 i2 hne x (mem_of_mem_dropLast' hx)
          · rw [e2] at hne ⊢
            intro hm; exact hpair cp1 i1 (c, ps) hin hne x hx (mem_of_mem_dropLast' hm)
          · exact hpair cp1 i1 cp2 i2 hne x hx

end AkVerif.StickyAlg

namespace AkVerif.StickyAlg
open AkVerif.Assign

theorem allTps_nodup (parts : List (Topic × List Nat)) (hk : (parts.map (·.1)).Nodup)
    (hps : ∀ tps ∈ parts, tps.2.Nodup) :
    (parts.flatMap (fun tps => tps.2.map (fun p => ((tps.1, p) : TP)))).Nodup := by
  induction parts with
  | nil => simp
  | cons a r ih =>
    simp only [List.map_cons, List.nodup_cons] at hk
    rw [List.flatMap_cons, List.nodup_append]
    refine ⟨?_, ih hk.2 (fun tps h => hps tps (List.mem_cons_of_mem _ h)), ?_⟩
    · have := hps a List.mem_cons_self
      unfold List.Nodup at this ⊢
      rw [List.pairwise_map]
      exact this.imp (fun hne he => hne (by injection he))
    · intro x hx y hy
      obtain ⟨p, _, rfl⟩ := List.mem_map.mp hx
      obtain ⟨tps, htps, hy'⟩ := List.mem_flatMap.mp hy
      obtain ⟨q, _, rfl⟩ := List.mem_map.mp hy'
      intro he; injection he with h1 _
      exact hk.1 (List.mem_map.mpr ⟨tps, htps, h1.symm⟩)

theorem partsBySize_nodup (s : St) (h : (keysOf s.p2c).Nodup) : (partsBySize s).Nodup := by
  unfold partsBySize
  have h' : (s.p2c.map (·.1)).Nodup := h
  exact ((sortBy_perm _ s.p2c).map (·.1)).nodup_iff.mpr h'

theorem partsBySize_mem (s : St) (p : TP) : p ∈ partsBySize s ↔ p ∈ keysOf s.p2c := by
  unfold partsBySize
  show _ ↔ p ∈ s.p2c.map (·.1)
  exact ((sortBy_perm _ s.p2c).map (·.1)).mem_iff

theorem populateSorted_nodup (s : St) (hp : (keysOf s.p2c).Nodup) (hc : OwnCore s.cur s.owner) :
    (populateSortedPartitions s).sortedParts.Nodup ∧
    (∀ p ∈ keysOf s.p2c, p ∈ (populateSortedPartitions s).sortedParts) := by
  unfold populateSortedPartitions
  have hbs := partsBySize_nodup s hp
  split
  · simp only
    generalize hrr : roundRobinList _ _ _ = rr
    have hrrnd : rr.Nodup := by
      rw [← hrr]
      apply roundRobinList_nodup
      · exact List.nodup_nil
      · have : keysOf (s.cur.map (fun cp => (cp.1, cp.2.filter (fun p => alHas s.p2c p)))) = keysOf s.cur := by
          unfold keysOf; simp [List.map_map, Function.comp_def]
        rw [this]; exact hc.K
      · intro cp hcp
        obtain ⟨cp0, h0, rfl⟩ := List.mem_map.mp hcp
        exact List.Nodup.sublist List.filter_sublist (hc.N cp0 h0)
      · intro x hx; cases hx
      · intro cp1 h1 cp2 h2 hne x hx hx2
        obtain ⟨a, ha, rfl⟩ := List.mem_map.mp h1
        obtain ⟨b, hb, rfl⟩ := List.mem_map.mp h2
        have o1 := hc.HO a ha x (List.mem_filter.mp hx).1
        have o2 := hc.HO b hb x (List.mem_filter.mp hx2).1
        rw [o1] at o2; injection o2 with o2
        exact hne o2
    refine ⟨?_, ?_⟩
    · rw [List.nodup_append]
      refine ⟨hrrnd, List.Nodup.sublist List.filter_sublist hbs, ?_⟩
      intro a ha b hb
      have := (List.mem_filter.mp hb).2
      intro he; subst he
      simp [List.contains_iff_mem, ha] at this
    · intro p hp'
      by_cases hin : p ∈ rr
      · exact List.mem_append_left _ hin
      · apply List.mem_append_right
        apply List.mem_filter.mpr
        refine ⟨(partsBySize_mem s p).mpr hp', ?_⟩
        simp [List.contains_iff_mem, hin]
  · exact ⟨hbs, fun p hp' => (partsBySize_mem s p).mpr hp'⟩

/-- the state handed to `balance` by `assign` -/
theorem initState_preBalance (parts : List (Topic × List Nat)) (members : List MemberIn) (oracle : List TP)
    (hparts : (parts.map (·.1)).Nodup) (hps : ∀ tps ∈ parts, tps.2.Nodup)
    (hmem : (members.map (·.id)).Nodup) :
    PreBalance (populatePartitionsToReassign (populateSortedPartitions (initState parts members oracle))) ∧
    (∀ p ∈ keysOf (initState parts members oracle).p2c,
      p ∈ (populatePartitionsToReassign (populateSortedPartitions (initState parts members oracle))).unassigned ∨
      (alGet (populatePartitionsToReassign (populateSortedPartitions (initState parts members oracle))).owner p).isSome) := by
  have hf := populateSorted_fields (initState parts members oracle)
  obtain ⟨f1, f2, f3, f4, f5, f6, f7⟩ := hf
  have hcore0 := initState_ownCore parts members oracle
  have hp2c : (keysOf (initState parts members oracle).p2c).Nodup := by
    have : keysOf (initState parts members oracle).p2c = subscribedTps parts members := by
      unfold initState keysOf; simp [List.map_map, Function.comp_def]
    rw [this]
    unfold subscribedTps
    exact List.Nodup.sublist List.filter_sublist (allTps_nodup parts hparts hps)
  have hsorted := populateSorted_nodup (initState parts members oracle) hp2c hcore0.1
  generalize hs1 : populateSortedPartitions (initState parts members oracle) = s1 at *
  have hcore1 : OwnCore s1.cur s1.owner := by rw [f1, f2]; exact hcore0.1
  have hcore2 := populate_ownCore s1 hcore1
  -- the kept partitions are exactly the owned ones
  have kept_owned : ∀ p c, alGet (populatePartitionsToReassign s1).owner p = some c →
      p ∈ s1.cur.flatMap (fun cp => cp.2.filter (fun p => keepFor s1 cp.1 p)) := by
    intro p c hp
    obtain ⟨ps, hps', hpp⟩ := hcore2.OH p c hp
    unfold populatePartitionsToReassign at hps'
    simp only at hps'
    obtain ⟨cp0, h0, heq⟩ := List.mem_map.mp hps'
    injection heq with e1 e2
    subst e1; subst e2
    exact List.mem_flatMap.mpr ⟨cp0, h0, hpp⟩
  have owned_kept : ∀ p, p ∈ s1.cur.flatMap (fun cp => cp.2.filter (fun p => keepFor s1 cp.1 p)) →
      (alGet (populatePartitionsToReassign s1).owner p).isSome := by
    intro p hp
    obtain ⟨cp0, h0, hpp⟩ := List.mem_flatMap.mp hp
    have : (cp0.1, cp0.2.filter (fun p => keepFor s1 cp0.1 p)) ∈ (populatePartitionsToReassign s1).cur := by
      unfold populatePartitionsToReassign; simp only
      exact List.mem_map.mpr ⟨cp0, h0, rfl⟩
    have := hcore2.HO _ this p hpp
    rw [this]; rfl
  have hun : (populatePartitionsToReassign s1).unassigned
      = (s1.cur.flatMap (fun cp => cp.2.filter (fun p => keepFor s1 cp.1 p))).foldl removeFirst s1.sortedParts := rfl
  obtain ⟨u1, u2, u3⟩ := foldl_removeFirst_nodup
    (s1.cur.flatMap (fun cp => cp.2.filter (fun p => keepFor s1 cp.1 p))) s1.sortedParts hsorted.1
  have hkeys2 : keysOf (populatePartitionsToReassign s1).cur = keysOf s1.cur := by
    unfold populatePartitionsToReassign keysOf; simp [List.map_map, Function.comp_def]
  refine ⟨⟨hcore2, by rw [hun]; exact u1, ?_, ?_, ?_, ?_⟩, ?_⟩
  · intro p hp
    cases hg : alGet (populatePartitionsToReassign s1).owner p with
    | none => rfl
    | some c =>
      exfalso
      rw [hun] at hp
      exact u2 p (kept_owned p c hg) hp
  · show (keysOf s1.c2p).Nodup
    rw [f3, initState_c2p]
    unfold keysOf; simp only [List.map_map, Function.comp_def]; exact hmem
  · intro c hc
    rw [hkeys2, f1]
    have hc' : c ∈ keysOf s1.c2p := hc
    rw [f3, initState_c2p] at hc'
    unfold keysOf at hc'
    simp only [List.map_map, Function.comp_def, List.mem_map] at hc'
    obtain ⟨m, hm, rfl⟩ := hc'
    exact hcore0.2 m hm
  · rw [← hs1]; exact initState_pot parts members oracle hparts
  · intro p hp
    by_cases hk : p ∈ s1.cur.flatMap (fun cp => cp.2.filter (fun p => keepFor s1 cp.1 p))
    · exact Or.inr (owned_kept p hk)
    · left; rw [hun]; exact u3 p (hsorted.2 p hp) hk

end AkVerif.StickyAlg

namespace AkVerif.StickyAlg
open AkVerif.Assign

theorem insertSorted_self (t : Topic) (ps : List Nat) (acc : List (Topic × List Nat)) :
    (t, ps) ∈ insertSorted t ps acc := by
  induction acc with
  | nil => simp [insertSorted]
  | cons a r ih =>
    obtain ⟨t', ps'⟩ := a
    unfold insertSorted
    split
    · exact List.mem_cons_self
    · split
      · exact List.mem_cons_self
      · exact List.mem_cons_of_mem _ ih

theorem insertSorted_other (t : Topic) (ps : List Nat) (acc : List (Topic × List Nat)) (x : Topic × List Nat)
    (hx : x ∈ acc) (hne : x.1 ≠ t) : x ∈ insertSorted t ps acc := by
  induction acc with
  | nil => cases hx
  | cons a r ih =>
    obtain ⟨t', ps'⟩ := a
    unfold insertSorted
    split
    · exact List.mem_cons_of_mem _ hx
    · split
      · rename_i heq
        rcases List.mem_cons.mp hx with rfl | hx'
        · simp only at hne; exact absurd heq.symm hne
        · exact List.mem_cons_of_mem _ hx'
      · rcases List.mem_cons.mp hx with rfl | hx'
        · exact List.mem_cons_self
        · exact List.mem_cons_of_mem _ (ih hx')

theorem insertSorted_keys (t : Topic) (ps : List Nat) (acc : List (Topic × List Nat))
    (h : (keysOf acc).Pairwise (· < ·)) :
    (keysOf (insertSorted t ps acc)).Pairwise (· < ·) ∧
    (∀ k ∈ keysOf (insertSorted t ps acc), k = t ∨ k ∈ keysOf acc) := by
  induction acc with
  | nil => simp [insertSorted, keysOf]
  | cons a r ih =>
    obtain ⟨t', ps'⟩ := a
    have hk : keysOf ((t', ps') :: r) = t' :: keysOf r := rfl
    rw [hk, List.pairwise_cons] at h
    unfold insertSorted
    split
    · rename_i hlt
      refine ⟨?_, ?_⟩
      · show (t :: t' :: keysOf r).Pairwise (· < ·)
        rw [List.pairwise_cons]
        refine ⟨?_, List.pairwise_cons.mpr h⟩
        intro k hk'
        rcases List.mem_cons.mp hk' with rfl | hk'
        · exact hlt
        · exact Nat.lt_trans hlt (h.1 k hk')
      · intro k hk'
        have : keysOf ((t, ps) :: (t', ps') :: r) = t :: t' :: keysOf r := rfl
        rw [this] at hk'
        rcases List.mem_cons.mp hk' with rfl | hk'
        · exact Or.inl rfl
        · exact Or.inr (by rw [hk]; exact hk')
    · split
      · rename_i heq
        subst heq
        refine ⟨?_, ?_⟩
        · show (t :: keysOf r).Pairwise (· < ·)
          exact List.pairwise_cons.mpr h
        · intro k hk'
          have : keysOf ((t, ps) :: r) = t :: keysOf r := rfl
          rw [this] at hk'
          rcases List.mem_cons.mp hk' with rfl | hk'
          · exact Or.inl rfl
          · exact Or.inr (by rw [hk]; exact List.mem_cons_of_mem _ hk')
      · rename_i hnlt hne
        obtain ⟨i1, i2⟩ := ih h.2
        refine ⟨?_, ?_⟩
        · show (t' :: keysOf (insertSorted t ps r)).Pairwise (· < ·)
          rw [List.pairwise_cons]
          refine ⟨?_, i1⟩
          intro k hk'
          rcases i2 k hk' with hkt | hk'
          · rw [hkt]
            have h1 : ¬ t < t' := hnlt
            have h2 : ¬ t = t' := hne
            show t' < t
            exact Nat.lt_of_le_of_ne (Nat.le_of_not_lt h1) (fun e => h2 e.symm)
          · exact h.1 k hk'
        · intro k hk'
          have : keysOf ((t', ps') :: insertSorted t ps r) = t' :: keysOf (insertSorted t ps r) := rfl
          rw [this] at hk'
          rcases List.mem_cons.mp hk' with rfl | hk'
          · exact Or.inr (by rw [hk]; exact List.mem_cons_self)
          · rcases i2 k hk' with h1 | h1
            · exact Or.inl h1
            · exact Or.inr (by rw [hk]; exact List.mem_cons_of_mem _ h1)

theorem pairwise_lt_nodup (l : List Nat) (h : l.Pairwise (· < ·)) : l.Nodup :=
  h.imp (fun hlt => Nat.ne_of_lt hlt)

/-- every held partition shows up in the member's final items -/
theorem finalFor_complete (l : List TP) : ∀ (acc : List (Topic × List Nat)) (q : TP),
    (keysOf acc).Pairwise (· < ·) →
    ((∃ ps, (q.1, ps) ∈ acc ∧ q.2 ∈ ps) ∨ q ∈ l) →
    ∃ ps, (q.1, ps) ∈ l.foldl (fun acc p =>
        match acc.find? (·.1 == p.1) with
        | some (_, ps) => insertSorted p.1 (isort (ps ++ [p.2])) acc
        | none => insertSorted p.1 [p.2] acc) acc ∧ q.2 ∈ ps := by
  induction l with
  | nil =>
    intro acc q _ h
    rcases h with h | h
    · exact h
    · cases h
  | cons p rest ih =>
    intro acc q hsorted h
    simp only [List.foldl_cons]
    apply ih
    · split
      · exact (insertSorted_keys _ _ _ hsorted).1
      · exact (insertSorted_keys _ _ _ hsorted).1
    rcases h with ⟨ps, hps, hq⟩ | h
    · left
      by_cases ht : q.1 = p.1
      · cases hf : acc.find? (·.1 == p.1) with
        | none =>
          exfalso
          have := List.find?_eq_none.mp hf (q.1, ps) hps
          simp [ht] at this
        | some e =>
          obtain ⟨t0, ps0⟩ := e
          simp only
          have hkey := List.find?_some hf
          have hmem := List.mem_of_find?_eq_some hf
          have ht0 : t0 = p.1 := by simpa using hkey
          have hsame : ps0 = ps := by
            subst ht0
            rw [← ht] at hmem
            exact nodup_unique_val acc (pairwise_lt_nodup _ hsorted) q.1 ps0 ps hmem hps
          subst hsame
          refine ⟨isort (ps0 ++ [p.2]), by rw [ht]; exact insertSorted_self _ _ _, ?_⟩
          rw [mem_isort_iff]; exact List.mem_append_left _ hq
      · refine ⟨ps, ?_, hq⟩
        split
        · exact insertSorted_other _ _ _ _ hps ht
        · exact insertSorted_other _ _ _ _ hps ht
    · rcases List.mem_cons.mp h with rfl | h
      · left
        split
        · rename_i t0 ps0 _
          exact ⟨isort (ps0 ++ [q.2]), insertSorted_self _ _ _, by rw [mem_isort_iff]; simp⟩
        · exact ⟨[q.2], insertSorted_self _ _ _, by simp⟩
      · exact Or.inr h

end AkVerif.StickyAlg
