import AkVerif.Lemmas.StickyAlg
/-! second invariant of the sticky port: the owner map and the consumers' lists describe the
    same function (every held partition is owned by its holder and vice versa, no duplicates) -/
namespace AkVerif.StickyAlg
open AkVerif.Assign

set_option linter.unusedSectionVars false
section AL2
variable {α β : Type} [BEq α] [LawfulBEq α]

def keysOf (l : List (α × β)) : List α := l.map (·.1)

theorem alHas_iff_mem_keys (l : List (α × β)) (k : α) : alHas l k = true ↔ k ∈ keysOf l := by
  unfold alHas keysOf
  simp only [List.any_eq_true, List.mem_map]
  constructor
  · rintro ⟨x, hx, he⟩; exact ⟨x, hx, by simpa using he⟩
  · rintro ⟨x, hx, he⟩; exact ⟨x, hx, by simpa using he⟩

theorem keys_alSet_has (l : List (α × β)) (k : α) (v : β) (h : alHas l k = true) :
    keysOf (alSet l k v) = keysOf l := by
  unfold alSet keysOf
  simp only [h, if_true, List.map_map]
  apply List.map_congr_left
  intro x _
  simp only [Function.comp]
  split
  · rename_i hk; have : x.1 = k := by simpa using hk
    exact this.symm
  · rfl

theorem keys_alSet_new (l : List (α × β)) (k : α) (v : β) (h : alHas l k = false) :
    keysOf (alSet l k v) = keysOf l ++ [k] := by
  unfold alSet keysOf
  simp [h]

theorem mem_alSet (l : List (α × β)) (k : α) (v : β) (x : α × β) (h : x ∈ alSet l k v) :
    x = (k, v) ∨ (x ∈ l ∧ (x.1 == k) = false) := by
  unfold alSet at h
  split at h
  · simp only [List.mem_map] at h
    obtain ⟨y, hy, he⟩ := h
    split at he
    · exact Or.inl he.symm
    · rename_i hk; subst he; exact Or.inr ⟨hy, by simpa using hk⟩
  · rename_i hno
    rcases List.mem_append.mp h with h | h
    · right
      refine ⟨h, ?_⟩
      cases hx : (x.1 == k) with
      | false => rfl
      | true =>
        exfalso; apply hno
        unfold alHas; exact List.any_eq_true.mpr ⟨x, h, hx⟩
    · simp at h; exact Or.inl h

theorem mem_alSet_of_ne (l : List (α × β)) (k : α) (v : β) (x : α × β) (hx : x ∈ l)
    (hne : (x.1 == k) = false) : x ∈ alSet l k v := by
  unfold alSet
  split
  · exact List.mem_map.mpr ⟨x, hx, by simp [hne]⟩
  · exact List.mem_append_left _ hx

theorem mem_alSet_self (l : List (α × β)) (k : α) (v : β) : (k, v) ∈ alSet l k v := by
  exact alGet_mem _ _ _ (alGet_alSet_same l k v)

theorem mem_alDel (l : List (α × β)) (k : α) (x : α × β) : x ∈ alDel l k ↔ x ∈ l ∧ (x.1 == k) = false := by
  unfold alDel; simp [List.mem_filter]

theorem keys_alDel (l : List (α × β)) (k : α) : keysOf (alDel l k) = (keysOf l).filter (fun a => !(a == k)) := by
  unfold alDel keysOf
  induction l with
  | nil => rfl
  | cons x xs ih =>
    simp only [List.filter_cons, List.map_cons]
    split <;> simp [ih]

theorem nodup_unique_val (l : List (α × β)) (hn : (keysOf l).Nodup) (k : α) (v w : β)
    (h1 : (k, v) ∈ l) (h2 : (k, w) ∈ l) : v = w := by
  have a := alGet_of_mem_nodup l k v hn h1
  have b := alGet_of_mem_nodup l k w hn h2
  rw [a] at b; injection b

end AL2

theorem removeFirst_nodup {α} [BEq α] [LawfulBEq α] (l : List α) (x : α) (h : l.Nodup) :
    (removeFirst l x).Nodup ∧ x ∉ removeFirst l x ∧ ∀ y, y ∈ l → y ≠ x → y ∈ removeFirst l x := by
  induction l with
  | nil => exact ⟨List.nodup_nil, by simp [removeFirst], by intro y hy; cases hy⟩
  | cons a r ih =>
    rw [List.nodup_cons] at h
    unfold removeFirst
    split
    · rename_i hax
      have : a = x := by simpa using hax
      subst this
      exact ⟨h.2, h.1, by
        intro y hy hne
        rcases List.mem_cons.mp hy with rfl | hy
        · exact absurd rfl hne
        · exact hy⟩
    · rename_i hax
      have hne : a ≠ x := by simpa using hax
      obtain ⟨i1, i2, i3⟩ := ih h.2
      refine ⟨List.nodup_cons.mpr ⟨fun hm => h.1 (mem_removeFirst _ _ _ hm), i1⟩, ?_, ?_⟩
      · intro hm
        rcases List.mem_cons.mp hm with rfl | hm
        · exact hne rfl
        · exact i2 hm
      · intro y hy hyx
        rcases List.mem_cons.mp hy with rfl | hy
        · exact List.mem_cons_self
        · exact List.mem_cons_of_mem _ (i3 y hy hyx)

end AkVerif.StickyAlg
