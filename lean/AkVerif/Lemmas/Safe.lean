import AkVerif.Model.Safe
/-! Helper lemmas for C10: a small "no fault + postcondition" calculus for the `R` monad and the
    per-function specifications of the repaired decoder models. -/
namespace AkVerif.Safe

/-! ## the calculus -/

/-- `r` does not fault and, if it returns, the result satisfies `Q` -/
def Sat {α} (r : R α) (Q : α → Prop) : Prop :=
  match r with
  | .ok a => Q a
  | .exc _ => True
  | .fault _ => False

/-- an end of iteration that is not one of the forbidden outcomes -/
def Clean (e : End) : Prop := ∀ f, e ≠ .fault f

theorem Sat.ok {α} {a : α} {Q : α → Prop} (h : Q a) : Sat (.ok a) Q := h
theorem Sat.pure {α} {a : α} {Q : α → Prop} (h : Q a) : Sat (pure a : R α) Q := h
theorem Sat.exc {α} {e : Exc} {Q : α → Prop} : Sat (.exc e : R α) Q := trivial

theorem Sat.bind {α β} {m : R α} {f : α → R β} {P : α → Prop} {Q : β → Prop}
    (h : Sat m P) (hf : ∀ a, P a → Sat (f a) Q) : Sat (m >>= f) Q := by
  cases m with
  | ok a => exact hf a h
  | exc e => exact trivial
  | fault x => exact h.elim

theorem Sat.mono {α} {m : R α} {P Q : α → Prop} (h : Sat m P) (hpq : ∀ a, P a → Q a) : Sat m Q := by
  cases m with
  | ok a => exact hpq a h
  | exc e => exact trivial
  | fault x => exact h.elim

theorem Sat.noFault {α} {m : R α} {P : α → Prop} (h : Sat m P) (f : Fault) : m ≠ .fault f := by
  intro he; rw [he] at h; exact h

theorem Sat.of_ok {α} {m : R α} {P : α → Prop} {a : α} (h : Sat m P) (he : m = .ok a) : P a := by
  rw [he] at h; exact h

theorem clean_done : Clean .done := by intro f h; cases h
theorem clean_exc (e : Exc) : Clean (.exc e) := by intro f h; cases h

/-! ## primitives -/

theorem rd_ok {b : Bytes} {pos : Int} {n : Nat} (h0 : 0 ≤ pos) (h1 : pos + (n : Int) ≤ (b.length : Int)) :
    rd b pos n = .ok ((b.drop pos.toNat).take n) := by
  unfold rd
  have : ¬ (pos < 0 ∨ pos + (n : Int) > (b.length : Int)) := by omega
  simp [this]

theorem sat_rd {b : Bytes} {pos : Int} {n : Nat} (h0 : 0 ≤ pos) (h1 : pos + (n : Int) ≤ (b.length : Int)) :
    Sat (rd b pos n) (fun _ => True) := by
  rw [rd_ok h0 h1]; exact trivial

theorem toS32_range (n : Nat) : -2147483648 ≤ toS 32 n ∧ toS 32 n < 2147483648 := by
  unfold toS
  simp only [Nat.reducePow, Nat.reduceSub]
  split <;> omega

theorem sat_rdI32 {b : Bytes} {pos : Int} (h0 : 0 ≤ pos) (h1 : pos + 4 ≤ (b.length : Int)) :
    Sat (rdI32 b pos) (fun v => -2147483648 ≤ v ∧ v < 2147483648) := by
  unfold rdI32
  rw [rd_ok h0 (by omega)]
  exact toS32_range _

theorem sat_rdI8 {b : Bytes} {pos : Int} (h0 : 0 ≤ pos) (h1 : pos + 1 ≤ (b.length : Int)) :
    Sat (rdI8 b pos) (fun _ => True) := by
  unfold rdI8; rw [rd_ok h0 (by omega)]; exact trivial

theorem sat_rdI16 {b : Bytes} {pos : Int} (h0 : 0 ≤ pos) (h1 : pos + 2 ≤ (b.length : Int)) :
    Sat (rdI16 b pos) (fun _ => True) := by
  unfold rdI16; rw [rd_ok h0 (by omega)]; exact trivial

theorem sat_rdU32 {b : Bytes} {pos : Int} (h0 : 0 ≤ pos) (h1 : pos + 4 ≤ (b.length : Int)) :
    Sat (rdU32 b pos) (fun _ => True) := by
  unfold rdU32; rw [rd_ok h0 (by omega)]; exact trivial

theorem sat_rdI64 {b : Bytes} {pos : Int} (h0 : 0 ≤ pos) (h1 : pos + 8 ≤ (b.length : Int)) :
    Sat (rdI64 b pos) (fun _ => True) := by
  unfold rdI64; rw [rd_ok h0 (by omega)]; exact trivial

/-! ## the repaired configuration -/

@[simp] theorem fixed_hdrCheck (mr : Bool) : (Cfg.fixed mr).hdrCheck = true := rfl
@[simp] theorem fixed_varintBound (mr : Bool) : (Cfg.fixed mr).varintBound = true := rfl
@[simp] theorem fixed_safeBounds (mr : Bool) : (Cfg.fixed mr).safeBounds = true := rfl
@[simp] theorem fixed_sizeCheck (mr : Bool) : (Cfg.fixed mr).sizeCheck = true := rfl
@[simp] theorem fixed_walkCheck (mr : Bool) : (Cfg.fixed mr).walkCheck = true := rfl
@[simp] theorem fixed_exceptQ (mr : Bool) : (Cfg.fixed mr).exceptQ = true := rfl
@[simp] theorem fixed_pyWalkCheck (mr : Bool) : (Cfg.fixed mr).pyWalkCheck = true := rfl

theorem sat_cyVarintLoop (mr : Bool) (b : Bytes) : ∀ fuel pos shift acc, 0 ≤ pos →
    Sat (cyVarintLoop (Cfg.fixed mr) b fuel pos shift acc)
      (fun r => pos < r.2 ∧ r.2 ≤ (b.length : Int)) := by
  intro fuel
  induction fuel with
  | zero => intro pos shift acc _; unfold cyVarintLoop; exact Sat.exc
  | succ n ih =>
    intro pos shift acc h0
    unfold cyVarintLoop
    by_cases hb : pos < (b.length : Int)
    · have hc : ((Cfg.fixed mr).varintBound && (decide (pos < 0) || decide (pos ≥ (b.length : Int)))) = false := by
        simp; omega
      rw [hc]
      simp only [Bool.false_eq_true, if_false]
      rw [rd_ok h0 (by omega)]
      simp only
      split
      · exact (ih _ _ _ (by omega)).mono (fun r hr => ⟨by omega, hr.2⟩)
      · exact Sat.ok ⟨by show pos < pos + 1; omega, by show pos + 1 ≤ _; omega⟩
    · have hc : ((Cfg.fixed mr).varintBound && (decide (pos < 0) || decide (pos ≥ (b.length : Int)))) = true := by
        simp; omega
      rw [hc]
      exact Sat.exc


theorem sat_cyVarint (mr : Bool) (b : Bytes) (pos : Int) (h0 : 0 ≤ pos) :
    Sat (cyVarint (Cfg.fixed mr) b pos) (fun r => pos < r.2 ∧ r.2 ≤ (b.length : Int)) := by
  unfold cyVarint cyVarintPy
  have h := sat_cyVarintLoop mr b 10 pos 0 0 h0
  cases hr : cyVarintLoop (Cfg.fixed mr) b 10 pos 0 0 with
  | ok a => rw [hr] at h; exact h
  | exc e => exact Sat.exc
  | fault f => rw [hr] at h; exact h.elim

theorem sat_cyCheckBounds (mr : Bool) (b : Bytes) (pos size : Int) :
    Sat (cyCheckBounds (Cfg.fixed mr) b pos size)
      (fun _ => 0 ≤ size ∧ 0 ≤ pos ∧ pos ≤ (b.length : Int) ∧ size ≤ (b.length : Int) - pos) := by
  unfold cyCheckBounds
  simp only [fixed_safeBounds, if_true]
  split
  · exact Sat.exc
  · rename_i h
    simp only [Bool.or_eq_true, decide_eq_true_eq, not_or, Int.not_lt] at h
    exact Sat.ok ⟨by omega, by omega, by omega, by omega⟩

theorem sat_cyField (mr : Bool) (b : Bytes) (pos : Int) :
    Sat (cyField (Cfg.fixed mr) b pos) (fun r => 0 ≤ pos ∧ pos < r.2 ∧ r.2 ≤ (b.length : Int)) := by
  unfold cyField
  apply Sat.bind (sat_cyCheckBounds mr b pos 1)
  intro _ h
  exact (sat_cyVarint mr b pos h.2.1).mono (fun r hr => ⟨h.2.1, hr.1, hr.2⟩)

theorem sat_pyBytesFrom (b : Bytes) (pos size : Int) (hlen : (b.length : Int) < 4611686018427387904)
    (h0 : 0 ≤ pos) (hs : 0 ≤ size) (h1 : size ≤ (b.length : Int) - pos) :
    Sat (pyBytesFrom b pos size) (fun _ => True) := by
  unfold pyBytesFrom ssMax
  have h2 : ¬ size < 0 := by omega
  have h3 : ¬ size > 9223372036854775807 - 33 := by omega
  simp only [h2, h3, if_false]
  rw [rd_ok h0 (by omega)]
  exact trivial

theorem sat_ss (x : Int) (h : -4611686018427387904 < x ∧ x < 4611686018427387904 + 4611686018427387904) :
    Sat (ss x) (fun y => y = x) := by
  unfold ss ssMin ssMax
  have : ¬ (x < -9223372036854775808 ∨ x > 9223372036854775807) := by omega
  simp only [this, if_false]
  exact Sat.ok rfl

theorem sat_cyBytesField (mr : Bool) (b : Bytes) (pos len : Int)
    (hlen : (b.length : Int) < 4611686018427387904) (h0 : 0 ≤ pos) (h1 : pos ≤ (b.length : Int)) :
    Sat (cyBytesField (Cfg.fixed mr) b pos len) (fun r => pos ≤ r.2 ∧ r.2 ≤ (b.length : Int)) := by
  unfold cyBytesField
  split
  · apply Sat.bind (sat_cyCheckBounds mr b pos len)
    intro _ h
    apply Sat.bind (sat_pyBytesFrom b pos len hlen h.2.1 h.1 h.2.2.2)
    intro v _
    apply Sat.bind (sat_ss (pos + len) (by omega))
    intro p hp
    exact Sat.pure ⟨by show pos ≤ p; omega, by show p ≤ _; omega⟩
  · exact Sat.pure ⟨by show pos ≤ pos; omega, h1⟩

theorem sat_cyHeaders (mr : Bool) (b : Bytes) (hlen : (b.length : Int) < 4611686018427387904) :
    ∀ (fuel : Nat) count pos acc, 0 ≤ pos → pos ≤ (b.length : Int) → (fuel : Int) > (b.length : Int) - pos →
    Sat (cyHeaders (Cfg.fixed mr) b fuel count pos acc) (fun r => pos ≤ r.2 ∧ r.2 ≤ (b.length : Int)) := by
  intro fuel
  induction fuel with
  | zero => intro count pos acc h0 h1 hf; omega
  | succ n ih =>
    intro count pos acc h0 h1 hf
    unfold cyHeaders
    split
    · exact Sat.ok ⟨by show pos ≤ pos; omega, h1⟩
    · apply Sat.bind (sat_cyVarint mr b pos h0)
      intro r1 h1'
      obtain ⟨klen, p1⟩ := r1
      simp only at h1' ⊢
      split
      · exact Sat.exc
      · apply Sat.bind (sat_cyCheckBounds mr b p1 klen)
        intro _ hcb
        apply Sat.bind (sat_pyBytesFrom b p1 klen hlen hcb.2.1 hcb.1 hcb.2.2.2)
        intro k _
        apply Sat.bind (sat_ss (p1 + klen) (by omega))
        intro p2 hp2
        apply Sat.bind (sat_cyVarint mr b p2 (by omega))
        intro r3 h3
        obtain ⟨vlen, p3⟩ := r3
        simp only at h3 ⊢
        apply Sat.bind (sat_cyBytesField mr b p3 vlen hlen (by omega) h3.2)
        intro r4 h4
        obtain ⟨v, p4⟩ := r4
        simp only at h4 ⊢
        split
        · exact Sat.exc
        · exact (ih _ _ _ (by omega) h4.2 (by omega)).mono (fun r hr => ⟨by omega, hr.2⟩)


theorem sat_cyReadMsg (mr : Bool) (h : V2Hdr) (b : Bytes) (pos : Int)
    (hlen : (b.length : Int) < 4611686018427387904) :
    Sat (cyReadMsg (Cfg.fixed mr) h b pos) (fun r => 0 ≤ pos ∧ pos < r.2 ∧ r.2 ≤ (b.length : Int)) := by
  unfold cyReadMsg
  apply Sat.bind (sat_cyField mr b pos); intro r1 h1; obtain ⟨length, p1⟩ := r1; simp only at h1 ⊢
  apply Sat.bind (sat_cyField mr b p1); intro r2 h2; obtain ⟨x2, p2⟩ := r2; simp only at h2 ⊢
  apply Sat.bind (sat_cyField mr b p2); intro r3 h3; obtain ⟨tsDelta, p3⟩ := r3; simp only at h3 ⊢
  apply Sat.bind (sat_cyField mr b p3); intro r4 h4; obtain ⟨offDelta, p4⟩ := r4; simp only at h4 ⊢
  apply Sat.bind (sat_cyField mr b p4); intro r5 h5; obtain ⟨klen, p5⟩ := r5; simp only at h5 ⊢
  apply Sat.bind (sat_cyBytesField mr b p5 klen hlen (by omega) h5.2.2)
  intro r6 h6; obtain ⟨key, p6⟩ := r6; simp only at h6 ⊢
  apply Sat.bind (sat_cyField mr b p6); intro r7 h7; obtain ⟨vlen, p7⟩ := r7; simp only at h7 ⊢
  apply Sat.bind (sat_cyBytesField mr b p7 vlen hlen (by omega) h7.2.2)
  intro r8 h8; obtain ⟨value, p8⟩ := r8; simp only at h8 ⊢
  apply Sat.bind (sat_cyField mr b p8); intro r9 h9; obtain ⟨hcount, p9⟩ := r9; simp only at h9 ⊢
  split
  · exact Sat.exc
  · apply Sat.bind (sat_cyHeaders mr b hlen (b.length + 1) hcount p9 [] (by omega) h9.2.2 (by push_cast; omega))
    intro r10 h10; obtain ⟨hdrs, p10⟩ := r10; simp only at h10 ⊢
    split
    · exact Sat.exc
    · exact Sat.pure ⟨h1.1, by show pos < p10; omega, h10.2⟩

theorem clean_cyNextLoop (mr : Bool) (h : V2Hdr) (b : Bytes)
    (hlen : (b.length : Int) < 4611686018427387904) :
    ∀ (fuel : Nat) idx pos acc, 0 ≤ pos → pos ≤ (b.length : Int) → (fuel : Int) > (b.length : Int) - pos →
    Clean (cyNextLoop (Cfg.fixed mr) h b fuel idx pos acc).2 := by
  intro fuel
  induction fuel with
  | zero => intro idx pos acc h0 h1 hf; omega
  | succ n ih =>
    intro idx pos acc h0 h1 hf
    unfold cyNextLoop
    split
    · split
      · exact clean_exc _
      · exact clean_done
    · have hm := sat_cyReadMsg mr h b pos hlen
      cases hr : cyReadMsg (Cfg.fixed mr) h b pos with
      | ok a =>
        obtain ⟨r, pos'⟩ := a
        rw [hr] at hm
        simp only
        exact ih _ _ _ (by have := hm.2.1; omega) hm.2.2 (by have := hm.2.1; omega)
      | exc e => exact clean_exc e
      | fault f => rw [hr] at hm; exact hm.elim

/-- nothing is assumed about a codec except that what it returns fits into memory -/
def CodecBounded (codec : Nat → Bytes → Option Bytes) : Prop :=
  ∀ k d u, codec k d = some u → (u.length : Int) < 4611686018427387904

theorem sat_cyReadHeader (mr : Bool) (b : Bytes) :
    Sat (cyReadHeader (Cfg.fixed mr) b) (fun _ => 61 ≤ (b.length : Int)) := by
  unfold cyReadHeader
  simp only [fixed_hdrCheck, Bool.true_and]
  split
  · exact Sat.exc
  · rename_i hl
    have hl' : 61 ≤ (b.length : Int) := by
      simp only [decide_eq_true_eq, Nat.not_lt] at hl; omega
    apply Sat.bind (sat_rdI64 (by omega) (by omega)); intro _ _
    apply Sat.bind (sat_rdI32 (by omega) (by omega)); intro _ _
    apply Sat.bind (sat_rdI8 (by omega) (by omega)); intro _ _
    apply Sat.bind (sat_rdU32 (by omega) (by omega)); intro _ _
    apply Sat.bind (sat_rdI16 (by omega) (by omega)); intro _ _
    apply Sat.bind (sat_rdI32 (by omega) (by omega)); intro _ _
    apply Sat.bind (sat_rdI64 (by omega) (by omega)); intro _ _
    apply Sat.bind (sat_rdI64 (by omega) (by omega)); intro _ _
    apply Sat.bind (sat_rdI32 (by omega) (by omega)); intro _ _
    apply Sat.bind (sat_rdI64 (by omega) (by omega)); intro _ _
    apply Sat.bind (sat_rdI16 (by omega) (by omega)); intro _ _
    apply Sat.bind (sat_rdI32 (by omega) (by omega)); intro _ _
    exact Sat.pure hl'

theorem sat_cyV2ValidateCrc (h : V2Hdr) (b : Bytes) (hl : 61 ≤ (b.length : Int)) :
    Sat (cyV2ValidateCrc h b) (fun _ => True) := by
  unfold cyV2ValidateCrc
  apply Sat.bind (sat_rd (by omega) (by omega)); intro _ _
  exact Sat.pure trivial

theorem sat_cyUncompress (codec : Nat → Bytes → Option Bytes) (hc : CodecBounded codec) (h : V2Hdr)
    (b : Bytes) (hlen : (b.length : Int) < 4611686018427387904) (hl : 61 ≤ (b.length : Int)) :
    Sat (cyUncompress codec h b)
      (fun r => 0 ≤ r.2 ∧ r.2 ≤ (r.1.length : Int) ∧ (r.1.length : Int) < 4611686018427387904) := by
  unfold cyUncompress
  simp only
  split
  · exact Sat.ok ⟨by show (0 : Int) ≤ 61; omega, hl, hlen⟩
  · split
    · exact Sat.exc
    · split
      · rename_i u hu
        exact Sat.ok ⟨by show (0 : Int) ≤ 0; omega, by show (0 : Int) ≤ _; omega, hc _ _ _ hu⟩
      · exact Sat.exc

theorem clean_cyDefaultBatch (mr : Bool) (codec : Nat → Bytes → Option Bytes) (hc : CodecBounded codec)
    (wantCrc : Bool) (b : Bytes) (hlen : (b.length : Int) < 4611686018427387904) :
    Clean (cyDefaultBatch (Cfg.fixed mr) codec wantCrc b).fin := by
  unfold cyDefaultBatch
  have hh := sat_cyReadHeader mr b
  cases hr : cyReadHeader (Cfg.fixed mr) b with
  | exc e => exact clean_exc e
  | fault f => rw [hr] at hh; exact hh.elim
  | ok h =>
    rw [hr] at hh
    have hl : 61 ≤ (b.length : Int) := hh
    simp only
    have hv := sat_cyV2ValidateCrc h b hl
    have hcrc : Sat (if wantCrc = true then (cyV2ValidateCrc h b).bind (fun x => R.ok (some x)) else R.ok none)
        (fun _ => True) := by
      split
      · exact Sat.bind hv (fun _ _ => trivial)
      · exact trivial
    cases hcr : (if wantCrc = true then (cyV2ValidateCrc h b).bind (fun x => R.ok (some x)) else R.ok none) with
    | exc e => exact clean_exc e
    | fault f => rw [hcr] at hcrc; exact hcrc.elim
    | ok crc =>
      simp only
      have hu := sat_cyUncompress codec hc h b hlen hl
      cases hur : cyUncompress codec h b with
      | exc e => exact clean_exc e
      | fault f => rw [hur] at hu; exact hu.elim
      | ok a =>
        obtain ⟨u, pos⟩ := a
        rw [hur] at hu
        simp only
        exact clean_cyNextLoop mr h u hu.2.2 (u.length + 1) 0 pos [] hu.1 hu.2.1
          (by have := hu.1; push_cast; omega)

/-! ## Cython legacy -/

theorem sat_lgCheckBounds (b : Bytes) (pos size : Int) :
    Sat (lgCheckBounds b pos size) (fun _ => pos + size ≤ (b.length : Int)) := by
  unfold lgCheckBounds
  split
  · exact Sat.exc
  · exact Sat.ok (by omega)

theorem sat_cyLgBytes (mr : Bool) (b : Bytes) (pos : Int) (hlen : (b.length : Int) < 4611686018427387904)
    (h0 : 0 ≤ pos) (h1 : pos + 4 ≤ (b.length : Int)) :
    Sat (cyLgBytes (Cfg.fixed mr) b pos) (fun r => pos + 4 ≤ r.2 ∧ r.2 ≤ (b.length : Int)) := by
  unfold cyLgBytes
  apply Sat.bind (sat_rdI32 h0 h1); intro sz hsz
  simp only [fixed_sizeCheck, Bool.true_and]
  split
  · split
    · exact Sat.exc
    · rename_i hneg
      simp only [decide_eq_true_eq, Int.not_lt] at hneg
      apply Sat.bind (sat_lgCheckBounds b (pos + 4) sz); intro _ hcb
      apply Sat.bind (sat_pyBytesFrom b (pos + 4) sz hlen (by omega) hneg (by omega)); intro v _
      exact Sat.pure ⟨by show pos + 4 ≤ pos + 4 + sz; omega, by show pos + 4 + sz ≤ _; omega⟩
  · exact Sat.pure ⟨by show pos + 4 ≤ pos + 4; omega, by show pos + 4 ≤ _; omega⟩

theorem sat_cyReadRecord (mr : Bool) (b : Bytes) (pos : Int) (hlen : (b.length : Int) < 4611686018427387904)
    (h0 : 0 ≤ pos) :
    Sat (cyReadRecord (Cfg.fixed mr) b pos) (fun r => pos + 26 ≤ r.2 ∧ r.2 ≤ (b.length : Int)) := by
  unfold cyReadRecord
  apply Sat.bind (sat_lgCheckBounds b pos 26); intro _ hcb
  apply Sat.bind (sat_rdI64 h0 (by omega)); intro offset _
  apply Sat.bind (sat_rdU32 (by omega) (by omega)); intro crc _
  apply Sat.bind (sat_rdI8 (by omega) (by omega)); intro magic _
  apply Sat.bind (sat_rdI8 (by omega) (by omega)); intro attrs _
  have hts : Sat (if magic = 1 then do
        lgCheckBounds b pos 34
        let ts ← rdI64 b (pos + 18)
        pure (ts, pos + 26)
      else pure (-1, pos + 18) : R (Int × Int))
      (fun r => (r.2 = pos + 26 ∧ pos + 34 ≤ (b.length : Int)) ∨ r.2 = pos + 18) := by
    split
    · apply Sat.bind (sat_lgCheckBounds b pos 34); intro _ hcb2
      apply Sat.bind (sat_rdI64 (by omega) (by omega)); intro ts _
      exact Sat.pure (Or.inl ⟨rfl, hcb2⟩)
    · exact Sat.pure (Or.inr rfl)
  apply Sat.bind hts; intro r1 h1; obtain ⟨ts, p1⟩ := r1; simp only at h1 ⊢
  apply Sat.bind (sat_cyLgBytes mr b p1 hlen (by omega) (by omega)); intro r2 h2
  obtain ⟨key, p2⟩ := r2; simp only at h2 ⊢
  simp only [fixed_sizeCheck, if_true]
  apply Sat.bind (sat_lgCheckBounds b p2 4); intro _ hcb3
  apply Sat.bind (sat_cyLgBytes mr b p2 hlen (by omega) (by omega)); intro r3 h3
  obtain ⟨value, p3⟩ := r3; simp only at h3 ⊢
  exact Sat.pure ⟨by show pos + 26 ≤ p3; omega, h3.2⟩

theorem sat_cyLastOffsetLoop (mr : Bool) (u : Bytes) (hlen : (u.length : Int) < 4611686018427387904) :
    ∀ (fuel : Nat) pos length, 0 ≤ pos → 1 ≤ fuel → (fuel : Int) > (u.length : Int) - pos →
    pos ≤ (u.length : Int) + 4294967296 →
    (pos = 0 ∨ (14 ≤ length ∧ 0 ≤ pos - (12 + length))) →
    Sat (cyLastOffsetLoop (Cfg.fixed mr) u fuel pos length)
      (fun r => (u.length : Int) ≤ r.1 ∧ (r.1 = 0 ∨ (14 ≤ r.2 ∧ 0 ≤ r.1 - (12 + r.2)))) := by
  intro fuel
  induction fuel with
  | zero =>
    intro pos length h0 h1 hf hp hinv
    omega
  | succ n ih =>
    intro pos length h0 _ hf hp hinv
    unfold cyLastOffsetLoop
    split
    · rename_i hlt
      simp only [fixed_walkCheck, if_true, Bool.true_and]
      apply Sat.bind (sat_lgCheckBounds u pos 12); intro _ hcb
      apply Sat.bind (sat_rdI32 (by omega) (by omega)); intro len' hl'
      split
      · exact Sat.exc
      · rename_i h14
        simp only [decide_eq_true_eq, Int.not_lt] at h14
        apply Sat.bind (sat_ss (pos + (12 + len')) (by omega)); intro p' hp'
        subst hp'
        exact ih _ _ (by omega) (by omega) (by omega) (by omega) (Or.inr ⟨h14, by omega⟩)
    · rename_i hge
      exact Sat.ok ⟨by show (u.length : Int) ≤ pos; omega, hinv⟩


theorem sat_cyLastOffset (mr : Bool) (u : Bytes) (hlen : (u.length : Int) < 4611686018427387904) :
    Sat (cyLastOffset (Cfg.fixed mr) u) (fun _ => True) := by
  unfold cyLastOffset
  simp only [fixed_walkCheck, Bool.true_and]
  split
  · exact Sat.exc
  · rename_i hne
    simp only [decide_eq_true_eq] at hne
    have hpos : 0 < (u.length : Int) := by omega
    apply Sat.bind (sat_cyLastOffsetLoop mr u hlen (u.length + 1) 0 0 (by omega) (by omega)
      (by push_cast; omega) (by omega) (Or.inl rfl))
    intro r hr; obtain ⟨pos, length⟩ := r; simp only at hr ⊢
    split
    · exact Sat.exc
    · rename_i hgt
      have : 14 ≤ length ∧ 0 ≤ pos - (12 + length) := by
        rcases hr.2 with h | h
        · omega
        · exact h
      exact sat_rdI64 (by omega) (by omega)

theorem clean_cyInnerLoop (mr : Bool) (u : Bytes) (hlen : (u.length : Int) < 4611686018427387904)
    (mainTs absBase : Int) (tsFlag : Bool) :
    ∀ (fuel : Nat) pos acc, 0 ≤ pos → pos ≤ (u.length : Int) → (fuel : Int) > (u.length : Int) - pos →
    Clean (cyInnerLoop (Cfg.fixed mr) u mainTs absBase tsFlag fuel pos acc).2 := by
  intro fuel
  induction fuel with
  | zero => intro pos acc h0 h1 hf; omega
  | succ n ih =>
    intro pos acc h0 h1 hf
    unfold cyInnerLoop
    split
    · have hm := sat_cyReadRecord mr u pos hlen h0
      cases hr : cyReadRecord (Cfg.fixed mr) u pos with
      | ok a =>
        obtain ⟨r, pos'⟩ := a
        rw [hr] at hm
        simp only
        split
        · exact clean_exc _
        · exact ih _ _ (by have := hm.1; omega) hm.2 (by have := hm.1; omega)
      | exc e => exact clean_exc e
      | fault f => rw [hr] at hm; exact hm.elim
    · exact clean_done

theorem clean_cyLegacyIter (mr : Bool) (codec : Nat → Bytes → Option Bytes) (hc : CodecBounded codec)
    (magicArg : Int) (main : LRec) : Clean (cyLegacyIter (Cfg.fixed mr) codec magicArg main).2 := by
  unfold cyLegacyIter
  simp only
  split
  · exact clean_done
  · split
    · exact clean_exc _
    · split
      · exact clean_exc _
      · split
        · exact clean_exc _
        · split
          · exact clean_exc _
          · rename_i u hu
            have hul := hc _ _ _ hu
            split
            · have hl := sat_cyLastOffset mr u hul
              cases hlo : cyLastOffset (Cfg.fixed mr) u with
              | exc e => exact clean_exc e
              | fault f => rw [hlo] at hl; exact hl.elim
              | ok last =>
                simp only [fixed_exceptQ, Bool.not_true, Bool.false_and, Bool.false_eq_true, if_false]
                exact clean_cyInnerLoop mr u hul _ _ _ (u.length + 1) 0 [] (by omega) (by omega) (by push_cast; omega)
            · exact clean_cyInnerLoop mr u hul _ _ _ (u.length + 1) 0 [] (by omega) (by omega) (by push_cast; omega)

theorem sat_cyLgValidateCrc (main : LRec) (b : Bytes) (hl : 26 ≤ (b.length : Int)) :
    Sat (cyLgValidateCrc main b) (fun _ => True) := by
  unfold cyLgValidateCrc
  apply Sat.bind (sat_rd (by omega) (by omega)); intro _ _
  exact Sat.pure trivial

theorem clean_cyLegacyBatch (mr : Bool) (codec : Nat → Bytes → Option Bytes) (hc : CodecBounded codec)
    (wantCrc : Bool) (magicArg : Int) (b : Bytes) (hlen : (b.length : Int) < 4611686018427387904) :
    Clean (cyLegacyBatch (Cfg.fixed mr) codec wantCrc magicArg b).fin := by
  unfold cyLegacyBatch
  have hh := sat_cyReadRecord mr b 0 hlen (by omega)
  cases hr : cyReadRecord (Cfg.fixed mr) b 0 with
  | exc e => exact clean_exc e
  | fault f => rw [hr] at hh; exact hh.elim
  | ok a =>
    obtain ⟨main, p⟩ := a
    rw [hr] at hh
    have hl : 26 ≤ (b.length : Int) := by have := hh.1; have := hh.2; omega
    simp only
    have hv := sat_cyLgValidateCrc main b hl
    have hcrc : Sat (if wantCrc = true then (cyLgValidateCrc main b).bind (fun x => R.ok (some x)) else R.ok none)
        (fun _ => True) := by
      split
      · exact Sat.bind hv (fun _ _ => trivial)
      · exact trivial
    cases hcr : (if wantCrc = true then (cyLgValidateCrc main b).bind (fun x => R.ok (some x)) else R.ok none) with
    | exc e => exact clean_exc e
    | fault f => rw [hcr] at hcrc; exact hcrc.elim
    | ok crc =>
      simp only
      exact clean_cyLegacyIter mr codec hc magicArg main

/-! ## Cython MemoryRecords -/

/-- a MemoryRecords run: the end and the end of every batch are clean -/
def CleanMem (r : List BatchOut × End) : Prop := Clean r.2 ∧ ∀ o ∈ r.1, Clean o.fin

theorem take_drop_length_le (b : Bytes) (i n : Nat) : ((b.drop i).take n).length ≤ b.length := by
  simp only [List.length_take, List.length_drop]; omega

theorem clean_cyMemLoop (mr : Bool) (codec : Nat → Bytes → Option Bytes) (hc : CodecBounded codec)
    (wantCrc : Bool) (b : Bytes) (hlen : (b.length : Int) < 4611686018427387904) :
    ∀ (fuel : Nat) pos acc, 0 ≤ pos → pos ≤ (b.length : Int) → (fuel : Int) > (b.length : Int) - pos →
    (∀ o ∈ acc, Clean o.fin) →
    CleanMem (cyMemLoop (Cfg.fixed mr) codec wantCrc b fuel pos acc) := by
  intro fuel
  induction fuel with
  | zero => intro pos acc h0 h1 hf; omega
  | succ n ih =>
    intro pos acc h0 h1 hf hacc
    have hrev : ∀ o ∈ acc.reverse, Clean o.fin := fun o ho => hacc o (List.mem_reverse.mp ho)
    unfold cyMemLoop
    split
    · exact ⟨clean_done, hrev⟩
    · rename_i h12
      have hl := sat_rdI32 (b := b) (pos := pos + 8) (by omega) (by omega)
      cases hr : rdI32 b (pos + 8) with
      | exc e => exact ⟨clean_exc e, hrev⟩
      | fault f => rw [hr] at hl; exact hl.elim
      | ok length =>
        rw [hr] at hl
        simp only
        split
        · exact ⟨clean_done, hrev⟩
        · rename_i hfit
          split
          · exact ⟨clean_exc _, hrev⟩
          · rename_i h14
            have hs := sat_ss (pos + 12 + length) (by have := hl.1; have := hl.2; omega)
            cases hsr : ss (pos + 12 + length) with
            | exc e => exact ⟨clean_exc e, hrev⟩
            | fault f => rw [hsr] at hs; exact hs.elim
            | ok sliceEnd =>
              rw [hsr] at hs
              have hse : sliceEnd = pos + 12 + length := hs
              simp only
              have hm := sat_rdI8 (b := b) (pos := if (Cfg.fixed mr).magicRel = true then pos + 16 else 16)
                (by split <;> omega) (by split <;> omega)
              cases hmr : rdI8 b (if (Cfg.fixed mr).magicRel = true then pos + 16 else 16) with
              | exc e => exact ⟨clean_exc e, hrev⟩
              | fault f => rw [hmr] at hm; exact hm.elim
              | ok magic =>
                simp only
                have hsl : (((b.drop pos.toNat).take (sliceEnd - pos).toNat).length : Int) < 4611686018427387904 := by
                  have := take_drop_length_le b pos.toNat (sliceEnd - pos).toNat
                  omega
                have hout : Clean (if magic < 2 then
                      cyLegacyBatch (Cfg.fixed mr) codec wantCrc magic ((b.drop pos.toNat).take (sliceEnd - pos).toNat)
                    else cyDefaultBatch (Cfg.fixed mr) codec wantCrc ((b.drop pos.toNat).take (sliceEnd - pos).toNat)).fin := by
                  split
                  · exact clean_cyLegacyBatch mr codec hc wantCrc magic _ hsl
                  · exact clean_cyDefaultBatch mr codec hc wantCrc _ hsl
                generalize (if magic < 2 then
                      cyLegacyBatch (Cfg.fixed mr) codec wantCrc magic ((b.drop pos.toNat).take (sliceEnd - pos).toNat)
                    else cyDefaultBatch (Cfg.fixed mr) codec wantCrc ((b.drop pos.toNat).take (sliceEnd - pos).toNat)) = out at hout ⊢
                have hacc' : ∀ o ∈ out :: acc, Clean o.fin := by
                  intro o ho
                  rcases List.mem_cons.mp ho with h | h
                  · rw [h]; exact hout
                  · exact hacc o h
                split
                · exact ih _ _ (by omega) (by omega) (by omega) hacc'
                · rename_i e hne
                  refine ⟨?_, fun o ho => hacc' o (List.mem_reverse.mp ho)⟩
                  intro f hf'
                  apply hout f
                  simpa using hf'

theorem clean_cyMemory (mr : Bool) (codec : Nat → Bytes → Option Bytes) (hc : CodecBounded codec)
    (wantCrc : Bool) (b : Bytes) (hlen : (b.length : Int) < 4611686018427387904) :
    CleanMem (cyMemory (Cfg.fixed mr) codec wantCrc b) := by
  unfold cyMemory
  exact clean_cyMemLoop mr codec hc wantCrc b hlen (b.length + 1) 0 [] (by omega) (by omega)
    (by push_cast; omega) (by intro o ho; cases ho)

theorem clean_cyMemLoopN (mr : Bool) (codec : Nat → Bytes → Option Bytes) (hc : CodecBounded codec)
    (wantCrc : Bool) (b : Bytes) (hlen : (b.length : Int) < 4611686018427387904) :
    ∀ (fuel : Nat) pos acc, 0 ≤ pos → pos ≤ (b.length : Int) → (fuel : Int) > (b.length : Int) - pos →
    (∀ o ∈ acc, Clean o.fin) →
    CleanMem (cyMemLoopN (Cfg.fixed mr) codec wantCrc b fuel pos acc) := by
  intro fuel
  induction fuel with
  | zero => intro pos acc h0 h1 hf; omega
  | succ n ih =>
    intro pos acc h0 h1 hf hacc
    have hrev : ∀ o ∈ acc.reverse, Clean o.fin := fun o ho => hacc o (List.mem_reverse.mp ho)
    unfold cyMemLoopN
    split
    · exact ⟨clean_done, hrev⟩
    · rename_i h12
      have hl := sat_rdI32 (b := b) (pos := pos + 8) (by omega) (by omega)
      cases hr : rdI32 b (pos + 8) with
      | exc e => exact ⟨clean_exc e, hrev⟩
      | fault f => rw [hr] at hl; exact hl.elim
      | ok length =>
        rw [hr] at hl
        simp only
        split
        · exact ⟨clean_exc _, hrev⟩
        · rename_i h14
          cases hsr : ss (pos + 12 + length) with
          | exc e => exact ⟨clean_exc e, hrev⟩
          | fault f =>
            have hs := sat_ss (pos + 12 + length) (by have := hl.1; have := hl.2; omega)
            rw [hsr] at hs; exact hs.elim
          | ok sliceEnd =>
            have hs := sat_ss (pos + 12 + length) (by have := hl.1; have := hl.2; omega)
            rw [hsr] at hs
            have hse : sliceEnd = pos + 12 + length := hs
            simp only
            split
            · exact ⟨clean_done, hrev⟩
            · rename_i hfit
              have hs : True := trivial
              have hm := sat_rdI8 (b := b) (pos := if (Cfg.fixed mr).magicRel = true then pos + 16 else 16)
                (by split <;> omega) (by split <;> omega)
              cases hmr : rdI8 b (if (Cfg.fixed mr).magicRel = true then pos + 16 else 16) with
              | exc e => exact ⟨clean_exc e, hrev⟩
              | fault f => rw [hmr] at hm; exact hm.elim
              | ok magic =>
                simp only
                have hsl : (((b.drop pos.toNat).take (sliceEnd - pos).toNat).length : Int) < 4611686018427387904 := by
                  have := take_drop_length_le b pos.toNat (sliceEnd - pos).toNat
                  omega
                have hout : Clean (if magic < 2 then
                      cyLegacyBatch (Cfg.fixed mr) codec wantCrc magic ((b.drop pos.toNat).take (sliceEnd - pos).toNat)
                    else cyDefaultBatch (Cfg.fixed mr) codec wantCrc ((b.drop pos.toNat).take (sliceEnd - pos).toNat)).fin := by
                  split
                  · exact clean_cyLegacyBatch mr codec hc wantCrc magic _ hsl
                  · exact clean_cyDefaultBatch mr codec hc wantCrc _ hsl
                generalize (if magic < 2 then
                      cyLegacyBatch (Cfg.fixed mr) codec wantCrc magic ((b.drop pos.toNat).take (sliceEnd - pos).toNat)
                    else cyDefaultBatch (Cfg.fixed mr) codec wantCrc ((b.drop pos.toNat).take (sliceEnd - pos).toNat)) = out at hout ⊢
                have hacc' : ∀ o ∈ out :: acc, Clean o.fin := by
                  intro o ho
                  rcases List.mem_cons.mp ho with h | h
                  · rw [h]; exact hout
                  · exact hacc o h
                split
                · exact ih _ _ (by omega) (by omega) (by omega) hacc'
                · rename_i e hne
                  refine ⟨?_, fun o ho => hacc' o (List.mem_reverse.mp ho)⟩
                  intro f hf'
                  apply hout f
                  simpa using hf'

theorem clean_cyMemoryN (mr : Bool) (codec : Nat → Bytes → Option Bytes) (hc : CodecBounded codec)
    (wantCrc : Bool) (b : Bytes) (hlen : (b.length : Int) < 4611686018427387904) :
    CleanMem (cyMemoryN (Cfg.fixed mr) codec wantCrc b) := by
  unfold cyMemoryN
  exact clean_cyMemLoopN mr codec hc wantCrc b hlen (b.length + 1) 0 [] (by omega) (by omega)
    (by push_cast; omega) (by intro o ho; cases ho)

/-! ## Python primitives never fault -/

theorem sat_pyIndex (b : Bytes) (i : Int) :
    Sat (pyIndex b i) (fun _ => 0 ≤ i → i < (b.length : Int)) := by
  unfold pyIndex
  by_cases hi : i < 0
  · simp only [hi, if_true]
    split
    · exact Sat.exc
    · split
      · exact Sat.ok (fun h => by omega)
      · exact Sat.exc
  · simp only [hi, if_false]
    split
    · rename_i x hx
      have := (List.getElem?_eq_some_iff.mp hx).1
      exact Sat.ok (fun _ => by omega)
    · exact Sat.exc

theorem sat_pyVarintLoop (b : Bytes) : ∀ (fuel : Nat) pos shift acc, 0 ≤ pos →
    Sat (pyVarintLoop b fuel pos shift acc) (fun r => pos < (b.length : Int) ∧ pos < r.2) := by
  intro fuel
  induction fuel with
  | zero => intro pos shift acc _; unfold pyVarintLoop; exact Sat.exc
  | succ n ih =>
    intro pos shift acc h0
    unfold pyVarintLoop
    have hi := sat_pyIndex b pos
    cases hr : pyIndex b pos with
    | exc e => exact Sat.exc
    | fault f => rw [hr] at hi; exact hi.elim
    | ok x =>
      rw [hr] at hi
      have hlt : pos < (b.length : Int) := hi h0
      simp only
      split
      · exact (ih _ _ _ (by omega)).mono (fun r hr => ⟨hlt, by omega⟩)
      · exact Sat.ok ⟨hlt, by show pos < pos + 1; omega⟩

theorem sat_pyVarint (b : Bytes) (pos : Int) (h0 : 0 ≤ pos) :
    Sat (pyVarint b pos) (fun r => pos < (b.length : Int) ∧ pos < r.2) := by
  unfold pyVarint; exact sat_pyVarintLoop b 10 pos 0 0 h0

theorem pyBytesField_pos (b : Bytes) (pos len : Int) : pos ≤ (pyBytesField b pos len).2 := by
  unfold pyBytesField
  split
  · show pos ≤ pos + len; omega
  · show pos ≤ pos; omega

theorem sat_pyHeaders (b : Bytes) : ∀ (fuel : Nat) count pos acc, 0 ≤ pos → 1 ≤ fuel →
    (fuel : Int) > (b.length : Int) - pos →
    Sat (pyHeaders b fuel count pos acc) (fun r => pos ≤ r.2) := by
  intro fuel
  induction fuel with
  | zero => intro count pos acc h0 h1 hf; omega
  | succ n ih =>
    intro count pos acc h0 _ hf
    unfold pyHeaders
    split
    · exact Sat.ok (by show pos ≤ pos; omega)
    · apply Sat.bind (sat_pyVarint b pos h0); intro r1 h1; obtain ⟨klen, p1⟩ := r1; simp only at h1 ⊢
      split
      · exact Sat.exc
      · rename_i hk
        split
        · exact Sat.exc
        · apply Sat.bind (sat_pyVarint b (p1 + klen) (by omega)); intro r2 h2
          obtain ⟨vlen, p2⟩ := r2; simp only at h2 ⊢
          have hp := pyBytesField_pos b p2 vlen
          cases hbf : pyBytesField b p2 vlen with
          | mk v p3 =>
            rw [hbf] at hp
            simp only at hp ⊢
            exact (ih _ _ _ (by omega) (by omega) (by omega)).mono (fun r hr => by show pos ≤ r.2; omega)

theorem sat_pyReadMsg (h : V2Hdr) (b : Bytes) (pos : Int) (h0 : 0 ≤ pos) :
    Sat (pyReadMsg h b pos) (fun r => pos < (b.length : Int) ∧ pos < r.2) := by
  unfold pyReadMsg
  apply Sat.bind (sat_pyVarint b pos h0); intro r1 h1; obtain ⟨length, p1⟩ := r1; simp only at h1 ⊢
  apply Sat.bind (sat_pyVarint b p1 (by omega)); intro r2 h2; obtain ⟨x2, p2⟩ := r2; simp only at h2 ⊢
  apply Sat.bind (sat_pyVarint b p2 (by omega)); intro r3 h3; obtain ⟨tsDelta, p3⟩ := r3; simp only at h3 ⊢
  apply Sat.bind (sat_pyVarint b p3 (by omega)); intro r4 h4; obtain ⟨offDelta, p4⟩ := r4; simp only at h4 ⊢
  apply Sat.bind (sat_pyVarint b p4 (by omega)); intro r5 h5; obtain ⟨klen, p5⟩ := r5; simp only at h5 ⊢
  have hk := pyBytesField_pos b p5 klen
  cases hkf : pyBytesField b p5 klen with
  | mk key p6 =>
    rw [hkf] at hk; simp only at hk ⊢
    apply Sat.bind (sat_pyVarint b p6 (by omega)); intro r7 h7; obtain ⟨vlen, p7⟩ := r7; simp only at h7 ⊢
    have hv := pyBytesField_pos b p7 vlen
    cases hvf : pyBytesField b p7 vlen with
    | mk value p8 =>
      rw [hvf] at hv; simp only at hv ⊢
      apply Sat.bind (sat_pyVarint b p8 (by omega)); intro r9 h9; obtain ⟨hcount, p9⟩ := r9; simp only at h9 ⊢
      split
      · exact Sat.exc
      · have h9pos : 0 ≤ p9 := by omega
        apply Sat.bind (sat_pyHeaders b (b.length + 1) hcount p9 [] h9pos (by omega) (by push_cast; omega))
        intro r10 h10; obtain ⟨hdrs, p10⟩ := r10; simp only at h10 ⊢
        split
        · exact Sat.exc
        · exact Sat.pure ⟨h1.1, by show pos < p10; omega⟩

theorem clean_pyNextLoop (h : V2Hdr) (b : Bytes) :
    ∀ (fuel : Nat) idx pos acc, 0 ≤ pos → 1 ≤ fuel → (fuel : Int) > (b.length : Int) - pos →
    Clean (pyNextLoop h b fuel idx pos acc).2 := by
  intro fuel
  induction fuel with
  | zero => intro idx pos acc h0 h1 hf; omega
  | succ n ih =>
    intro idx pos acc h0 _ hf
    unfold pyNextLoop
    split
    · split
      · exact clean_exc _
      · exact clean_done
    · have hm := sat_pyReadMsg h b pos h0
      cases hr : pyReadMsg h b pos with
      | ok a =>
        obtain ⟨r, pos'⟩ := a
        rw [hr] at hm
        simp only
        exact ih _ _ _ (by have := hm.2; omega) (by have := hm.1; omega) (by have := hm.2; omega)
      | exc e => exact clean_exc _
      | fault f => rw [hr] at hm; exact hm.elim


theorem clean_pyDefaultBatch (codec : Nat → Bytes → Option Bytes) (wantCrc : Bool) (b : Bytes) :
    Clean (pyDefaultBatch codec wantCrc b).fin := by
  unfold pyDefaultBatch
  cases hr : pyReadHeader b with
  | exc e => exact clean_exc e
  | fault f =>
    exfalso
    unfold pyReadHeader pyUnpackFrom at hr
    simp only [Int.lt_irrefl, if_false] at hr
    split at hr <;> first | (split at hr <;> cases hr) | cases hr
  | ok h =>
    simp only
    cases hu : pyUncompress codec h b with
    | exc e => exact clean_exc e
    | fault f =>
      exfalso
      unfold pyUncompress at hu
      simp only at hu
      split at hu
      · cases hu
      · split at hu
        · cases hu
        · split at hu <;> cases hu
    | ok a =>
      obtain ⟨u, pos⟩ := a
      simp only
      have hp : 0 ≤ pos := by
        unfold pyUncompress at hu
        simp only at hu
        split at hu
        · cases hu; omega
        · split at hu
          · cases hu
          · split at hu
            · cases hu; omega
            · cases hu
      exact clean_pyNextLoop h u (u.length + 1) 0 pos [] hp (by omega) (by push_cast; omega)

/-! ## Python legacy -/

theorem sat_pyUnpackFrom (b : Bytes) (off : Int) (n : Nat) :
    Sat (pyUnpackFrom b off n)
      (fun _ => (0 ≤ off → off + (n : Int) ≤ (b.length : Int)) ∧ (n : Int) ≤ (b.length : Int)) := by
  unfold pyUnpackFrom
  by_cases ho : off < 0
  · simp only [ho, if_true]
    split
    · exact Sat.exc
    · split
      · exact Sat.exc
      · exact Sat.ok ⟨fun h => by omega, by omega⟩
  · simp only [ho, if_false]
    split
    · exact Sat.exc
    · exact Sat.ok ⟨fun _ => by omega, by omega⟩

theorem sat_pyI32At (b : Bytes) (off : Int) :
    Sat (pyI32At b off) (fun v => (0 ≤ off → off + 4 ≤ (b.length : Int)) ∧ -2147483648 ≤ v ∧ v < 2147483648) := by
  unfold pyI32At
  apply Sat.bind (sat_pyUnpackFrom b off 4); intro bs h
  exact Sat.pure ⟨by simpa using h.1, toS32_range _⟩

theorem sat_pyLgReadHeader (magicArg : Int) (b : Bytes) (pos : Int) :
    Sat (pyLgReadHeader magicArg b pos)
      (fun h => (0 ≤ pos → pos + 18 ≤ (b.length : Int)) ∧ -2147483648 ≤ h.length ∧ h.length < 2147483648) := by
  unfold pyLgReadHeader
  apply Sat.bind (sat_pyUnpackFrom b pos (if magicArg = 0 then 18 else 26)); intro bs h
  refine Sat.pure ⟨?_, toS32_range _⟩
  intro h0
  have := h.1 h0
  split at this <;> simp at this <;> omega

theorem sat_pyLgKeyValue (b : Bytes) (pos : Int) : Sat (pyLgKeyValue b pos) (fun _ => True) := by
  unfold pyLgKeyValue
  apply Sat.bind (sat_pyI32At b pos); intro ksz _
  simp only
  split
  · apply Sat.bind (sat_pyI32At b _); intro vsz _
    exact Sat.pure trivial
  · apply Sat.bind (sat_pyI32At b _); intro vsz _
    exact Sat.pure trivial

theorem sat_pyLgWalk (mr : Bool) (magicArg : Int) (u : Bytes) :
    ∀ (fuel : Nat) pos acc, 0 ≤ pos → 1 ≤ fuel → (fuel : Int) > (u.length : Int) - pos →
    Sat (pyLgWalk (Cfg.fixed mr) magicArg u fuel pos acc) (fun _ => True) := by
  intro fuel
  induction fuel with
  | zero => intro pos acc h0 h1 hf; omega
  | succ n ih =>
    intro pos acc h0 _ hf
    unfold pyLgWalk
    split
    · rename_i hlt
      apply Sat.bind (sat_pyLgReadHeader magicArg u pos); intro h hh
      simp only [fixed_pyWalkCheck, Bool.true_and]
      split
      · exact Sat.exc
      · rename_i h14
        simp only [decide_eq_true_eq, Int.not_lt] at h14
        exact ih _ _ (by omega) (by omega) (by omega)
    · exact Sat.ok trivial

theorem sat_pyLgPayload (b : Bytes) (keyOffset : Int) : Sat (pyLgPayload b keyOffset) (fun _ => True) := by
  unfold pyLgPayload
  apply Sat.bind (sat_pyI32At b keyOffset); intro ksz _
  simp only
  apply Sat.bind (sat_pyI32At b _); intro vsz _
  split
  · exact Sat.exc
  · exact Sat.pure trivial

theorem clean_pyLgInner (u : Bytes) (keyOffset : Int) (wrapTsType : Option Nat) (wrapTs : Option Int)
    (absBase : Int) : ∀ (hs : List (PyLHdr × Int)) acc,
    Clean (pyLgInner u keyOffset wrapTsType wrapTs absBase hs acc).2 := by
  intro hs
  induction hs with
  | nil => intro acc; unfold pyLgInner; exact clean_done
  | cons x rest ih =>
    intro acc
    obtain ⟨h, mpos⟩ := x
    unfold pyLgInner
    split
    · exact clean_exc _
    · simp only
      have hk := sat_pyLgKeyValue u (mpos + keyOffset)
      cases hr : pyLgKeyValue u (mpos + keyOffset) with
      | ok a => obtain ⟨key, value⟩ := a; simp only; exact ih _
      | exc e => exact clean_exc e
      | fault f => rw [hr] at hk; exact hk.elim

theorem clean_pyLegacyIter (mr : Bool) (codec : Nat → Bytes → Option Bytes) (magicArg : Int) (b : Bytes)
    (h : PyLHdr) : Clean (pyLegacyIter (Cfg.fixed mr) codec magicArg b h).2 := by
  unfold pyLegacyIter
  simp only
  split
  · have hk := sat_pyLgKeyValue b (if magicArg = 1 then 26 else 18)
    cases hr : pyLgKeyValue b (if magicArg = 1 then 26 else 18) with
    | ok a => obtain ⟨key, value⟩ := a; exact clean_done
    | exc e => exact clean_exc e
    | fault f => rw [hr] at hk; exact hk.elim
  · have hp := sat_pyLgPayload b (if magicArg = 1 then 26 else 18)
    cases hr : pyLgPayload b (if magicArg = 1 then 26 else 18) with
    | exc e => exact clean_exc e
    | fault f => rw [hr] at hp; exact hp.elim
    | ok data =>
      simp only
      split
      · exact clean_exc _
      · split
        · exact clean_exc _
        · split
          · exact clean_exc _
          · rename_i u hu
            have hw := sat_pyLgWalk mr magicArg u (u.length + 1) 0 [] (by omega) (by omega) (by push_cast; omega)
            cases hwr : pyLgWalk (Cfg.fixed mr) magicArg u (u.length + 1) 0 [] with
            | exc e => exact clean_exc e
            | fault f => rw [hwr] at hw; exact hw.elim
            | ok hs =>
              simp only
              split
              · split
                · exact clean_exc _
                · exact clean_pyLgInner _ _ _ _ _ _ _
              · exact clean_pyLgInner _ _ _ _ _ _ _

theorem clean_pyLegacyBatch (mr : Bool) (codec : Nat → Bytes → Option Bytes) (wantCrc : Bool)
    (magicArg : Int) (b : Bytes) : Clean (pyLegacyBatch (Cfg.fixed mr) codec wantCrc magicArg b).fin := by
  unfold pyLegacyBatch
  have hh := sat_pyLgReadHeader magicArg b 0
  cases hr : pyLgReadHeader magicArg b 0 with
  | exc e => exact clean_exc e
  | fault f => rw [hr] at hh; exact hh.elim
  | ok h =>
    simp only
    split
    · exact clean_exc _
    · split
      · exact clean_exc _
      · exact clean_pyLegacyIter mr codec magicArg b h

/-! ## Python MemoryRecords -/

theorem pyNorm_range (n i : Int) (hn : 0 ≤ n) : 0 ≤ pyNorm n i ∧ pyNorm n i ≤ n := by
  unfold pyNorm
  split <;> omega

theorem pySlice_length_le (b : Bytes) (lo hi : Int) :
    ((pySlice b lo hi).length : Int) ≤ max 0 (pyNorm b.length hi - pyNorm b.length lo) := by
  unfold pySlice
  simp only [List.length_take, List.length_drop]
  omega

theorem sat_pyCacheNext (b : Bytes) (pos : Int) :
    Sat (pyCacheNext b pos)
      (fun r => r.1 = none ∨ (r.1 = some (pySlice b pos r.2) ∧ 4 ≤ (b.length : Int) ∧ 12 ≤ (b.length : Int) - pos)) := by
  unfold pyCacheNext
  split
  · exact Sat.ok (Or.inl rfl)
  · rename_i h12
    unfold pyI32At
    apply Sat.bind (Sat.bind (sat_pyUnpackFrom b (pos + 8) 4) (fun bs hbs => Sat.pure (Q := fun _ => 4 ≤ (b.length : Int)) (by simpa using hbs.2)))
    intro length h4
    simp only
    split
    · exact Sat.ok (Or.inl rfl)
    · exact Sat.ok (Or.inr ⟨rfl, h4, by omega⟩)

theorem pyNorm_lt_of (n pos : Int) (h4 : 4 ≤ n) (h12 : 12 ≤ n - pos) : pyNorm n pos < n := by
  unfold pyNorm
  split <;> omega

theorem clean_pyMemLoop (mr : Bool) (codec : Nat → Bytes → Option Bytes) (wantCrc : Bool) (b : Bytes) :
    ∀ (fuel : Nat) slice pos acc,
    (∀ s, slice = some s → 1 ≤ fuel ∧
      (26 ≤ s.length → 26 * (fuel : Int) ≥ (b.length : Int) - pyNorm b.length pos + 26)) →
    (∀ o ∈ acc, Clean o.fin) →
    CleanMem (pyMemLoop (Cfg.fixed mr) codec wantCrc b fuel slice pos acc) := by
  intro fuel
  induction fuel with
  | zero =>
    intro slice pos acc hs hacc
    cases slice with
    | none => unfold pyMemLoop; exact ⟨clean_done, fun o ho => hacc o (List.mem_reverse.mp ho)⟩
    | some s => have := (hs s rfl).1; omega
  | succ n ih =>
    intro slice pos acc hs hacc
    have hrev : ∀ o ∈ acc.reverse, Clean o.fin := fun o ho => hacc o (List.mem_reverse.mp ho)
    cases slice with
    | none => unfold pyMemLoop; exact ⟨clean_done, hrev⟩
    | some s =>
      unfold pyMemLoop
      split
      · exact ⟨clean_exc _, hrev⟩
      · rename_i h26
        have h26' : 26 ≤ s.length := by omega
        have hfuel := (hs s rfl).2 h26'
        have hc := sat_pyCacheNext b pos
        cases hcr : pyCacheNext b pos with
        | exc e => exact ⟨clean_exc e, hrev⟩
        | fault f => rw [hcr] at hc; exact hc.elim
        | ok a =>
          obtain ⟨next, pos'⟩ := a
          rw [hcr] at hc
          have hc : next = none ∨ (next = some (pySlice b pos pos') ∧ 4 ≤ (b.length : Int) ∧
              12 ≤ (b.length : Int) - pos) := hc
          simp only
          have hi := sat_pyIndex s 16
          cases hir : pyIndex s 16 with
          | exc e => exact ⟨clean_exc e, hrev⟩
          | fault f => rw [hir] at hi; exact hi.elim
          | ok magic =>
            simp only
            have hout : Clean (if magic ≥ 2 then pyDefaultBatch codec wantCrc s
                else pyLegacyBatch (Cfg.fixed mr) codec wantCrc magic s).fin := by
              split
              · exact clean_pyDefaultBatch codec wantCrc s
              · exact clean_pyLegacyBatch mr codec wantCrc magic s
            generalize (if magic ≥ 2 then pyDefaultBatch codec wantCrc s
                else pyLegacyBatch (Cfg.fixed mr) codec wantCrc magic s) = out at hout ⊢
            have hacc' : ∀ o ∈ out :: acc, Clean o.fin := by
              intro o ho
              rcases List.mem_cons.mp ho with h | h
              · rw [h]; exact hout
              · exact hacc o h
            split
            · apply ih _ _ _ _ hacc'
              intro s' hs'
              rcases hc with hnone | ⟨hsome, h4, h12⟩
              · rw [hnone] at hs'; cases hs'
              · have hN := pyNorm_lt_of b.length pos h4 h12
                have hR := pyNorm_range b.length pos' (by omega)
                refine ⟨by omega, ?_⟩
                intro hs26
                rw [hsome] at hs'
                have hse : s' = pySlice b pos pos' := (Option.some.inj hs').symm
                have hl := pySlice_length_le b pos pos'
                rw [← hse] at hl
                omega
            · rename_i e hne
              refine ⟨?_, fun o ho => hacc' o (List.mem_reverse.mp ho)⟩
              intro f hf'
              apply hout f
              simpa using hf'

theorem clean_pyMemory (mr : Bool) (codec : Nat → Bytes → Option Bytes) (wantCrc : Bool) (b : Bytes) :
    CleanMem (pyMemory (Cfg.fixed mr) codec wantCrc b) := by
  unfold pyMemory
  have hc := sat_pyCacheNext b 0
  cases hcr : pyCacheNext b 0 with
  | exc e => exact ⟨clean_exc e, by intro o ho; cases ho⟩
  | fault f => rw [hcr] at hc; exact hc.elim
  | ok a =>
    obtain ⟨next, pos⟩ := a
    simp only
    apply clean_pyMemLoop mr codec wantCrc b (b.length + 1) next pos []
    · intro s hs
      have hR := pyNorm_range b.length pos (by omega)
      refine ⟨by omega, ?_⟩
      intro _
      push_cast
      omega
    · intro o ho; cases ho

/-! ## all entry points -/

theorem clean_toEnd {α} {r : R α} {Q : α → Prop} (h : Sat r Q) : Clean r.toEnd := by
  cases r with
  | ok a => exact clean_done
  | exc e => exact clean_exc e
  | fault f => exact h.elim

/-- negative positions wrap around in Python: no fault whatever the position -/
theorem clean_pyVarintLoop (b : Bytes) : ∀ (fuel : Nat) (pos : Int) (shift acc : Nat),
    Clean (pyVarintLoop b fuel pos shift acc).toEnd := by
  intro fuel
  induction fuel with
  | zero => intro pos shift acc; unfold pyVarintLoop; exact clean_exc _
  | succ n ih =>
    intro pos shift acc
    unfold pyVarintLoop
    have hi := sat_pyIndex b pos
    cases hr : pyIndex b pos with
    | exc e => exact clean_exc e
    | fault f => rw [hr] at hi; exact hi.elim
    | ok x =>
      simp only
      split
      · exact ih _ _ _
      · exact clean_done

theorem entry_clean_py (e : Entry) (he : e.isPython = true) (mr : Bool)
    (codec : Nat → Bytes → Option Bytes) (wantCrc : Bool) (b : Bytes) :
    ∀ x ∈ e.ends (Cfg.fixed mr) codec wantCrc b, Clean x := by
  intro x hx
  cases e with
  | pyD =>
    simp only [Entry.ends, List.mem_singleton] at hx; rw [hx]; exact clean_pyDefaultBatch codec wantCrc b
  | pyL m =>
    simp only [Entry.ends, List.mem_singleton] at hx; rw [hx]; exact clean_pyLegacyBatch mr codec wantCrc m b
  | pyM =>
    have h := clean_pyMemory mr codec wantCrc b
    simp only [Entry.ends, List.mem_cons, List.mem_map] at hx
    rcases hx with hx | ⟨o, ho, hx⟩
    · rw [hx]; exact h.1
    · rw [← hx]; exact h.2 o ho
  | pyN =>
    have h := clean_pyMemory mr codec wantCrc b
    simp only [Entry.ends, pyMemoryN, List.mem_cons, List.mem_map] at hx
    rcases hx with hx | ⟨o, ho, hx⟩
    · rw [hx]; exact h.1
    · rw [← hx]; exact h.2 o ho
  | pyV pos =>
    simp only [Entry.ends, List.mem_singleton] at hx; rw [hx]
    unfold pyVarint
    exact clean_pyVarintLoop b 10 pos 0 0
  | cyD => cases he
  | cyL m => cases he
  | cyM => cases he
  | cyN => cases he
  | cyV pos => cases he

theorem entry_clean (e : Entry) (mr : Bool) (codec : Nat → Bytes → Option Bytes) (hc : CodecBounded codec)
    (wantCrc : Bool) (b : Bytes) (hlen : (b.length : Int) < 4611686018427387904) :
    ∀ x ∈ e.ends (Cfg.fixed mr) codec wantCrc b, Clean x := by
  intro x hx
  cases e with
  | cyD =>
    simp only [Entry.ends, List.mem_singleton] at hx; rw [hx]
    exact clean_cyDefaultBatch mr codec hc wantCrc b hlen
  | cyL m =>
    simp only [Entry.ends, List.mem_singleton] at hx; rw [hx]
    exact clean_cyLegacyBatch mr codec hc wantCrc m b hlen
  | cyM =>
    have h := clean_cyMemory mr codec hc wantCrc b hlen
    simp only [Entry.ends, List.mem_cons, List.mem_map] at hx
    rcases hx with hx | ⟨o, ho, hx⟩
    · rw [hx]; exact h.1
    · rw [← hx]; exact h.2 o ho
  | cyN =>
    have h := clean_cyMemoryN mr codec hc wantCrc b hlen
    simp only [Entry.ends, List.mem_cons, List.mem_map] at hx
    rcases hx with hx | ⟨o, ho, hx⟩
    · rw [hx]; exact h.1
    · rw [← hx]; exact h.2 o ho
  | cyV pos =>
    simp only [Entry.ends, List.mem_singleton] at hx; rw [hx]
    unfold cyVarintPy
    by_cases h0 : 0 ≤ pos
    · exact clean_toEnd (sat_cyVarintLoop mr b 10 pos 0 0 h0)
    · unfold cyVarintLoop
      have hc' : ((Cfg.fixed mr).varintBound && (decide (pos < 0) || decide (pos ≥ (b.length : Int)))) = true := by
        simp; omega
      rw [hc']
      exact clean_exc _
  | pyD => exact entry_clean_py _ rfl mr codec wantCrc b x hx
  | pyL m => exact entry_clean_py _ rfl mr codec wantCrc b x hx
  | pyM => exact entry_clean_py _ rfl mr codec wantCrc b x hx
  | pyN => exact entry_clean_py _ rfl mr codec wantCrc b x hx
  | pyV pos => exact entry_clean_py _ rfl mr codec wantCrc b x hx

/-! ## checksum validation -/

theorem R.ok_bind {α β} (a : α) (f : α → R β) : (R.ok a >>= f) = f a := rfl

theorem cyReadHeader_crc (mr : Bool) (b : Bytes) (h : V2Hdr) (hr : cyReadHeader (Cfg.fixed mr) b = .ok h) :
    h.crc = storedCrcV2 b ∧ 61 ≤ (b.length : Int) := by
  unfold cyReadHeader at hr
  simp only [fixed_hdrCheck, Bool.true_and] at hr
  split at hr
  · cases hr
  · rename_i hl
    have hl' : 61 ≤ (b.length : Int) := by
      simp only [decide_eq_true_eq, Nat.not_lt] at hl; omega
    simp (disch := omega) only [rdI64, rdI32, rdI8, rdU32, rdI16, rd_ok, R.ok_bind, pure] at hr
    injection hr with hr
    subst hr
    exact ⟨rfl, hl'⟩

theorem take_all (l : Bytes) (n : Nat) (h : l.length ≤ n) : l.take n = l := List.take_of_length_le h

theorem cyDefault_crc (mr : Bool) (codec : Nat → Bytes → Option Bytes) (b : Bytes)
    (hb : (cyDefaultBatch (Cfg.fixed mr) codec true b).built = true) :
    (cyDefaultBatch (Cfg.fixed mr) codec true b).crc = some (storedCrcV2 b == crc32c (b.drop 21)) := by
  unfold cyDefaultBatch at hb ⊢
  cases hr : cyReadHeader (Cfg.fixed mr) b with
  | exc e => rw [hr] at hb; simp at hb
  | fault f => rw [hr] at hb; simp at hb
  | ok h =>
    obtain ⟨hcrc, hl⟩ := cyReadHeader_crc mr b h hr
    simp only [if_true]
    have hv : cyV2ValidateCrc h b = .ok (storedCrcV2 b == crc32c (b.drop 21)) := by
      unfold cyV2ValidateCrc
      rw [rd_ok (by omega) (by omega)]
      have : (List.take (b.length - 21) (List.drop (21 : Int).toNat b)) = b.drop 21 := by
        apply List.take_of_length_le
        simp only [List.length_drop]
        show b.length - 21 ≤ b.length - 21
        omega
      rw [this, hcrc]
      rfl
    rw [hv]
    simp only [R.bind]
    cases hu : cyUncompress codec h b with
    | exc e => rfl
    | fault f => rfl
    | ok a => rfl


theorem pyUnpackFrom_zero_ok (b : Bytes) (n : Nat) (bs : Bytes) (h : pyUnpackFrom b 0 n = .ok bs) :
    bs = b.take n ∧ n ≤ b.length := by
  unfold pyUnpackFrom at h
  simp only [Int.lt_irrefl, if_false, Int.sub_zero] at h
  split at h
  · cases h
  · rename_i hn
    injection h with h
    subst h
    exact ⟨by simp, by omega⟩

theorem pySlice_tail (b : Bytes) (k : Nat) (hk : k ≤ b.length) : pySlice b k b.length = b.drop k := by
  unfold pySlice pyNorm
  have h1 : ¬ ((k : Int) < 0) := by omega
  have h2 : ¬ ((b.length : Int) < 0) := by omega
  simp only [h1, h2, if_false]
  have e1 : min (k : Int) (b.length : Int) = k := by omega
  have e2 : min (b.length : Int) (b.length : Int) = b.length := by omega
  rw [e1, e2]
  apply List.take_of_length_le
  simp only [List.length_drop, Int.toNat_natCast]
  omega

theorem pyDefault_crc (codec : Nat → Bytes → Option Bytes) (b : Bytes)
    (hb : (pyDefaultBatch codec true b).built = true) :
    (pyDefaultBatch codec true b).crc = some (storedCrcV2 b == crc32c (b.drop 21)) := by
  unfold pyDefaultBatch at hb ⊢
  cases hr : pyReadHeader b with
  | exc e => rw [hr] at hb; simp at hb
  | fault f => rw [hr] at hb; simp at hb
  | ok h =>
    unfold pyReadHeader at hr
    cases hu : pyUnpackFrom b 0 61 with
    | exc e => rw [hu] at hr; cases hr
    | fault f => rw [hu] at hr; cases hr
    | ok bs =>
      rw [hu] at hr
      obtain ⟨hbs, hl⟩ := pyUnpackFrom_zero_ok b 61 bs hu
      simp only [R.ok_bind, pure] at hr
      injection hr with hr
      have hcrc : h.crc = storedCrcV2 b := by
        rw [← hr]
        show beNat (List.take 4 (List.drop 17 bs)) % 2 ^ 32 = storedCrcV2 b
        unfold storedCrcV2
        rw [hbs, List.drop_take, List.take_take]
        simp
      simp only [if_true]
      have hs : pySlice b 21 b.length = b.drop 21 := pySlice_tail b 21 (by omega)
      have hs' : pySlice b 21 (b.length : Int) = b.drop 21 := hs
      rw [hs', hcrc]
      cases hun : pyUncompress codec h b with
      | exc e => rfl
      | fault f => rfl
      | ok a => rfl


theorem R.bind_eq_ok {α β} {m : R α} {f : α → R β} {r : β} (h : (m >>= f) = .ok r) :
    ∃ a, m = .ok a ∧ f a = .ok r := by
  cases m with
  | ok a => exact ⟨a, rfl, h⟩
  | exc e => cases h
  | fault x => cases h

theorem cyReadRecord_crc (mr : Bool) (b : Bytes) (main : LRec) (p : Int)
    (hr : cyReadRecord (Cfg.fixed mr) b 0 = .ok (main, p)) :
    main.crc = storedCrcLegacy b ∧ 26 ≤ (b.length : Int) := by
  unfold cyReadRecord at hr
  obtain ⟨_, hcb, hr⟩ := R.bind_eq_ok hr
  have hl : 26 ≤ (b.length : Int) := by
    unfold lgCheckBounds at hcb
    split at hcb
    · cases hcb
    · omega
  simp (disch := omega) only [rdI64, rdI8, rdU32, rd_ok, R.ok_bind, pure] at hr
  obtain ⟨r1, _, hr⟩ := R.bind_eq_ok hr
  obtain ⟨ts, p1⟩ := r1
  simp only at hr
  obtain ⟨r2, _, hr⟩ := R.bind_eq_ok hr
  obtain ⟨key, p2⟩ := r2
  simp only at hr
  obtain ⟨_, _, hr⟩ := R.bind_eq_ok hr
  obtain ⟨r3, _, hr⟩ := R.bind_eq_ok hr
  obtain ⟨value, p3⟩ := r3
  simp only at hr
  injection hr with hr
  injection hr with hm _
  rw [← hm]
  exact ⟨rfl, hl⟩

theorem cyLegacy_crc (mr : Bool) (codec : Nat → Bytes → Option Bytes) (magicArg : Int) (b : Bytes)
    (hb : (cyLegacyBatch (Cfg.fixed mr) codec true magicArg b).built = true) :
    (cyLegacyBatch (Cfg.fixed mr) codec true magicArg b).crc
      = some (storedCrcLegacy b == crc32 (b.drop 16)) := by
  unfold cyLegacyBatch at hb ⊢
  cases hr : cyReadRecord (Cfg.fixed mr) b 0 with
  | exc e => rw [hr] at hb; simp at hb
  | fault f => rw [hr] at hb; simp at hb
  | ok a =>
    obtain ⟨main, p⟩ := a
    obtain ⟨hcrc, hl⟩ := cyReadRecord_crc mr b main p hr
    simp only [if_true]
    have hv : cyLgValidateCrc main b = .ok (storedCrcLegacy b == crc32 (b.drop 16)) := by
      unfold cyLgValidateCrc
      rw [rd_ok (by omega) (by omega)]
      have : (List.take (b.length - 16) (List.drop (16 : Int).toNat b)) = b.drop 16 := by
        apply List.take_of_length_le
        simp only [List.length_drop]
        show b.length - 16 ≤ b.length - 16
        omega
      rw [this, hcrc]
      rfl
    rw [hv]
    simp only [R.bind]

theorem pyUnpackFrom_zero_take (b : Bytes) (n : Nat) (bs : Bytes) (h : pyUnpackFrom b 0 n = .ok bs)
    (o k : Nat) (hok : o + k ≤ n) : (bs.drop o).take k = (b.drop o).take k := by
  obtain ⟨hbs, hl⟩ := pyUnpackFrom_zero_ok b n bs h
  rw [hbs, List.drop_take, List.take_take]
  congr 1
  omega

theorem pyLegacy_crc (mr : Bool) (codec : Nat → Bytes → Option Bytes) (magicArg : Int) (b : Bytes)
    (hb : (pyLegacyBatch (Cfg.fixed mr) codec true magicArg b).built = true) :
    (pyLegacyBatch (Cfg.fixed mr) codec true magicArg b).crc
      = some (storedCrcLegacy b == crc32 (b.drop 16)) := by
  unfold pyLegacyBatch at hb ⊢
  cases hr : pyLgReadHeader magicArg b 0 with
  | exc e => rw [hr] at hb; simp at hb
  | fault f => rw [hr] at hb; simp at hb
  | ok h =>
    rw [hr] at hb
    unfold pyLgReadHeader at hr
    obtain ⟨bs, hu, hr⟩ := R.bind_eq_ok hr
    have h18 : 18 ≤ (if magicArg = 0 then 18 else 26 : Nat) := by split <;> omega
    obtain ⟨hbs, hl⟩ := pyUnpackFrom_zero_ok b _ bs hu
    have htk := pyUnpackFrom_zero_take b _ bs hu 12 4 (by omega)
    simp only [pure] at hr
    injection hr with hr
    have hcrc : h.crc = storedCrcLegacy b := by
      rw [← hr]
      show beNat (List.take 4 (List.drop 12 bs)) % 2 ^ 32 = storedCrcLegacy b
      rw [htk]; rfl
    simp only at hb ⊢
    split
    · rename_i h1; rw [if_pos h1] at hb; simp at hb
    · rename_i h1
      rw [if_neg h1] at hb
      split
      · rename_i h2; rw [if_pos h2] at hb; simp at hb
      · simp only [if_true]
        have hs : pySlice b 16 (b.length : Int) = b.drop 16 := pySlice_tail b 16 (by omega)
        rw [hs, hcrc]

end AkVerif.Safe
