import AkVerif.Lemmas.StickyFix
/-!
`balance` keeps every consumer's list when the assignment is balanced once the unassigned
partitions have been handed out (core of stickiness clauses (a) and (b)): nothing moves between
consumers, the unassigned partitions are only appended.
-/
namespace AkVerif.StickyAlg
open AkVerif.Assign

/-! ### what `assignPartition` / the fill loop do to a consumer's list -/

def fillStep (s : St) (p : TP) : St := if (consumersOf s p).isEmpty then s else assignPartition s p

theorem assignPartition_failed (s : St) (p : TP) : (assignPartition s p).failed = s.failed := by
  unfold assignPartition; split <;> rfl

theorem assignPartition_subs (s : St) (p : TP) : (assignPartition s p).subs = s.subs := by
  unfold assignPartition; split <;> rfl

theorem assignPartition_p2c (s : St) (p : TP) : (assignPartition s p).p2c = s.p2c := by
  unfold assignPartition; split <;> rfl

theorem assignPartition_oracle (s : St) (p : TP) :
    (assignPartition s p).badOracle = s.badOracle ∧ (assignPartition s p).oracle = s.oracle := by
  unfold assignPartition; split <;> exact ⟨rfl, rfl⟩

theorem fillFold_oracle (ps : List TP) : ∀ s : St,
    (ps.foldl fillStep s).badOracle = s.badOracle ∧ (ps.foldl fillStep s).oracle = s.oracle := by
  induction ps with
  | nil => intro s; exact ⟨rfl, rfl⟩
  | cons p rest ih =>
    intro s
    simp only [List.foldl_cons]
    obtain ⟨a, b⟩ := ih (fillStep s p)
    by_cases h : (consumersOf s p).isEmpty = true
    · have hs : fillStep s p = s := by unfold fillStep; simp [h]
      rw [hs] at a b ⊢; exact ⟨a, b⟩
    · have hs : fillStep s p = assignPartition s p := by unfold fillStep; simp [h]
      rw [hs] at a b ⊢
      exact ⟨by rw [a, (assignPartition_oracle s p).1], by rw [b, (assignPartition_oracle s p).2]⟩

theorem setAsideFold_oracle (cs : List Member) : ∀ (s : St) (fx : List (Member × List TP)),
    (cs.foldl (fun (acc : St × List (Member × List TP)) c =>
        if !canConsumerParticipate acc.1 c then
          ({ acc.1 with subs := removeFirst acc.1.subs c, cur := alDel acc.1.cur c }, acc.2 ++ [(c, curOf acc.1 c)])
        else acc) (s, fx)).1.badOracle = s.badOracle ∧
    (cs.foldl (fun (acc : St × List (Member × List TP)) c =>
        if !canConsumerParticipate acc.1 c then
          ({ acc.1 with subs := removeFirst acc.1.subs c, cur := alDel acc.1.cur c }, acc.2 ++ [(c, curOf acc.1 c)])
        else acc) (s, fx)).1.oracle = s.oracle := by
  induction cs with
  | nil => intro s fx; exact ⟨rfl, rfl⟩
  | cons c rest ih =>
    intro s fx
    simp only [List.foldl_cons]
    split
    · exact ih _ _
    · exact ih s fx

theorem addBack_oracle (fx : List (Member × List TP)) : ∀ t : St,
    (fx.foldl (fun s cp => { s with cur := alSet s.cur cp.1 cp.2, subs := s.subs ++ [cp.1] }) t).badOracle = t.badOracle ∧
    (fx.foldl (fun s cp => { s with cur := alSet s.cur cp.1 cp.2, subs := s.subs ++ [cp.1] }) t).oracle = t.oracle := by
  induction fx with
  | nil => intro t; exact ⟨rfl, rfl⟩
  | cons a r ih => intro t; simp only [List.foldl_cons]; exact ih _

/-- `assignPartition` appends `p` to one consumer and leaves the others alone -/
theorem assignPartition_cur (s : St) (p : TP) (x : Member) :
    curOf (assignPartition s p) x = curOf s x ∨
    (curOf (assignPartition s p) x = curOf s x ++ [p] ∧
      (sortedSubs s).find? (fun c => (potOf s c).contains p) = some x) := by
  unfold assignPartition
  cases hf : (sortedSubs s).find? (fun c => (potOf s c).contains p) with
  | none => left; rfl
  | some c =>
    simp only
    by_cases hx : c = x
    · subst hx
      right
      refine ⟨?_, rfl⟩
      show alGetD (alSet s.cur c (curOf s c ++ [p])) c [] = _
      rw [alGetD_def, alGet_alSet_same]; rfl
    · left
      show alGetD (alSet s.cur c (curOf s c ++ [p])) x [] = alGetD s.cur x []
      rw [alGetD_def, alGetD_def, alGet_alSet_other _ _ _ _ (by simpa using hx)]

theorem fillFold_fields (ps : List TP) : ∀ s : St,
    (ps.foldl fillStep s).failed = s.failed ∧ (ps.foldl fillStep s).subs = s.subs ∧
    (ps.foldl fillStep s).c2p = s.c2p ∧ (ps.foldl fillStep s).p2c = s.p2c := by
  induction ps with
  | nil => intro s; exact ⟨rfl, rfl, rfl, rfl⟩
  | cons p rest ih =>
    intro s
    simp only [List.foldl_cons]
    obtain ⟨a, b, c, d⟩ := ih (fillStep s p)
    by_cases h : (consumersOf s p).isEmpty = true
    · have hs : fillStep s p = s := by unfold fillStep; simp [h]
      rw [hs] at a b c d ⊢; exact ⟨a, b, c, d⟩
    · have hs : fillStep s p = assignPartition s p := by unfold fillStep; simp [h]
      rw [hs] at a b c d ⊢
      exact ⟨by rw [a, assignPartition_failed], by rw [b, assignPartition_subs],
             by rw [c, assignPartition_c2p], by rw [d, assignPartition_p2c]⟩

/-- the fill loop only appends: every consumer's list before is a prefix of its list after -/
theorem fillFold_prefix (ps : List TP) : ∀ (s : St) (x : Member),
    curOf s x <+: curOf (ps.foldl fillStep s) x := by
  induction ps with
  | nil => intro s x; exact List.prefix_refl _
  | cons p rest ih =>
    intro s x
    simp only [List.foldl_cons]
    refine List.IsPrefix.trans ?_ (ih (fillStep s p) x)
    unfold fillStep
    split
    · exact List.prefix_refl _
    · rcases assignPartition_cur s p x with h | ⟨h, _⟩
      · rw [h]; exact List.prefix_refl _
      · rw [h]; exact List.prefix_append _ _

theorem assignUnassigned_cur (s : St) (x : Member) :
    curOf (assignUnassigned s) x = curOf (s.unassigned.foldl fillStep s) x := rfl

theorem assignUnassigned_fields (s : St) :
    (assignUnassigned s).failed = s.failed ∧ (assignUnassigned s).c2p = s.c2p := by
  obtain ⟨a, _, c, _⟩ := fillFold_fields s.unassigned s
  exact ⟨a, c⟩

/-! ### `balance` when the filled assignment is balanced -/

/-- if, after the unassigned partitions have been handed out and the consumers that cannot take
    part are set aside, `_is_balanced` accepts the assignment, `balance` returns exactly the filled
    assignment: no reassignment is attempted -/
theorem balance_after_fill (fuel : Nat) (s : St)
    (hc2p : (keysOf s.c2p).Nodup) (hne : s.cur ≠ []) (hf : s.failed = none)
    (hb : isBalanced (setAsideFixed (assignUnassigned { s with subs := s.cur.map (·.1) })).1 = true) :
    ∃ s', balance (fuel + 1) s = some s' ∧ s'.failed = none ∧
      (s'.badOracle = s.badOracle ∧ s'.oracle = s.oracle) ∧
      ∀ x, curOf s' x = curOf (assignUnassigned { s with subs := s.cur.map (·.1) }) x := by
  unfold balance
  simp only
  have hsubs : ({ s with subs := s.cur.map (·.1) } : St).subs ≠ [] := by
    show s.cur.map (·.1) ≠ []
    intro h; exact hne (List.map_eq_nil_iff.mp h)
  cases hm : mostSub { s with subs := s.cur.map (·.1) } with
  | none =>
    exfalso
    unfold mostSub sortedSubs at hm
    have := sortBy_ne_nil (subLt { s with subs := s.cur.map (·.1) }) _ hsubs
    rw [List.getLast?_eq_none_iff] at hm
    exact this hm
  | some most =>
    simp only
    obtain ⟨hsaf0, hsac2p0⟩ := assignUnassigned_fields { s with subs := s.cur.map (·.1) }
    have hsao0 : (assignUnassigned { s with subs := s.cur.map (·.1) }).badOracle = s.badOracle ∧
        (assignUnassigned { s with subs := s.cur.map (·.1) }).oracle = s.oracle :=
      fillFold_oracle s.unassigned { s with subs := s.cur.map (·.1) }
    generalize hsaS : assignUnassigned { s with subs := s.cur.map (·.1) } = sa at hb hsaf0 hsac2p0 hsao0 ⊢
    have hsac2p : sa.c2p = s.c2p := hsac2p0
    have hsaf : sa.failed = s.failed := hsaf0
    have hside := fun x => setAside_addBack_cur (sa.c2p.map (·.1)) sa [] x
      (by intro cp hcp; cases hcp) (by simp [keysOf]) (by rw [hsac2p]; exact hc2p)
      (by intro c _ hm; simp [keysOf] at hm)
    have hfl := setAsideFold_failed (sa.c2p.map (·.1)) sa []
    have hfo := setAsideFold_oracle (sa.c2p.map (·.1)) sa []
    unfold setAsideFixed at hb ⊢
    generalize hfold : ((sa.c2p.map (·.1)).foldl (fun (acc : St × List (Member × List TP)) c =>
        if !canConsumerParticipate acc.1 c then
          ({ acc.1 with subs := removeFirst acc.1.subs c, cur := alDel acc.1.cur c }, acc.2 ++ [(c, curOf acc.1 c)])
        else acc) (sa, [])) = fr at hb hside hfl hfo ⊢
    obtain ⟨s2, fx⟩ := fr
    simp only at hb hside hfl hfo ⊢
    rw [reassignBoth_balanced fuel s2 hb]
    simp only
    refine ⟨_, rfl, ?_, ?_, ?_⟩
    · unfold finishBalance
      have hs2f : s2.failed = none := by rw [hfl, hsaf, hf]
      simp only [hs2f, Option.isSome_none, Bool.false_eq_true, if_false, Bool.and_false, Bool.false_and]
      have : ∀ (fx : List (Member × List TP)) (t : St),
          (fx.foldl (fun s cp => { s with cur := alSet s.cur cp.1 cp.2, subs := s.subs ++ [cp.1] }) t).failed = t.failed := by
        intro fx
        induction fx with
        | nil => intro t; rfl
        | cons a r ih => intro t; simp only [List.foldl_cons]; rw [ih]
      rw [this]; exact hs2f
    · unfold finishBalance
      have hs2f : s2.failed = none := by rw [hfl, hsaf, hf]
      simp only [hs2f, Option.isSome_none, Bool.false_eq_true, if_false, Bool.and_false, Bool.false_and]
      obtain ⟨a, b⟩ := addBack_oracle fx s2
      exact ⟨by rw [a, hfo.1, hsao0.1], by rw [b, hfo.2, hsao0.2]⟩
    · intro x
      unfold finishBalance
      have hs2f : s2.failed = none := by rw [hfl, hsaf, hf]
      simp only [hs2f, Option.isSome_none, Bool.false_eq_true, if_false, Bool.and_false, Bool.false_and]
      have hx := hside x
      have hab := addBack_cur fx s2 x hx.2.2 hx.2.1
      unfold curOf
      rw [alGetD_def, alGetD_def, hab]
      have h1 := hx.1
      simp only [alGet_nil, Option.getD_none] at h1
      rw [← h1]
      cases alGet s2.cur x with
      | some v => rfl
      | none => rfl

/-- … hence every consumer keeps its whole list, in order, and only gains partitions at the end -/
theorem balance_keeps_when_fill_balanced (fuel : Nat) (s : St)
    (hc2p : (keysOf s.c2p).Nodup) (hne : s.cur ≠ []) (hf : s.failed = none)
    (hb : isBalanced (setAsideFixed (assignUnassigned { s with subs := s.cur.map (·.1) })).1 = true) :
    ∃ s', balance (fuel + 1) s = some s' ∧ s'.failed = none ∧
      (s'.badOracle = s.badOracle ∧ s'.oracle = s.oracle) ∧ ∀ x, curOf s x <+: curOf s' x := by
  obtain ⟨s', h1, h2, ho, h3⟩ := balance_after_fill fuel s hc2p hne hf hb
  refine ⟨s', h1, h2, ho, fun x => ?_⟩
  rw [h3 x, assignUnassigned_cur]
  exact fillFold_prefix _ { s with subs := s.cur.map (·.1) } x

/-! ### identical subscriptions: loads within one of each other stay so while filling -/

def load (s : St) (c : Member) : Nat := (curOf s c).length

/-- loads of the consumers in the sorted set differ by at most one -/
def Within1 (s : St) : Prop := ∀ a ∈ s.subs, ∀ b ∈ s.subs, load s a ≤ load s b + 1

theorem subLt_load (s : St) (a b : Member) (h : subLt s a b = true) : load s a ≤ load s b := by
  unfold subLt at h; unfold load
  simp only [Bool.or_eq_true, decide_eq_true_eq, Bool.and_eq_true, beq_iff_eq] at h
  omega

theorem not_subLt_load (s : St) (a b : Member) (h : ¬ subLt s a b = true) : load s b ≤ load s a := by
  unfold subLt at h; unfold load
  simp only [Bool.or_eq_true, decide_eq_true_eq, Bool.and_eq_true, beq_iff_eq, not_or] at h
  omega

/-- the head of the sorted set carries the least load -/
theorem sortBy_head_min (s : St) : ∀ (l : List Member) (h : Member),
    (sortBy (subLt s) l).head? = some h → ∀ x ∈ l, load s h ≤ load s x := by
  intro l
  induction l with
  | nil => intro h hh; simp [sortBy] at hh
  | cons a r ih =>
    intro h hh x hx
    have hs : sortBy (subLt s) (a :: r) = insertBy (subLt s) a (sortBy (subLt s) r) := rfl
    rw [hs] at hh
    cases hr : sortBy (subLt s) r with
    | nil =>
      have hrn : r = [] := by
        have := (sortBy_perm (subLt s) r).length_eq
        rw [hr] at this
        cases r with
        | nil => rfl
        | cons _ _ => simp at this
      rw [hr] at hh
      simp only [insertBy, List.head?_cons, Option.some.injEq] at hh
      subst hrn
      simp only [List.mem_cons, List.not_mem_nil, or_false] at hx
      rw [hx, hh]; exact Nat.le_refl _
    | cons h0 t =>
      rw [hr] at hh ih
      have ih0 := ih h0 rfl
      unfold insertBy at hh
      by_cases hlt : subLt s a h0 = true
      · simp only [hlt, if_true, List.head?_cons, Option.some.injEq] at hh
        subst hh
        rcases List.mem_cons.mp hx with rfl | hx
        · exact Nat.le_refl _
        · exact Nat.le_trans (subLt_load s _ _ hlt) (ih0 x hx)
      · simp only [hlt, Bool.false_eq_true, if_false, List.head?_cons, Option.some.injEq] at hh
        subst hh
        rcases List.mem_cons.mp hx with rfl | hx
        · exact not_subLt_load s _ _ hlt
        · exact ih0 x hx

theorem head_mem_sortBy {α} (lt : α → α → Bool) (l : List α) (h : α)
    (hh : (sortBy lt l).head? = some h) : h ∈ l := by
  have : h ∈ sortBy lt l := List.mem_of_mem_head? hh
  exact (mem_sortBy lt h l).mp this

/-- with every consumer a candidate, `assignPartition` gives `p` to the least loaded one -/
theorem assignPartition_least (s : St) (p : TP) (hne : s.subs ≠ [])
    (hall : ∀ c ∈ s.subs, (potOf s c).contains p = true) :
    ∃ h, h ∈ s.subs ∧ (∀ x ∈ s.subs, load s h ≤ load s x) ∧
      ∀ x, curOf (assignPartition s p) x = if x = h then curOf s h ++ [p] else curOf s x := by
  have hsn := sortBy_ne_nil (subLt s) s.subs hne
  cases hs : sortBy (subLt s) s.subs with
  | nil => exact absurd hs hsn
  | cons h t =>
    have hh : (sortBy (subLt s) s.subs).head? = some h := by rw [hs]; rfl
    have hmem := head_mem_sortBy _ _ _ hh
    have hfind : (sortedSubs s).find? (fun c => (potOf s c).contains p) = some h := by
      unfold sortedSubs; rw [hs]
      simp only [List.find?_cons, hall h hmem]
    refine ⟨h, hmem, sortBy_head_min s s.subs h hh, fun x => ?_⟩
    unfold assignPartition
    rw [hfind]
    simp only
    by_cases hx : x = h
    · subst hx
      simp only [if_true]
      show alGetD (alSet s.cur x (curOf s x ++ [p])) x [] = _
      rw [alGetD_def, alGet_alSet_same]; rfl
    · simp only [hx, if_false]
      show alGetD (alSet s.cur h (curOf s h ++ [p])) x [] = alGetD s.cur x []
      rw [alGetD_def, alGetD_def, alGet_alSet_other _ _ _ _ (by simpa using (Ne.symm hx))]

theorem assignPartition_within (s : St) (p : TP) (hne : s.subs ≠ [])
    (hall : ∀ c ∈ s.subs, (potOf s c).contains p = true) (hw : Within1 s) :
    Within1 (assignPartition s p) := by
  obtain ⟨h, hmem, hmin, hcur⟩ := assignPartition_least s p hne hall
  intro a ha b hb
  rw [assignPartition_subs] at ha hb
  unfold load
  rw [hcur a, hcur b]
  have hwa := hw a ha h hmem
  have hmb := hmin b hb
  have hwab := hw a ha b hb
  unfold load at hwa hmb hwab
  by_cases e1 : a = h <;> by_cases e2 : b = h <;> simp only [e1, e2, if_true, if_false, List.length_append, List.length_singleton]
  · omega
  · subst e1; omega
  · subst e2; omega
  · omega

theorem potOf_eq_of_c2p (s t : St) (h : t.c2p = s.c2p) (c : Member) : potOf t c = potOf s c := by
  unfold potOf; rw [h]

theorem consumersOf_eq_of_p2c (s t : St) (h : t.p2c = s.p2c) (p : TP) : consumersOf t p = consumersOf s p := by
  unfold consumersOf; rw [h]

theorem fillFold_within (ps : List TP) : ∀ s : St, s.subs ≠ [] →
    (∀ p ∈ ps, (consumersOf s p).isEmpty = false → ∀ c ∈ s.subs, (potOf s c).contains p = true) →
    Within1 s → Within1 (ps.foldl fillStep s) := by
  induction ps with
  | nil => intro s _ _ hw; exact hw
  | cons p rest ih =>
    intro s hne hall hw
    simp only [List.foldl_cons]
    by_cases h : (consumersOf s p).isEmpty = true
    · have hs : fillStep s p = s := by unfold fillStep; simp [h]
      rw [hs]
      exact ih s hne (fun q hq => hall q (List.mem_cons_of_mem _ hq)) hw
    · have hs : fillStep s p = assignPartition s p := by unfold fillStep; simp [h]
      rw [hs]
      have hfalse : (consumersOf s p).isEmpty = false := by simpa using h
      apply ih (assignPartition s p)
      · rw [assignPartition_subs]; exact hne
      · intro q hq hq2 c hc
        rw [assignPartition_subs] at hc
        rw [potOf_eq_of_c2p s _ (assignPartition_c2p s p)]
        rw [consumersOf_eq_of_p2c s _ (assignPartition_p2c s p)] at hq2
        exact hall q (List.mem_cons_of_mem _ hq) hq2 c hc
      · exact assignPartition_within s p hne (hall p List.mem_cons_self hfalse) hw

/-- setting consumers aside keeps the remaining loads within one -/
theorem setAsideFold_within (cs : List Member) : ∀ (s : St) (fx : List (Member × List TP)),
    s.subs.Nodup → Within1 s →
    (cs.foldl (fun (acc : St × List (Member × List TP)) c =>
        if !canConsumerParticipate acc.1 c then
          ({ acc.1 with subs := removeFirst acc.1.subs c, cur := alDel acc.1.cur c }, acc.2 ++ [(c, curOf acc.1 c)])
        else acc) (s, fx)).1.subs.Nodup ∧
    Within1 (cs.foldl (fun (acc : St × List (Member × List TP)) c =>
        if !canConsumerParticipate acc.1 c then
          ({ acc.1 with subs := removeFirst acc.1.subs c, cur := alDel acc.1.cur c }, acc.2 ++ [(c, curOf acc.1 c)])
        else acc) (s, fx)).1 := by
  induction cs with
  | nil => intro s fx hn hw; exact ⟨hn, hw⟩
  | cons c rest ih =>
    intro s fx hn hw
    simp only [List.foldl_cons]
    split
    · obtain ⟨hn', hnot, _⟩ := removeFirst_nodup s.subs c hn
      apply ih _ _ hn'
      intro a ha b hb
      have ha' : a ∈ s.subs := mem_removeFirst _ _ _ ha
      have hb' : b ∈ s.subs := mem_removeFirst _ _ _ hb
      have hac : c ≠ a := by intro e; subst e; exact hnot ha
      have hbc : c ≠ b := by intro e; subst e; exact hnot hb
      have := hw a ha' b hb'
      unfold load curOf at this ⊢
      show (alGetD (alDel s.cur c) a []).length ≤ (alGetD (alDel s.cur c) b []).length + 1
      rw [alGetD_def, alGetD_def, curOf_alDel_other _ _ _ hac, curOf_alDel_other _ _ _ hbc]
      rw [alGetD_def, alGetD_def] at this
      exact this
    · exact ih s fx hn hw

/-- loads within one ⇒ `_is_balanced` (its first test) -/
theorem isBalanced_of_within (s : St) (hw : Within1 s) : isBalanced s = true := by
  unfold isBalanced
  cases hl : leastSub s with
  | none => rfl
  | some lo =>
    cases hh : mostSub s with
    | none => rfl
    | some hi =>
      simp only
      have hlo : lo ∈ s.subs := head_mem_sortBy _ _ _ hl
      have hhi : hi ∈ s.subs := by
        unfold mostSub sortedSubs at hh
        exact (mem_sortBy _ _ _).mp (List.mem_of_getLast? hh)
      have := hw hi hhi lo hlo
      unfold load at this
      simp only [ge_iff_le, this, if_true]

/-- **identical candidates, loads within one**: when every consumer is a candidate for every
    partition still to be placed and the consumers' loads differ by at most one, `balance` hands the
    unassigned partitions out and moves nothing: every consumer keeps its whole list, in order -/
theorem balance_keeps_identical (fuel : Nat) (s : St)
    (hc2p : (keysOf s.c2p).Nodup) (hcur : (keysOf s.cur).Nodup) (hne : s.cur ≠ []) (hf : s.failed = none)
    (hall : ∀ p ∈ s.unassigned, (consumersOf s p).isEmpty = false →
      ∀ c ∈ keysOf s.cur, (potOf s c).contains p = true)
    (hw : ∀ a ∈ keysOf s.cur, ∀ b ∈ keysOf s.cur, (curOf s a).length ≤ (curOf s b).length + 1) :
    ∃ s', balance (fuel + 1) s = some s' ∧ s'.failed = none ∧
      (s'.badOracle = s.badOracle ∧ s'.oracle = s.oracle) ∧ ∀ x, curOf s x <+: curOf s' x := by
  apply balance_keeps_when_fill_balanced fuel s hc2p hne hf
  have hsubs : ({ s with subs := s.cur.map (·.1) } : St).subs ≠ [] := by
    show s.cur.map (·.1) ≠ []
    intro h; exact hne (List.map_eq_nil_iff.mp h)
  have hw0 : Within1 { s with subs := s.cur.map (·.1) } := hw
  have hfill := fillFold_within s.unassigned { s with subs := s.cur.map (·.1) } hsubs hall hw0
  obtain ⟨_, hfsubs, _, _⟩ := fillFold_fields s.unassigned { s with subs := s.cur.map (·.1) }
  have hwa : Within1 (assignUnassigned { s with subs := s.cur.map (·.1) }) := hfill
  have hna : (assignUnassigned { s with subs := s.cur.map (·.1) }).subs.Nodup := by
    show (s.unassigned.foldl fillStep { s with subs := s.cur.map (·.1) }).subs.Nodup
    rw [hfsubs]; exact hcur
  have := setAsideFold_within ((assignUnassigned { s with subs := s.cur.map (·.1) }).c2p.map (·.1))
    (assignUnassigned { s with subs := s.cur.map (·.1) }) [] hna hwa
  exact isBalanced_of_within _ this.2

end AkVerif.StickyAlg
