import AkVerif.Lemmas.V2Impl
/-! the reader model (both implementations) on batches of the format definition; size accounting -/
namespace AkVerif.V2
open AkVerif.Wire AkVerif.Varint AkVerif.Crc

/-- what the reader needs of its varint decoder: it inverts the canonical encoding of an int64 -/
def GoodDv (dv : Bytes → Option (Int × Bytes)) : Prop :=
  ∀ (i : Int), int64 i → ∀ rest : Bytes, dv (encVarint i ++ rest) = some (i, rest)

theorem goodDv_py : GoodDv decodeVarintPy := fun i h rest => decodeVarintPy_encVarint i h rest
theorem goodDv_cy : GoodDv decodeVarintCy := fun i h rest => decodeVarintCy_encVarint i h rest

theorem encVarint_zero : encVarint 0 = [0] := by
  unfold encVarint
  have : zig 0 = 0 := by decide
  rw [this, encUV_small 0 (by omega)]

theorem implBytes_enc (dv : Bytes → Option (Int × Bytes)) (hdv : GoodDv dv) (ob : Option Bytes)
    (h : optLenOK ob) (rest : Bytes) : implBytes dv (encVBytes ob ++ rest) = some (ob, rest) := by
  cases ob with
  | none =>
    unfold implBytes encVBytes
    rw [hdv (-1) (by unfold int64; omega)]
    simp
  | some b =>
    unfold implBytes encVBytes
    rw [List.append_assoc, hdv _ (int64_of_lenOK _ h)]
    have h1 : ¬ ((b.length : Int) < 0) := by omega
    have h2 : ¬ ((b ++ rest).length < b.length) := by simp only [List.length_append]; omega
    simp only [h1, if_false, Int.toNat_natCast, h2, List.take_left', List.drop_left']

theorem implHeaders_enc (dv : Bytes → Option (Int × Bytes)) (hdv : GoodDv dv)
    (hs : List (Bytes × Option Bytes)) (h : ∀ x ∈ hs, hdrOK x) (rest : Bytes) :
    implHeaders dv hs.length (encHeaders hs ++ rest) = some (hs, rest) := by
  induction hs with
  | nil => simp [implHeaders, encHeaders]
  | cons x xs ih =>
    have hx := h x (by simp)
    have ih' := ih (fun y hy => h y (by simp [hy]))
    obtain ⟨k, v⟩ := x
    simp only [List.length_cons, implHeaders, encHeaders, encHeader, List.append_assoc]
    rw [hdv _ (int64_of_lenOK _ hx.1)]
    have h1 : ¬ ((k.length : Int) < 0) := by omega
    have h2 : ¬ ((k ++ (encVBytes v ++ (encHeaders xs ++ rest))).length < k.length) := by
      simp only [List.length_append]; omega
    simp only [h1, if_false, Int.toNat_natCast, h2, List.drop_left', List.take_left']
    rw [implBytes_enc dv hdv v hx.2]
    simp only
    rw [ih']

/-- the record as a reader sees it in a batch with header `h` -/
def seenRec (h : Header) (d o : Int) (r : Rec) : Rec :=
  { offset := h.baseOffset + o, ts := if h.attrBits &&& 0x08 ≠ 0 then h.maxTs else h.firstTs + d,
    key := r.key, value := r.value, headers := r.headers }

theorem implReadMsg_enc (dv : Bytes → Option (Int × Bytes)) (hdv : GoodDv dv) (h : Header) (f b : Int)
    (r : Rec) (hwf : WFRec f b r) (rest : Bytes) :
    implReadMsg dv h (encRecord f b r ++ rest) = some (seenRec h (r.ts - f) (r.offset - b) r, rest) := by
  obtain ⟨⟨hd, ho, hk, hv, hn, hh⟩, hl⟩ := hwf
  unfold implReadMsg encRecord
  rw [List.append_assoc, hdv _ (int64_of_lenOK _ hl)]
  simp only
  have hbody : encRecordBody (r.ts - f) (r.offset - b) r ++ rest =
      encVarint 0 ++ (encVarint (r.ts - f) ++ (encVarint (r.offset - b) ++ (encVBytes r.key ++
        (encVBytes r.value ++ (encVarint r.headers.length ++ (encHeaders r.headers ++ rest)))))) := by
    simp [encRecordBody, encVarint_zero]
  conv => lhs; rw [hbody]
  rw [hdv 0 (by unfold int64; omega)]
  simp only
  rw [hdv _ hd]
  simp only
  rw [hdv _ ho]
  simp only
  rw [implBytes_enc dv hdv _ hk]
  simp only
  rw [implBytes_enc dv hdv _ hv]
  simp only
  rw [hdv _ (int64_of_lenOK _ hn)]
  have h1 : ¬ ((r.headers.length : Int) < 0) := by omega
  simp only [h1, if_false, Int.toNat_natCast]
  rw [implHeaders_enc dv hdv _ hh]
  simp only
  rw [← hbody]
  have hlen : (((encRecordBody (r.ts - f) (r.offset - b) r ++ rest).length - rest.length : Nat) : Int) =
      ((encRecordBody (r.ts - f) (r.offset - b) r).length : Int) := by
    simp only [List.length_append]; omega
  simp only [hlen, ne_eq, not_true_eq_false, if_false]
  rfl

theorem implReadMsgs_enc (dv : Bytes → Option (Int × Bytes)) (hdv : GoodDv dv) (h : Header) (f b : Int)
    (recs : List Rec) (hwf : ∀ r ∈ recs, WFRec f b r) (rest : Bytes) :
    implReadMsgs dv h recs.length (encRecords f b recs ++ rest) =
      some (recs.map (fun r => seenRec h (r.ts - f) (r.offset - b) r), rest) := by
  induction recs with
  | nil => simp [implReadMsgs, encRecords]
  | cons r rs ih =>
    simp only [List.length_cons, implReadMsgs, encRecords, List.append_assoc, List.map_cons]
    rw [implReadMsg_enc dv hdv h f b r (hwf r (by simp))]
    simp only
    rw [ih (fun y hy => hwf y (by simp [hy]))]

theorem attrBits_facts (c : Cfg) (hc : c.codec < 8) :
    (((attrsOf c : Int) % 65536).toNat &&& 0x07 = c.codec) ∧
    ((((attrsOf c : Int) % 65536).toNat &&& 0x08 ≠ 0) ↔ c.logAppend = true) := by
  have hlt := (attrs_facts c hc).2.2.2.2
  have hfin : ∀ a : Fin 64, (a.val &&& 0x07 = a.val % 8) ∧ ((a.val &&& 0x08 ≠ 0) ↔ a.val / 8 % 2 = 1) := by
    decide +kernel
  have e : ((attrsOf c : Int) % 65536).toNat = attrsOf c := by omega
  rw [e]
  have := hfin ⟨attrsOf c, hlt⟩
  simp only at this
  rw [this.1, this.2]
  unfold attrsOf
  cases c.logAppend <;> cases c.transactional <;> cases c.control <;>
    simp only [Bool.false_eq_true, if_false, if_true] <;> refine ⟨by omega, ?_⟩ <;> simp <;> omega

theorem seenRec_eq (C : Codec) (c : Cfg) (recs : List Rec) (hc : c.codec < 8) (r : Rec) :
    seenRec (headerOf C c recs) (r.ts - firstTsOf recs) (r.offset - c.baseOffset) r =
      (if c.logAppend then { r with ts := c.appendTime } else r) := by
  have hb := (attrBits_facts c hc).2
  have hab : (headerOf C c recs).attrBits = ((attrsOf c : Int) % 65536).toNat := rfl
  unfold seenRec
  rw [hab]
  cases hl : c.logAppend
  · have : ¬ (((attrsOf c : Int) % 65536).toNat &&& 0x08 ≠ 0) := by rw [hb, hl]; simp
    simp only [this, if_false, Bool.false_eq_true]
    cases r
    simp only [headerOf, Rec.mk.injEq, and_true]
    constructor <;> omega
  · have : (((attrsOf c : Int) % 65536).toNat &&& 0x08 ≠ 0) := by rw [hb, hl]
    simp only [this, if_true]
    cases r
    simp only [headerOf, headerMaxTs, hl, if_true, Rec.mk.injEq, and_true]
    omega

/-- both readers return exactly the stored records of every well-formed batch of the format -/
theorem implRead_specBuild (dv : Bytes → Option (Int × Bytes)) (hdv : GoodDv dv) (C : Codec)
    (hC : C.Lawful) (c : Cfg) (recs : List Rec) (h : WFBatch C c recs) :
    implRead dv C (specBuild C c recs) = some (headerOf C c recs, stamped c recs) := by
  have hcodec : c.codec < 8 := h.1.2.2.1
  have hrecs := h.2.1
  unfold implRead
  rw [decHeader_spec C c recs h]
  simp only
  have hab : (headerOf C c recs).attrBits = ((attrsOf c : Int) % 65536).toNat := rfl
  rw [hab, (attrBits_facts c hcodec).1]
  have hdata : (if c.codec = 0 then some (payloadOf C c recs) else C.decompress c.codec (payloadOf C c recs))
      = some (encRecords (firstTsOf recs) c.baseOffset recs) := by
    unfold payloadOf
    split
    · rfl
    · exact hC _ _
  rw [hdata]
  simp only
  have hn : (headerOf C c recs).count.toNat = recs.length := by simp [headerOf]
  rw [hn]
  have := implReadMsgs_enc dv hdv (headerOf C c recs) (firstTsOf recs) c.baseOffset recs hrecs []
  rw [List.append_nil] at this
  rw [this]
  simp only
  congr 2
  unfold stamped
  cases hl : c.logAppend
  · simp only [Bool.false_eq_true, if_false]
    conv => rhs; rw [← List.map_id recs]
    apply List.map_congr_left
    intro r _
    simp [seenRec_eq C c recs hcodec r, hl]
  · simp only [if_true]
    apply List.map_congr_left
    intro r _
    simp [seenRec_eq C c recs hcodec r, hl]

/-! ### size accounting -/

theorem encVarint_len32 (i : Int) (h : int32 i) : (encVarint i).length ≤ 5 := by
  unfold encVarint
  have hz : zig i < 2 ^ 32 := zig_lt 31 i h
  rw [← sizeLadder_eq _ (by omega)]
  repeat' split
  all_goals omega

/-- `size_in_bytes` (Python) is the number of bytes `append` adds -/
theorem pySizeInBytes_eq (s : PyB) (r : Rec) (hd : int64 (pyTsDelta s r)) (ho : int64 r.offset)
    (hk : optLenOK r.key) (hv : optLenOK r.value) (hn : lenOK r.headers.length)
    (hh : ∀ x ∈ r.headers, hdrOK x) (hl : lenOK (encRecordBody (pyTsDelta s r) r.offset r).length) :
    pySizeInBytes s r = (encVarint (encRecordBody (pyTsDelta s r) r.offset r).length ++
      encRecordBody (pyTsDelta s r) r.offset r).length ∧ pyRequired s r = pySizeInBytes s r := by
  have hb := encRecordBody_length_py (pyTsDelta s r) r.offset r hd ho hk hv hn hh
  have e1 : pySizeInBytes s r = (encRecordBody (pyTsDelta s r) r.offset r).length +
      sizeOfVarintPy (encRecordBody (pyTsDelta s r) r.offset r).length := by
    unfold pySizeInBytes
    simp only [hb]
  constructor
  · rw [e1, List.length_append, sizeOfVarintPy_eq _ (int64_of_lenOK _ hl)]; omega
  · unfold pyRequired
    rw [pyMsg_eq, e1]

theorem pyPut_size (s : PyB) (r : Rec) :
    pySize (pyPut s r) = pySize s + (encVarint (encRecordBody (pyTsDelta s r) r.offset r).length ++
      encRecordBody (pyTsDelta s r) r.offset r).length := by
  simp only [pySize, pyPut, List.length_append, pyMsg_eq, encodeVarintPy_eq]
  omega

/-- `size_in_bytes` (Cython) is the number of bytes `append` adds — for every record -/
theorem cySizeInBytes_eq (s : CyB) (r : Rec) : cySizeInBytes s r = (cyWritten s r).length := by
  rw [cyWritten_eq]
  unfold cySizeInBytes
  have h1 := cySizeOfBody_eq s r
  rw [cyMsg_eq] at h1
  rw [h1, List.length_append, sizeOfVarintCy_eq]
  omega

theorem cyPut_size (s : CyB) (r : Rec) : cySize (cyPut s r) = cySize s + cySizeInBytes s r := by
  simp only [cySize, cyPut, List.length_append, cySizeInBytes_eq]
  omega

theorem writeHeader_length (n : Int) (a l f m p e q k : Int) (body : Bytes) :
    (writeHeader n a l f m p e q k body).length = 61 + body.length := by
  unfold writeHeader
  simp only [List.length_append, be_length]
  omega

/-- `estimate_size_in_bytes` bounds the size of the record (plus the 61 header bytes) from above -/
theorem record_le_estimate (d o : Int) (r : Rec) (hd : int64 d) (ho : int32 o)
    (hl : lenOK (encRecordBody d o r).length) :
    (encVarint (encRecordBody d o r).length ++ encRecordBody d o r).length ≤
      21 + cySizeOf r.key r.value r.headers := by
  have h1 := encRecordBody_length_cy d o r
  have h2 := encVarint_length_le d hd
  have h3 := encVarint_len32 o ho
  have h4 : (encVarint ((encRecordBody d o r).length : Int)).length ≤ 5 :=
    encVarint_len32 _ (by unfold lenOK at hl; unfold int32; omega)
  rw [List.length_append]
  simp only [sizeOfVarintCy_eq] at h1
  omega

end AkVerif.V2
