import AkVerif.Lemmas.V2
/-! the builder and reader models of the two implementations against the format definition -/
namespace AkVerif.V2
open AkVerif.Wire AkVerif.Varint AkVerif.Crc

/-! ### message bytes -/

theorem encVarint_neg1 : encVarint (-1) = [1] := by
  unfold encVarint
  have : zig (-1) = 1 := by decide
  rw [this, encUV_small 1 (by omega)]

theorem pyVBytes_eq (ob : Option Bytes) : pyVBytes ob = encVBytes ob := by
  cases ob with
  | none => simp [pyVBytes, encVBytes, encVarint_neg1]
  | some b => simp [pyVBytes, encVBytes, encodeVarintPy_eq]

theorem cyVBytes_eq (ob : Option Bytes) : cyVBytes ob = encVBytes ob := by
  cases ob with
  | none => simp [cyVBytes, encVBytes, encodeVarintCy_eq]
  | some b => simp [cyVBytes, encVBytes, encodeVarintCy_eq]

theorem pyHeaders_eq (hs : List (Bytes × Option Bytes)) : pyHeaders hs = encHeaders hs := by
  induction hs with
  | nil => rfl
  | cons h t ih => simp [pyHeaders, encHeaders, encHeader, ih, encodeVarintPy_eq, pyVBytes_eq]

theorem cyHeaders_eq (hs : List (Bytes × Option Bytes)) : cyHeaders hs = encHeaders hs := by
  induction hs with
  | nil => rfl
  | cons h t ih => simp [cyHeaders, encHeaders, encHeader, ih, encodeVarintCy_eq, cyVBytes_eq]

theorem pyMsg_eq (d : Int) (r : Rec) : pyMsg d r = encRecordBody d r.offset r := by
  simp [pyMsg, encRecordBody, encodeVarintPy_eq, pyVBytes_eq, pyHeaders_eq]

theorem cyMsg_eq (d : Int) (r : Rec) : cyMsg d r = encRecordBody d r.offset r := by
  simp [cyMsg, encRecordBody, encodeVarintCy_eq, cyVBytes_eq, cyHeaders_eq]

theorem encRecord_base0 (f : Int) (r : Rec) :
    encRecord f 0 r = encVarint (encRecordBody (r.ts - f) r.offset r).length ++
      encRecordBody (r.ts - f) r.offset r := by
  unfold encRecord; simp

/-! ### lists built by appending at the end -/

theorem encRecords_append (f b : Int) (xs ys : List Rec) :
    encRecords f b (xs ++ ys) = encRecords f b xs ++ encRecords f b ys := by
  induction xs with
  | nil => rfl
  | cons x t ih => simp [encRecords, ih]

theorem maxTsFrom_append (m : Int) (xs ys : List Rec) :
    maxTsFrom m (xs ++ ys) = maxTsFrom (maxTsFrom m xs) ys := by
  induction xs generalizing m with
  | nil => rfl
  | cons x t ih => simp [maxTsFrom, ih]

theorem lastOffsetFrom_append (d : Int) (xs ys : List Rec) :
    lastOffsetFrom d (xs ++ ys) = lastOffsetFrom (lastOffsetFrom d xs) ys := by
  induction xs generalizing d with
  | nil => rfl
  | cons x t ih => simp [lastOffsetFrom, ih]

theorem firstTsOf_append (xs ys : List Rec) (h : xs ≠ []) : firstTsOf (xs ++ ys) = firstTsOf xs := by
  cases xs with
  | nil => exact absurd rfl h
  | cons x t => rfl

theorem maxTsOf_snoc (xs : List Rec) (r : Rec) (h : xs ≠ []) :
    maxTsOf (xs ++ [r]) = (if maxTsOf xs < r.ts then r.ts else maxTsOf xs) := by
  unfold maxTsOf
  rw [firstTsOf_append xs [r] h, maxTsFrom_append]
  rfl

/-! ### sizes computed by the builders = bytes written -/

theorem encVBytes_length_cy (ob : Option Bytes) : (encVBytes ob).length = cyOptSize ob := by
  cases ob with
  | none => simp [encVBytes, cyOptSize, encVarint_neg1]
  | some b => simp [encVBytes, cyOptSize, sizeOfVarintCy_eq]

theorem encHeaders_length_cy (hs : List (Bytes × Option Bytes)) : (encHeaders hs).length = cyHdrsSize hs := by
  induction hs with
  | nil => rfl
  | cons h t ih =>
    simp only [encHeaders, encHeader, List.length_append, cyHdrsSize, ih, encVBytes_length_cy,
      sizeOfVarintCy_eq]
    omega

theorem encRecordBody_length_cy (d o : Int) (r : Rec) :
    (encRecordBody d o r).length =
      1 + sizeOfVarintCy o + sizeOfVarintCy d + cySizeOf r.key r.value r.headers := by
  simp only [encRecordBody, List.length_cons, List.length_append, cySizeOf, encVBytes_length_cy,
    encHeaders_length_cy, sizeOfVarintCy_eq]
  omega

theorem encVBytes_length_py (ob : Option Bytes) (h : optLenOK ob) : (encVBytes ob).length = pyOptSize ob := by
  cases ob with
  | none => simp [encVBytes, pyOptSize, encVarint_neg1]
  | some b => simp [encVBytes, pyOptSize, sizeOfVarintPy_eq _ (int64_of_lenOK _ h)]

theorem encHeaders_length_py (hs : List (Bytes × Option Bytes)) (h : ∀ x ∈ hs, hdrOK x) :
    (encHeaders hs).length = pyHdrsSize hs := by
  induction hs with
  | nil => rfl
  | cons x t ih =>
    have hx := h x (by simp)
    simp only [encHeaders, encHeader, List.length_append, pyHdrsSize, ih (fun y hy => h y (by simp [hy])),
      encVBytes_length_py _ hx.2, sizeOfVarintPy_eq _ (int64_of_lenOK _ hx.1)]
    omega

theorem encRecordBody_length_py (d o : Int) (r : Rec) (hd : int64 d) (ho : int64 o)
    (hk : optLenOK r.key) (hv : optLenOK r.value) (hn : lenOK r.headers.length)
    (hh : ∀ x ∈ r.headers, hdrOK x) :
    (encRecordBody d o r).length =
      1 + sizeOfVarintPy o + sizeOfVarintPy d + pySizeOf r.key r.value r.headers := by
  simp only [encRecordBody, List.length_cons, List.length_append, pySizeOf, encVBytes_length_py _ hk,
    encVBytes_length_py _ hv, encHeaders_length_py _ hh, sizeOfVarintPy_eq _ hd, sizeOfVarintPy_eq _ ho,
    sizeOfVarintPy_eq _ (int64_of_lenOK _ hn)]
  omega

/-! ### pure-Python builder -/

/-- what the builder state must be after the records `acc` have been accepted -/
structure PyInv (s : PyB) (acc : List Rec) : Prop where
  first : s.firstTs = (match acc with | [] => none | r :: _ => some r.ts)
  max : acc ≠ [] → s.maxTs = some (maxTsOf acc)
  last : s.lastOffset = lastOffsetFrom 0 acc
  num : s.num = acc.length
  body : s.body = encRecords (firstTsOf acc) 0 acc

theorem pyInv_init : PyInv {} [] := ⟨rfl, fun h => absurd rfl h, rfl, rfl, rfl⟩

theorem pyAppend_none (c : BCfg) (s s' : PyB) (r : Rec) (h : pyAppend c s r = (none, s')) : s' = s := by
  unfold pyAppend at h
  split at h
  · injection h with _ h2; exact h2.symm
  · injection h with h1 _; cases h1

theorem pyAppend_some_eq (c : BCfg) (s s' : PyB) (r : Rec) (m : Meta) (h : pyAppend c s r = (some m, s')) :
    ¬ pyRejects c s r ∧ m = ⟨r.offset, pyRequired s r, r.ts⟩ ∧ s' = pyPut s r := by
  unfold pyAppend at h
  split at h
  · injection h with h1 _; cases h1
  · rename_i hr
    injection h with h1 h2
    injection h1 with h1
    exact ⟨hr, h1.symm, h2.symm⟩

theorem pyAppend_some (c : BCfg) (s s' : PyB) (acc : List Rec) (r : Rec) (m : Meta) (hinv : PyInv s acc)
    (h : pyAppend c s r = (some m, s')) : PyInv s' (acc ++ [r]) := by
  obtain ⟨_, _, rfl⟩ := pyAppend_some_eq c s s' r m h
  cases acc with
  | nil =>
    have hf : s.firstTs = none := hinv.first
    have hb : s.body = [] := hinv.body
    refine ⟨?_, fun _ => ?_, rfl, ?_, ?_⟩
    · simp [pyPut, hf]
    · simp [pyPut, hf, maxTsOf, maxTsFrom, firstTsOf]
    · simp [pyPut, hinv.num]
    · simp only [pyPut, List.nil_append, firstTsOf, encRecords, List.append_nil, hb, pyTsDelta, hf,
        pyMsg_eq, encodeVarintPy_eq, encRecord_base0]
      simp
  | cons a t =>
    have hf : s.firstTs = some a.ts := hinv.first
    have hm : s.maxTs = some (maxTsOf (a :: t)) := hinv.max (by simp)
    refine ⟨?_, fun _ => ?_, ?_, ?_, ?_⟩
    · simp [pyPut, hf]
    · simp only [pyPut, hf, hm, pyMax]
      rw [maxTsOf_snoc (a :: t) r (by simp)]
    · rw [lastOffsetFrom_append]; rfl
    · simp [pyPut, hinv.num]
    · rw [encRecords_append, firstTsOf_append (a :: t) [r] (by simp)]
      simp only [pyPut, hinv.body, firstTsOf, encRecords, List.append_nil, pyTsDelta, hf, pyMsg_eq,
        encodeVarintPy_eq, encRecord_base0]

theorem pyRun_inv (c : BCfg) (rs : List Rec) : ∀ (s : PyB) (acc : List Rec), PyInv s acc →
    PyInv (pyRun c s rs).2 (acc ++ pyAccepted c s rs) := by
  induction rs with
  | nil => intro s acc h; simpa [pyRun, pyAccepted] using h
  | cons r rs ih =>
    intro s acc h
    simp only [pyRun, pyAccepted]
    cases hp : pyAppend c s r with
    | mk m s1 =>
      cases m with
      | none =>
        have := pyAppend_none c s s1 r hp
        subst this
        simpa using ih s1 acc h
      | some m =>
        have h1 := pyAppend_some c s s1 acc r m h hp
        have := ih s1 (acc ++ [r]) h1
        simpa using this

/-- the header configuration a Python-built batch corresponds to -/
def pyCfgOf (C : Codec) (c : BCfg) (s : PyB) : Cfg :=
  { baseOffset := 0, leaderEpoch := -1,
    codec := if c.codec ≠ 0 ∧ ¬ (s.body.length ≤ (C.compress c.codec s.body).length) then c.codec else 0,
    logAppend := false, appendTime := 0, transactional := c.transactional, control := false,
    pid := c.pid, epoch := c.epoch, seq := c.seq }

theorem header_eq (len1 len2 : Int) (a1 a2 : Bytes) (hl : len1 = len2) (ha : a1 = a2) :
    be 8 0 ++ (be 4 len1 ++ (be 4 (-1) ++ (be 1 2 ++ (be 4 (crc32c a1) ++ a1)))) =
    be 8 0 ++ (be 4 len2 ++ (be 4 (-1) ++ (be 1 2 ++ (be 4 (crc32c a2) ++ a2)))) := by
  subst hl; subst ha; rfl

theorem after_eq (a1 a2 l1 l2 f1 f2 m1 m2 p1 p2 e1 e2 q1 q2 n1 n2 : Int) (b1 b2 : Bytes)
    (ha : a1 = a2) (hl : l1 = l2) (hf : f1 = f2) (hm : m1 = m2) (hp : p1 = p2) (he : e1 = e2)
    (hq : q1 = q2) (hn : n1 = n2) (hb : b1 = b2) :
    be 2 a1 ++ (be 4 l1 ++ (be 8 f1 ++ (be 8 m1 ++ (be 8 p1 ++ (be 2 e1 ++ (be 4 q1 ++ (be 4 n1 ++ b1))))))) =
    be 2 a2 ++ (be 4 l2 ++ (be 8 f2 ++ (be 8 m2 ++ (be 8 p2 ++ (be 2 e2 ++ (be 4 q2 ++ (be 4 n2 ++ b2))))))) := by
  subst ha hl hf hm hp he hq hn hb; rfl

theorem pyBuild_eq_spec (C : Codec) (c : BCfg) (s : PyB) (acc : List Rec) (hinv : PyInv s acc)
    (hne : acc ≠ []) : (pyBuild C c s).1 = specBuild C (pyCfgOf C c s) acc := by
  obtain ⟨a, t, rfl⟩ : ∃ a t, acc = a :: t := by
    cases acc with
    | nil => exact absurd rfl hne
    | cons a t => exact ⟨a, t, rfl⟩
  have hf : s.firstTs = some a.ts := hinv.first
  have hm : s.maxTs = some (maxTsOf (a :: t)) := hinv.max hne
  unfold pyBuild writeHeader specBuild
  simp only [hf, hm]
  by_cases huse : c.codec ≠ 0 ∧ ¬ (s.body.length ≤ (C.compress c.codec s.body).length)
  · have hcodec : (pyCfgOf C c s).codec = c.codec := by simp only [pyCfgOf, if_pos huse]
    have hpay : payloadOf C (pyCfgOf C c s) (a :: t) = C.compress c.codec s.body := by
      unfold payloadOf
      rw [hcodec, if_neg huse.1, hinv.body]; rfl
    simp only [if_pos huse]
    apply header_eq
    · unfold afterCrc
      simp only [List.length_append, be_length, hpay]
      omega
    · unfold afterCrc
      apply after_eq
      · simp only [attrsOf, hcodec]
        simp [pyCfgOf]
      · simp [lastDeltaOf, hinv.last, pyCfgOf]
      · rfl
      · simp [headerMaxTs, pyCfgOf]
      · rfl
      · rfl
      · rfl
      · simp [hinv.num]
      · exact hpay.symm
  · have hcodec : (pyCfgOf C c s).codec = 0 := by simp only [pyCfgOf, if_neg huse]
    have hpay : payloadOf C (pyCfgOf C c s) (a :: t) = s.body := by
      unfold payloadOf
      rw [hcodec, if_pos rfl, hinv.body]; rfl
    simp only [if_neg huse]
    apply header_eq
    · unfold afterCrc
      simp only [List.length_append, be_length, hpay]
      omega
    · unfold afterCrc
      apply after_eq
      · simp only [attrsOf, hcodec]
        simp [pyCfgOf]
      · simp [lastDeltaOf, hinv.last, pyCfgOf]
      · rfl
      · simp [headerMaxTs, pyCfgOf]
      · rfl
      · rfl
      · rfl
      · simp [hinv.num]
      · exact hpay.symm

/-! ### Cython builder -/

structure CyInv (s : CyB) (acc : List Rec) : Prop where
  first : s.firstTs = (match acc with | [] => -1 | r :: _ => r.ts)
  max : s.maxTs = (match acc with | [] => -1 | _ :: _ => maxTsOf acc)
  last : s.lastOffset = lastOffsetFrom 0 acc
  num : s.num = acc.length
  body : s.body = encRecords (firstTsOf acc) 0 acc

theorem cyInv_init : CyInv {} [] := ⟨rfl, rfl, rfl, rfl, rfl⟩

theorem cyAppend_none (c : BCfg) (s s' : CyB) (r : Rec) (h : cyAppend c s r = (none, s')) : s' = s := by
  unfold cyAppend at h
  split at h
  · injection h with _ h2; exact h2.symm
  · injection h with h1 _; cases h1

theorem cyAppend_some_eq (c : BCfg) (s s' : CyB) (r : Rec) (m : Meta) (h : cyAppend c s r = (some m, s')) :
    ¬ cyRejects c s r ∧ m = ⟨r.offset, cySizeInBytes s r, r.ts⟩ ∧ s' = cyPut s r := by
  unfold cyAppend at h
  split at h
  · injection h with h1 _; cases h1
  · rename_i hr
    injection h with h1 h2
    injection h1 with h1
    exact ⟨hr, h1.symm, h2.symm⟩

theorem cySizeOfBody_eq (s : CyB) (r : Rec) :
    cySizeOfBody s r = (cyMsg (cyTsDelta s r) r).length := by
  rw [cyMsg_eq, encRecordBody_length_cy]
  rfl

/-- the size computed beforehand is exactly the size of what is written: nothing is cut, nothing stays zero -/
theorem cyWritten_eq (s : CyB) (r : Rec) :
    cyWritten s r =
      encVarint (encRecordBody (cyTsDelta s r) r.offset r).length ++ encRecordBody (cyTsDelta s r) r.offset r := by
  have h1 := cySizeOfBody_eq s r
  rw [cyMsg_eq] at h1
  unfold cyWritten cySizeInBytes
  rw [cyMsg_eq, encodeVarintCy_eq, h1]
  apply List.take_left'
  simp only [List.length_append, sizeOfVarintCy_eq]
  omega

theorem cyAppend_some (c : BCfg) (s s' : CyB) (acc : List Rec) (r : Rec) (m : Meta) (hinv : CyInv s acc)
    (hts : ∀ x ∈ acc, x.ts ≠ -1) (h : cyAppend c s r = (some m, s')) : CyInv s' (acc ++ [r]) := by
  obtain ⟨_, _, rfl⟩ := cyAppend_some_eq c s s' r m h
  cases acc with
  | nil =>
    have hf : s.firstTs = -1 := hinv.first
    have hb : s.body = [] := hinv.body
    refine ⟨?_, ?_, rfl, ?_, ?_⟩
    · simp [cyPut, hf]
    · simp [cyPut, hf, maxTsOf, maxTsFrom, firstTsOf]
    · simp [cyPut, hinv.num]
    · simp only [cyPut, cyWritten_eq, hb, List.nil_append, firstTsOf, encRecords, List.append_nil,
        encRecord_base0]
      simp [cyTsDelta, hf]
  | cons a t =>
    have hf : s.firstTs = a.ts := hinv.first
    have hne : a.ts ≠ -1 := hts a (by simp)
    have hm : s.maxTs = maxTsOf (a :: t) := hinv.max
    refine ⟨?_, ?_, ?_, ?_, ?_⟩
    · simp [cyPut, hf, hne]
    · simp only [cyPut, hf, hne, if_false, hm, List.cons_append]
      rw [← List.cons_append, maxTsOf_snoc (a :: t) r (by simp)]
    · rw [lastOffsetFrom_append]; rfl
    · simp [cyPut, hinv.num]
    · rw [encRecords_append, firstTsOf_append (a :: t) [r] (by simp)]
      simp only [cyPut, cyWritten_eq, hinv.body, firstTsOf, encRecords, List.append_nil, encRecord_base0]
      simp [cyTsDelta, hf, hne]

theorem cyAccepted_ts (c : BCfg) (rs : List Rec) : ∀ (s : CyB), ∀ x ∈ cyAccepted c s rs, x ∈ rs := by
  induction rs with
  | nil => intro s x hx; simp [cyAccepted] at hx
  | cons r rs ih =>
    intro s x hx
    simp only [cyAccepted] at hx
    cases hp : cyAppend c s r with
    | mk m s1 =>
      rw [hp] at hx
      cases m with
      | none => exact List.mem_cons_of_mem _ (ih s1 x hx)
      | some m =>
        rcases List.mem_cons.mp hx with rfl | hx
        · simp
        · exact List.mem_cons_of_mem _ (ih s1 x hx)

theorem cyRun_inv (c : BCfg) (rs : List Rec) (hts : ∀ x ∈ rs, x.ts ≠ -1) :
    ∀ (s : CyB) (acc : List Rec), CyInv s acc → (∀ x ∈ acc, x.ts ≠ -1) →
    CyInv (cyRun c s rs).2 (acc ++ cyAccepted c s rs) := by
  induction rs with
  | nil => intro s acc h _; simpa [cyRun, cyAccepted] using h
  | cons r rs ih =>
    intro s acc h hacc
    have hts' : ∀ x ∈ rs, x.ts ≠ -1 := fun x hx => hts x (by simp [hx])
    simp only [cyRun, cyAccepted]
    cases hp : cyAppend c s r with
    | mk m s1 =>
      cases m with
      | none =>
        have := cyAppend_none c s s1 r hp
        subst this
        simpa using ih hts' s1 acc h hacc
      | some m =>
        have h1 := cyAppend_some c s s1 acc r m h hacc hp
        have hacc' : ∀ x ∈ acc ++ [r], x.ts ≠ -1 := by
          intro x hx
          rcases List.mem_append.mp hx with hx | hx
          · exact hacc x hx
          · simp at hx; subst hx; exact hts x (by simp)
        have := ih hts' s1 (acc ++ [r]) h1 hacc'
        simpa using this

def cyCfgOf (c : BCfg) : Cfg :=
  { baseOffset := 0, leaderEpoch := -1, codec := c.codec, logAppend := false, appendTime := 0,
    transactional := c.transactional, control := false, pid := c.pid, epoch := c.epoch, seq := c.seq }

theorem cyBuild_eq_spec (C : Codec) (c : BCfg) (s : CyB) (acc : List Rec) (hinv : CyInv s acc)
    (hne : acc ≠ []) : (cyBuild C c s).1 = specBuild C (cyCfgOf c) acc := by
  obtain ⟨a, t, rfl⟩ : ∃ a t, acc = a :: t := by
    cases acc with
    | nil => exact absurd rfl hne
    | cons a t => exact ⟨a, t, rfl⟩
  have hf : s.firstTs = a.ts := hinv.first
  have hm : s.maxTs = maxTsOf (a :: t) := hinv.max
  have hpay : payloadOf C (cyCfgOf c) (a :: t) = (if c.codec ≠ 0 then C.compress c.codec s.body else s.body) := by
    unfold payloadOf
    simp only [cyCfgOf, hinv.body, firstTsOf]
    by_cases h0 : c.codec = 0 <;> simp [h0]
  unfold cyBuild writeHeader specBuild
  apply header_eq
  · unfold afterCrc
    simp only [List.length_append, be_length, hpay]
    omega
  · unfold afterCrc
    apply after_eq
    · simp only [attrsOf]
      simp [cyCfgOf]
      by_cases ht : c.transactional = true <;> simp [ht]
    · simp [lastDeltaOf, hinv.last, cyCfgOf]
    · simp [hf, firstTsOf]
    · simp [headerMaxTs, cyCfgOf, hm]
    · rfl
    · rfl
    · rfl
    · simp [hinv.num]
    · exact hpay.symm

end AkVerif.V2
