import AkVerif.Model.Done
/-! helper lemmas for C02 about the batch-resolution model `AkVerif.Done` -/
namespace AkVerif.Done

def BatchSt.WF (b : BatchSt) : Prop := b.futs.length = b.recs.length

theorem doneLoop_length (base ts : Int) (ls : Option Int) :
    ∀ (futs : List (Option Result)) (recs : List (Int × Int)), futs.length = recs.length →
      (doneLoop base ts ls futs recs).length = recs.length := by
  intro futs
  induction futs with
  | nil => intro recs hl; cases recs <;> simp_all [doneLoop]
  | cons f fs ih =>
    intro recs hl
    cases recs with
    | nil => simp at hl
    | cons r rs => obtain ⟨a, b⟩ := r; simp [doneLoop, ih rs (by simpa using hl)]

theorem doneLoopCarried_length (base : Int) (ls : Option Int) (tt : Nat) :
    ∀ (futs : List (Option Result)) (recs : List (Int × Int)) (ts : Int), futs.length = recs.length →
      (doneLoopCarried base ls tt ts futs recs).length = recs.length := by
  intro futs
  induction futs with
  | nil => intro recs ts hl; cases recs <;> simp_all [doneLoopCarried]
  | cons f fs ih =>
    intro recs ts hl
    cases recs with
    | nil => simp at hl
    | cons r rs =>
      obtain ⟨a, b⟩ := r
      cases f <;> simp [doneLoopCarried, ih rs _ (by simpa using hl)]

theorem cancelAt_length : ∀ (i : Nat) (l : List (Option Result)), (cancelAt i l).length = l.length := by
  intro i l
  induction l generalizing i with
  | nil => simp [cancelAt]
  | cons f fs ih => cases i <;> simp [cancelAt, ih]

theorem step_wf (b : BatchSt) (op : Op) (h : b.WF) : (b.step op).WF := by
  unfold BatchSt.WF at *
  cases op <;> simp [BatchSt.step, doneLoop_length, doneLoopCarried_length, cancelAt_length, h]

theorem run_wf (ops : List Op) : ∀ b : BatchSt, b.WF → (b.run ops).WF := by
  induction ops with
  | nil => intro b h; exact h
  | cons o os ih => intro b h; exact ih _ (step_wf b o h)

theorem cancelAt_keeps : ∀ (i j : Nat) (l : List (Option Result)) (r : Result),
    l[j]? = some (some r) → (cancelAt i l)[j]? = some (some r) := by
  intro i j l
  induction l generalizing i j with
  | nil => intro r h; simp at h
  | cons f fs ih =>
    intro r h
    cases i with
    | zero =>
      cases j with
      | zero =>
        simp only [List.getElem?_cons_zero, Option.some.injEq] at h
        subst h; simp [cancelAt, setIfNone]
      | succ j => simpa [cancelAt] using h
    | succ i =>
      cases j with
      | zero => simpa [cancelAt] using h
      | succ j =>
        simp only [List.getElem?_cons_succ] at h
        simp only [cancelAt, List.getElem?_cons_succ]
        exact ih i j r h

theorem doneLoopCarried_keeps (base : Int) (ls : Option Int) (tt : Nat) :
    ∀ (futs : List (Option Result)) (recs : List (Int × Int)) (ts : Int), futs.length = recs.length →
      ∀ (i : Nat) (r : Result), futs[i]? = some (some r) →
        (doneLoopCarried base ls tt ts futs recs)[i]? = some (some r) := by
  intro futs
  induction futs with
  | nil => intro recs ts _ i r hf; simp at hf
  | cons f fs ih =>
    intro recs ts hl i r hf
    cases recs with
    | nil => simp at hl
    | cons x rs =>
      obtain ⟨rel', uts'⟩ := x
      cases i with
      | zero =>
        simp only [List.getElem?_cons_zero, Option.some.injEq] at hf
        subst hf
        simp [doneLoopCarried]
      | succ j =>
        simp only [List.getElem?_cons_succ] at hf
        cases f with
        | none =>
          simp only [doneLoopCarried, List.getElem?_cons_succ]
          exact ih rs _ (by simpa using hl) j r hf
        | some x =>
          simp only [doneLoopCarried, List.getElem?_cons_succ]
          exact ih rs _ (by simpa using hl) j r hf

theorem doneLoop_all_some (base ts : Int) (ls : Option Int) :
    ∀ (futs : List (Option Result)) (recs : List (Int × Int)), futs.length = recs.length →
      ∀ f ∈ doneLoop base ts ls futs recs, f.isSome = true := by
  intro futs
  induction futs with
  | nil => intro recs hl f hf; cases recs <;> simp_all [doneLoop]
  | cons x fs ih =>
    intro recs hl f hf
    cases recs with
    | nil => simp at hl
    | cons r rs =>
      obtain ⟨a, b⟩ := r
      simp only [doneLoop, List.mem_cons] at hf
      rcases hf with rfl | hf
      · cases x <;> rfl
      · exact ih rs (by simpa using hl) f hf

end AkVerif.Done
