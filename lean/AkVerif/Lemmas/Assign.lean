import AkVerif.Model.Assign
/-! helper lemmas for C14 (range tiling, round-robin search) -/
namespace AkVerif.Assign

theorem insertK_perm {α} (k : α → Nat) (a : α) (l : List α) : (insertK k a l).Perm (a :: l) := by
  induction l with
  | nil => exact List.Perm.refl _
  | cons x r ih =>
    unfold insertK
    split
    · exact List.Perm.refl _
    · exact (List.Perm.cons x ih).trans (List.Perm.swap a x r)

theorem isortK_perm {α} (k : α → Nat) (l : List α) : (isortK k l).Perm l := by
  induction l with
  | nil => exact List.Perm.refl _
  | cons x r ih =>
    show (insertK k x (isortK k r)).Perm (x :: r)
    exact (insertK_perm k x _).trans (List.Perm.cons x ih)

theorem mem_isortK {α} (k : α → Nat) (l : List α) (a : α) : a ∈ isortK k l ↔ a ∈ l :=
  (isortK_perm k l).mem_iff

theorem mem_insertU (a b : Nat) (l : List Nat) : b ∈ insertU a l ↔ b = a ∨ b ∈ l := by
  induction l with
  | nil => simp [insertU]
  | cons x r ih =>
    unfold insertU
    split
    · simp
    · split
      · rename_i h; subst h; simp
      · simp [ih]; constructor
        · rintro (h | h | h) <;> simp [h]
        · rintro (h | h | h) <;> simp [h]

theorem mem_usort (l : List Nat) (b : Nat) : b ∈ usort l ↔ b ∈ l := by
  induction l with
  | nil => simp [usort]
  | cons x r ih =>
    show b ∈ insertU x (usort r) ↔ _
    rw [mem_insertU, ih]; simp

theorem rStart_succ (ppc extra i : Nat) :
    rStart ppc extra (i+1) = rStart ppc extra i + rLen ppc extra i := by
  unfold rStart rLen
  rw [Nat.mul_succ]
  split <;> omega

theorem rStart_total (n m : Nat) (hm : 0 < m) : rStart (n / m) (n % m) m = n := by
  unfold rStart
  have h1 : n % m < m := Nat.mod_lt n hm
  have h2 : min m (n % m) = n % m := by omega
  rw [h2]
  exact Nat.div_add_mod' n m

theorem rLen_balanced (ppc extra i j : Nat) : rLen ppc extra i ≤ rLen ppc extra j + 1 := by
  unfold rLen; split <;> split <;> omega

theorem rStart_mono (ppc extra i j : Nat) (h : i ≤ j) : rStart ppc extra i ≤ rStart ppc extra j := by
  unfold rStart
  have : ppc * i ≤ ppc * j := Nat.mul_le_mul_left _ h
  omega

/-- the first `k` slices, concatenated, are the first `rStart k` partitions -/
theorem slices_prefix (ps : List Nat) (m k : Nat) :
    (List.range k).flatMap (rangeSlice ps m)
      = ps.take (rStart (ps.length / m) (ps.length % m) k) := by
  induction k with
  | zero => simp [rStart]
  | succ k ih =>
    rw [List.range_succ, List.flatMap_append, ih, rStart_succ, List.take_add]
    simp [rangeSlice]

/-- all `m` slices, concatenated in consumer order, are exactly the partition list -/
theorem slices_tile (ps : List Nat) (m : Nat) (hm : 0 < m) :
    (List.range m).flatMap (rangeSlice ps m) = ps := by
  rw [slices_prefix, rStart_total _ _ hm, List.take_length]

theorem rangeSlice_length (ps : List Nat) (m i : Nat) (hm : 0 < m) (hi : i < m) :
    (rangeSlice ps m i).length = rLen (ps.length / m) (ps.length % m) i := by
  unfold rangeSlice
  rw [List.length_take, List.length_drop]
  have h1 := rStart_succ (ps.length / m) (ps.length % m) i
  have h2 := rStart_mono (ps.length / m) (ps.length % m) (i+1) m (by omega)
  have h3 := rStart_total ps.length m hm
  omega

theorem map_idxOf_self (l : List Nat) (h : l.Nodup) : l.map (fun c => l.idxOf c) = List.range l.length := by
  apply List.ext_getElem
  · simp
  · intro i h1 h2
    simp only [List.getElem_map, List.getElem_range]
    exact h.idxOf_getElem i (by simpa using h1)

theorem flatMap_idxOf (l : List Nat) (h : l.Nodup) (f : Nat → List Nat) :
    l.flatMap (fun c => f (l.idxOf c)) = (List.range l.length).flatMap f := by
  rw [← map_idxOf_self l h, List.flatMap_map]

theorem flatMap_congr' {α β} {l : List α} {f g : α → List β} (h : ∀ a ∈ l, f a = g a) :
    l.flatMap f = l.flatMap g := by
  induction l with
  | nil => rfl
  | cons x xs ih =>
    rw [List.flatMap_cons, List.flatMap_cons, h x List.mem_cons_self,
      ih (fun a ha => h a (List.mem_cons_of_mem _ ha))]

theorem consumersFor_nodup (inp : Input) (t : Topic) (h : (memberIds inp).Nodup) :
    (consumersFor inp t).Nodup := by
  unfold consumersFor
  rw [(isortK_perm _ _).nodup_iff]
  exact List.Sublist.nodup (List.Sublist.map _ List.filter_sublist) h

theorem mem_consumersFor (inp : Input) (t : Topic) (m : Member) :
    m ∈ consumersFor inp t ↔ subscribed inp m t = true := by
  unfold consumersFor subscribed
  rw [isort, mem_isortK]
  simp only [List.mem_map, List.mem_filter, List.any_eq_true, Bool.and_eq_true, beq_iff_eq]
  constructor
  · rintro ⟨ms, ⟨h1, h2⟩, rfl⟩; exact ⟨ms, h1, rfl, h2⟩
  · rintro ⟨ms, h1, h2, h3⟩; exact ⟨ms, ⟨h1, h3⟩, h2⟩

/-! round robin -/

theorem rrFind_spec (ms : List (Member × List Topic)) (t : Topic) (fuel pos j : Nat)
    (h : rrFind ms t fuel pos = some j) :
    ∃ m, ms[j]? = some m ∧ m.2.contains t = true := by
  induction fuel generalizing pos with
  | zero => simp [rrFind] at h
  | succ f ih =>
    unfold rrFind at h
    split at h
    · simp at h
    · rename_i m hm
      split at h
      · rename_i hc
        injection h with h; subst h; exact ⟨m, hm, hc⟩
      · exact ih _ h

/-- searching `fuel` consecutive cyclic positions starting at `pos` succeeds as soon as one of
    them is subscribed -/
theorem rrFind_some (ms : List (Member × List Topic)) (t : Topic) (fuel pos : Nat) (k : Nat)
    (hk : k < fuel) (hlen : 0 < ms.length)
    (hsub : ∃ m, ms[(pos + k) % ms.length]? = some m ∧ m.2.contains t = true) :
    ∃ j, rrFind ms t fuel pos = some j := by
  induction fuel generalizing pos k with
  | zero => omega
  | succ f ih =>
    unfold rrFind
    have hlt : pos % ms.length < ms.length := Nat.mod_lt _ hlen
    rw [List.getElem?_eq_getElem hlt]
    simp only
    split
    · exact ⟨_, rfl⟩
    · rename_i hc
      cases k with
      | zero =>
        obtain ⟨m, hm, hc'⟩ := hsub
        simp only [Nat.add_zero] at hm
        rw [List.getElem?_eq_getElem hlt] at hm
        injection hm with hm
        rw [hm] at hc; exact absurd hc' hc
      | succ k =>
        apply ih (pos + 1) k (by omega)
        have : pos + 1 + k = pos + (k + 1) := by omega
        rw [this]; exact hsub

end AkVerif.Assign
