import AkVerif.Lemmas.V2Read
import AkVerif.Lemmas.Legacy
import AkVerif.Lemmas.Split
import AkVerif.Lemmas.Crc
/-! glue lemmas for Props/C09: batches of the format are valid for the splitter; limit invariants -/
namespace AkVerif.C09Aux
open AkVerif.Wire AkVerif.Varint AkVerif.Crc AkVerif.V2 AkVerif.Legacy AkVerif.Split

/-- a batch of the v2 format definition is a valid batch for the splitter -/
theorem v2_valid (C : Codec) (c : Cfg) (recs : List Rec) (h : WFBatch C c recs) :
    ValidBatch (specBuild C c recs) := by
  have hlen := h.2.2.2.2.2.2
  constructor
  · rw [specBuild_length]
    unfold afterCrc
    simp only [List.length_append, be_length]
    omega
  · refine ⟨be 4 c.leaderEpoch ++ (be 1 2 ++ (be 4 (crc32c (afterCrc C c recs)) ++ afterCrc C c recs)), ?_⟩
    have hd : (specBuild C c recs).drop 8 = be 4 ((afterCrc C c recs).length + 9) ++ (be 4 c.leaderEpoch ++
        (be 1 2 ++ (be 4 (crc32c (afterCrc C c recs)) ++ afterCrc C c recs))) := by
      unfold specBuild
      exact List.drop_left' (be_length 8 _)
    rw [hd, decInt_be4 _ (by unfold lenOK at hlen; unfold int32; omega), specBuild_length]
    congr 2
    omega

theorem magic_v2 (C : Codec) (c : Cfg) (recs : List Rec) : magicByte (specBuild C c recs) = 2 := by
  unfold magicByte specBuild
  have hd : ∀ (a b c' rest : Bytes), a.length + b.length + c'.length = 16 →
      (a ++ (b ++ (c' ++ rest))).drop 16 = rest := by
    intro a b c' rest hl
    have : a ++ (b ++ (c' ++ rest)) = (a ++ b ++ c') ++ rest := by simp
    rw [this]
    exact List.drop_left' (by simp only [List.length_append]; omega)
  rw [hd _ _ _ _ (by simp [be_length])]
  have : be 1 2 = [2] := by decide
  rw [this]
  rfl

/-- a message of the v0/v1 format definition is a valid batch for the splitter -/
theorem legacy_valid (m a : Nat) (o ts : Int) (k v : Option Bytes) (h : WFMsg m a o ts k v) :
    ValidBatch (encMsg m a o ts k v) := by
  have hl := h.hlen
  have hb := msgBody_length m a ts k v
  have hlen : (encMsg m a o ts k v).length = (msgBody m a ts k v).length + 16 := by
    unfold encMsg; simp only [List.length_append, be_length]; omega
  constructor
  · rw [hlen, hb]; split <;> omega
  · refine ⟨be 4 (crc32 (msgBody m a ts k v)) ++ msgBody m a ts k v, ?_⟩
    have hd : (encMsg m a o ts k v).drop 8 = be 4 ((msgBody m a ts k v).length + 4) ++
        (be 4 (crc32 (msgBody m a ts k v)) ++ msgBody m a ts k v) := by
      unfold encMsg
      exact List.drop_left' (be_length 8 _)
    rw [hd, decInt_be4 _ (by unfold lenOK at hl; unfold int32; omega), hlen]
    congr 2
    omega

theorem magic_legacy (m a : Nat) (o ts : Int) (k v : Option Bytes) (hm : m = 0 ∨ m = 1) :
    magicByte (encMsg m a o ts k v) = m := by
  unfold magicByte encMsg msgBody
  have hd : ∀ (a b c' rest : Bytes), a.length + b.length + c'.length = 16 →
      (a ++ (b ++ (c' ++ rest))).drop 16 = rest := by
    intro a b c' rest hl
    have : a ++ (b ++ (c' ++ rest)) = (a ++ b ++ c') ++ rest := by simp
    rw [this]
    exact List.drop_left' (by simp only [List.length_append]; omega)
  rw [hd _ _ _ _ (by simp [be_length])]
  rcases hm with rfl | rfl
  · have : be 1 ((0 : Nat) : Int) = [0] := by decide
    rw [this]; rfl
  · have : be 1 ((1 : Nat) : Int) = [1] := by decide
    rw [this]; rfl

/-! ### the batch-size limit along a run -/

/-- Python: once a second record has been accepted the buffer never exceeds `batch_size` -/
theorem pyRun_limit (c : BCfg) (rs : List Rec)
    (hsmall : ∀ r ∈ rs, ∀ d : Int, int64 ((encRecordBody d r.offset r).length : Int)) :
    ∀ (s : PyB) (acc : List Rec), PyInv s acc →
    (2 ≤ acc.length → (pySize s : Int) ≤ c.batchSize) →
    (2 ≤ (acc ++ pyAccepted c s rs).length → (pySize (pyRun c s rs).2 : Int) ≤ c.batchSize) := by
  induction rs with
  | nil => intro s acc _ h; simpa [pyRun, pyAccepted] using h
  | cons r rs ih =>
    intro s acc hinv h
    have hsmall' : ∀ r ∈ rs, ∀ d : Int, int64 ((encRecordBody d r.offset r).length : Int) :=
      fun x hx => hsmall x (by simp [hx])
    have hr := hsmall r (by simp) (pyTsDelta s r)
    simp only [pyRun, pyAccepted]
    cases hp : pyAppend c s r with
    | mk m s1 =>
      cases m with
      | none =>
        have := pyAppend_none c s s1 r hp
        subst this
        simpa using ih hsmall' s1 acc hinv h
      | some m =>
        have h1 := pyAppend_some c s s1 acc r m hinv hp
        obtain ⟨hrej, _, hs1⟩ := pyAppend_some_eq c s s1 r m hp
        have hlim : 2 ≤ (acc ++ [r]).length → (pySize s1 : Int) ≤ c.batchSize := by
          intro h2
          have hne : acc ≠ [] := by
            intro he; subst he; simp at h2
          have hfirst : s.firstTs.isSome = true := by
            have := hinv.first
            cases acc with
            | nil => exact absurd rfl hne
            | cons a t => simp [this]
          unfold pyRejects at hrej
          have hle : ¬ (((pyRequired s r + pySize s : Nat) : Int) > c.batchSize) := fun hh => hrej ⟨hfirst, hh⟩
          have hsz : pySize s1 = pyRequired s r + pySize s := by
            rw [hs1]
            unfold pySize pyPut pyRequired
            simp only [List.length_append, pyMsg_eq, encodeVarintPy_eq, sizeOfVarintPy_eq _ hr]
            omega
          omega
        have := ih hsmall' s1 (acc ++ [r]) h1 hlim
        simpa using this

/-- Cython: every record accepted with a non-zero offset leaves the buffer strictly below `batch_size` -/
theorem cyRun_limit (c : BCfg) (rs : List Rec) (hoff : ∀ r ∈ rs, r.offset ≠ 0) :
    ∀ (s : CyB) (n : Nat), (2 ≤ n → (cySize s : Int) < c.batchSize) →
    (2 ≤ n + (cyAccepted c s rs).length → (cySize (cyRun c s rs).2 : Int) < c.batchSize) := by
  induction rs with
  | nil => intro s n h; simpa [cyRun, cyAccepted] using h
  | cons r rs ih =>
    intro s n h
    have hoff' : ∀ x ∈ rs, x.offset ≠ 0 := fun x hx => hoff x (by simp [hx])
    simp only [cyRun, cyAccepted]
    cases hp : cyAppend c s r with
    | mk m s1 =>
      cases m with
      | none =>
        have := cyAppend_none c s s1 r hp
        subst this
        simpa using ih hoff' s1 n h
      | some m =>
        obtain ⟨hrej, _, hs1⟩ := cyAppend_some_eq c s s1 r m hp
        have hlt : (cySize s1 : Int) < c.batchSize := by
          unfold cyRejects at hrej
          have hge : ¬ (((cySize s + cySizeInBytes s r : Nat) : Int) ≥ c.batchSize) :=
            fun hh => hrej ⟨hoff r (by simp), hh⟩
          rw [hs1, cyPut_size]
          omega
        have := ih hoff' s1 (n + 1) (fun _ => hlt)
        simp only [List.length_cons]
        intro h2
        exact this (by omega)

/-! ### concrete inputs for the non-vacuity examples of Props/C09 -/

/-- the identity codec, for the non-vacuity examples -/
def idCodec : Codec := { compress := fun _ x => x, decompress := fun _ x => some x }

theorem idCodec_lawful : idCodec.Lawful := fun _ _ => rfl

/-- a two-record batch (null key, a header with a null value, decreasing timestamp) is well-formed -/
def demoRecs : List Rec :=
  [{ offset := 5, ts := 1000, key := none, value := some [1, 2], headers := [] },
   { offset := 6, ts := 900, key := some [], value := none, headers := [([0x6b], none)] }]

def demoCfg : Cfg := { baseOffset := 5, codec := 3, logAppend := false, transactional := true, pid := 7,
                       epoch := 0, seq := 2147483647 }

/-- a producer script: offsets 0, 1, 2; the third record does not fit a 120-byte batch any more -/
def demoScript : List Rec :=
  [{ offset := 0, ts := 1000, key := none, value := some [1, 2], headers := [] },
   { offset := 1, ts := 900, key := some [], value := none, headers := [([0x6b], none)] },
   { offset := 2, ts := 1001, key := some [7], value := some (List.replicate 40 9), headers := [] }]

def demoB : BCfg := { codec := 0, transactional := true, pid := 7, epoch := 0, seq := 5, batchSize := 120 }

def demoIns : List In := [{ offset := 0, ts := 10, key := none, value := some [1] },
                          { offset := 1, ts := 11, key := some [2], value := none }]

/-- a minimal v1 message and a minimal "v2" batch as the splitter sees them (26 bytes each) -/
def miniV1 : Bytes := [0, 0, 0, 0, 0, 0, 0, 0, 0, 0, 0, 14, 9, 9, 9, 9, 1, 0, 0, 0, 0, 0, 0, 0, 0, 0]
def miniV2 : Bytes := [0, 0, 0, 0, 0, 0, 0, 1, 0, 0, 0, 14, 0, 0, 0, 0, 2, 0, 0, 0, 0, 0, 0, 0, 0, 0]

end AkVerif.C09Aux
