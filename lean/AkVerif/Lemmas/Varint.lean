import AkVerif.Model.Varint
import AkVerif.Lemmas.Wire
/-! lemmas about the varint models: every implementation variant equals the canonical codec -/
namespace AkVerif.Varint
open AkVerif.Wire

theorem low7 (v : Nat) : v &&& 0x7F = v % 128 := Nat.and_two_pow_sub_one_eq_mod v 7

theorem shr (v k : Nat) : v >>> k = v / 2 ^ k := Nat.shiftRight_eq_div_pow v k

theorem or80_fin : ∀ y : Fin 128, (0x80 ||| y.val = y.val + 128) ∧ (y.val ||| 0x80 = y.val + 128) := by
  decide +kernel

theorem or80 (y : Nat) (h : y < 128) : 0x80 ||| y = y + 128 := (or80_fin ⟨y, h⟩).1
theorem or80' (y : Nat) (h : y < 128) : y ||| 0x80 = y + 128 := (or80_fin ⟨y, h⟩).2

theorem encUV_small (v : Nat) (h : v < 128) : encUV v = [v] := by
  rw [encUV]; simp [h]

theorem encUV_big (v : Nat) (h : ¬ v < 128) : encUV v = (v % 128 + 128) :: encUV (v / 128) := by
  rw [encUV]; simp [h]

theorem encPyLoop_eq (v : Nat) : encPyLoop (v % 128) (v / 128) = encUV v := by
  induction v using Nat.strongRecOn with
  | _ v ih =>
    rw [encPyLoop]
    split
    · rename_i h
      have : v < 128 := by omega
      rw [encUV_small v this, Nat.mod_eq_of_lt this]
    · rename_i h
      have hb : ¬ v < 128 := by omega
      rw [encUV_big v hb, or80 _ (Nat.mod_lt _ (by decide)), low7, shr]
      have := ih (v / 128) (by omega)
      simp only [Nat.reducePow] at this ⊢
      rw [this]

theorem encPy_eq (v : Nat) : encPy v = encUV v := by
  unfold encPy
  simp only [low7, shr, Nat.reducePow]
  have hm : ∀ x : Nat, 0x80 ||| x % 128 = x % 128 + 128 := fun x => or80 _ (Nat.mod_lt _ (by decide))
  simp only [hm]
  split
  · rw [encUV_small v (by omega)]
  split
  · rw [encUV_big v (by omega), encUV_small (v / 128) (by omega)]
  split
  · rw [encUV_big v (by omega), encUV_big (v / 128) (by omega), encUV_small (v / 128 / 128) (by omega)]
    simp only [Nat.div_div_eq_div_mul, Nat.reduceMul]
  split
  · rw [encUV_big v (by omega), encUV_big (v / 128) (by omega), encUV_big (v / 128 / 128) (by omega),
      encUV_small (v / 128 / 128 / 128) (by omega)]
    simp only [Nat.div_div_eq_div_mul, Nat.reduceMul]
  split
  · rw [encUV_big v (by omega), encUV_big (v / 128) (by omega), encUV_big (v / 128 / 128) (by omega),
      encUV_big (v / 128 / 128 / 128) (by omega), encUV_small (v / 128 / 128 / 128 / 128) (by omega)]
    simp only [Nat.div_div_eq_div_mul, Nat.reduceMul]
  · exact encPyLoop_eq v

theorem encCy_eq (v : Nat) : encCy v = encUV v := by
  induction v using Nat.strongRecOn with
  | _ v ih =>
    rw [encCy]
    split
    · rename_i h
      rw [encUV_big v (by omega), low7, or80' _ (Nat.mod_lt _ (by decide)), shr]
      have := ih (v / 128) (by omega)
      simp only [Nat.reducePow] at this ⊢
      rw [this]
    · rename_i h
      rw [encUV_small v (by omega), low7, Nat.mod_eq_of_lt (by omega)]

/-! ### lengths -/

theorem encUV_length (k : Nat) : ∀ v : Nat, v < 128 ^ (k + 1) → (k = 0 ∨ 128 ^ k ≤ v) →
    (encUV v).length = k + 1 := by
  induction k with
  | zero =>
    intro v h _
    rw [encUV_small v (by simpa using h)]; rfl
  | succ k ih =>
    intro v h hl
    have hge : 128 ^ (k + 1) ≤ v := by
      rcases hl with hl | hl
      · omega
      · exact hl
    have h128 : 128 ≤ v := by
      have : 128 ^ 1 ≤ 128 ^ (k + 1) := Nat.pow_le_pow_right (by decide) (by omega)
      omega
    rw [encUV_big v (by omega), List.length_cons]
    have h1 : v / 128 < 128 ^ (k + 1) := by
      rw [Nat.pow_succ] at h
      exact Nat.div_lt_of_lt_mul (by rw [Nat.mul_comm]; exact h)
    have h2 : 128 ^ k ≤ v / 128 := by
      rw [Nat.pow_succ] at hge
      exact (Nat.le_div_iff_mul_le (by decide)).mpr hge
    rw [ih (v / 128) h1 (Or.inr h2)]

theorem sizeCy_eq (v : Nat) : sizeCy v = (encUV v).length := by
  induction v using Nat.strongRecOn with
  | _ v ih =>
    rw [sizeCy]
    split
    · rename_i h
      rw [encUV_big v (by omega), shr, List.length_cons]
      have := ih (v / 128) (by omega)
      simp only [Nat.reducePow] at this ⊢
      rw [this]
    · rename_i h
      rw [encUV_small v (by omega)]; rfl

theorem sizeLadder_eq (v : Nat) (hv : v < 2 ^ 64) :
    (if v ≤ 0x7F then 1
      else if v ≤ 0x3FFF then 2
      else if v ≤ 0x1FFFFF then 3
      else if v ≤ 0xFFFFFFF then 4
      else if v ≤ 0x7FFFFFFFF then 5
      else if v ≤ 0x3FFFFFFFFFF then 6
      else if v ≤ 0x1FFFFFFFFFFFF then 7
      else if v ≤ 0xFFFFFFFFFFFFFF then 8
      else if v ≤ 0x7FFFFFFFFFFFFFFF then 9
      else 10) = (encUV v).length := by
  split
  · rw [encUV_length 0 v (by simp; omega) (Or.inl rfl)]
  split
  · rw [encUV_length 1 v (by simp; omega) (Or.inr (by simp; omega))]
  split
  · rw [encUV_length 2 v (by simp; omega) (Or.inr (by simp; omega))]
  split
  · rw [encUV_length 3 v (by simp; omega) (Or.inr (by simp; omega))]
  split
  · rw [encUV_length 4 v (by simp; omega) (Or.inr (by simp; omega))]
  split
  · rw [encUV_length 5 v (by simp; omega) (Or.inr (by simp; omega))]
  split
  · rw [encUV_length 6 v (by simp; omega) (Or.inr (by simp; omega))]
  split
  · rw [encUV_length 7 v (by simp; omega) (Or.inr (by simp; omega))]
  split
  · rw [encUV_length 8 v (by simp; omega) (Or.inr (by simp; omega))]
  · rw [encUV_length 9 v (by simp; omega) (Or.inr (by simp; omega))]

theorem zig_lt64 (i : Int) (h : int64 i) : zig i < 2 ^ 64 := zig_lt 63 i h

/-- the encoding of an `int64` takes 1 to 10 bytes -/
theorem encVarint_length_le (i : Int) (h : int64 i) : (encVarint i).length ≤ 10 := by
  unfold encVarint
  rw [← sizeLadder_eq _ (zig_lt64 i h)]
  repeat' split
  all_goals omega

theorem encVarint_length_pos (i : Int) : 0 < (encVarint i).length := by
  unfold encVarint
  rw [encUV]; split <;> simp

/-! ### decoders -/

theorem encUV_bytes_lt (v : Nat) : ∀ b ∈ encUV v, b < 256 := by
  induction v using Nat.strongRecOn with
  | _ v ih =>
    intro b hb
    rw [encUV] at hb
    split at hb
    · simp at hb; omega
    · rcases List.mem_cons.mp hb with h | h
      · omega
      · exact ih (v / 128) (by omega) b h

/-- on a canonical encoding the Python loop computes what the canonical decoder computes -/
theorem decPyLoop_encUV (v : Nat) : ∀ (i acc : Nat) (rest : Bytes),
    decPyLoop i acc (encUV v ++ rest) =
      (match decUVAux 63 i acc (encUV v ++ rest) with
       | none => none
       | some (x, r) => some (unzig x, r)) := by
  induction v using Nat.strongRecOn with
  | _ v ih =>
    intro i acc rest
    rw [encUV]
    split
    · rename_i hlt
      have hb := byte_facts ⟨v, by omega⟩
      simp only at hb
      have h0 : v &&& 0x80 = 0 := hb.1.mpr hlt
      have hl : v &&& 0x7F = v := by rw [hb.2]; omega
      simp [decPyLoop, decUVAux, h0, hl]
    · rename_i hge
      have hb := byte_facts ⟨v % 128 + 128, by omega⟩
      simp only at hb
      have hne : ¬ ((v % 128 + 128) &&& 0x80 = 0) := by rw [hb.1]; omega
      simp only [List.cons_append, decPyLoop, decUVAux, hne, if_false]
      by_cases hs : i + 7 > 63
      · have : i + 7 ≥ 64 := by omega
        simp [hs, this]
      · have : ¬ (i + 7 ≥ 64) := by omega
        simp only [hs, this, if_false]
        exact ih (v / 128) (by omega) _ _ _

theorem decodeVarintPy_encUV (v : Nat) (rest : Bytes) :
    decodeVarintPy (encUV v ++ rest) =
      (match decUV64 (encUV v ++ rest) with
       | none => none
       | some (x, r) => some (unzig x, r)) := by
  unfold decUV64
  rw [encUV]
  split
  · rename_i hlt
    have hb := byte_facts ⟨v, by omega⟩
    simp only at hb
    have h0 : v &&& 0x80 = 0 := hb.1.mpr hlt
    simp only [List.cons_append, List.nil_append, decodeVarintPy, decUVAux, h0, if_true]
    by_cases he : v &&& 0x81 = 0
    · have hev : v % 2 = 0 := by
        have h81 : ∀ y : Fin 128, (y.val &&& 0x81 = 0) ↔ y.val % 2 = 0 := by decide +kernel
        exact (h81 ⟨v, hlt⟩).mp he
      simp only [he, if_true, Nat.zero_or, Nat.shiftLeft_zero, shr]
      unfold unzig
      simp [hev]
    · have hod : v % 2 = 1 := by
        have h81 : ∀ y : Fin 128, (y.val &&& 0x81 = 0) ↔ y.val % 2 = 0 := by decide +kernel
        have : ¬ (v % 2 = 0) := fun h => he ((h81 ⟨v, hlt⟩).mpr h)
        omega
      simp only [he, if_false, Nat.zero_or, Nat.shiftLeft_zero, shr]
      unfold unzig
      have : ¬ (v % 2 = 0) := by omega
      simp only [this, if_false]
      have e : (-((v / 2 ^ 1 : Nat) : Int) - 1) = -(((v + 1) / 2 : Nat) : Int) := by
        simp only [Nat.pow_one]; omega
      rw [e]
  · rename_i hge
    have hb := byte_facts ⟨v % 128 + 128, by omega⟩
    simp only at hb
    have hne : ¬ ((v % 128 + 128) &&& 0x80 = 0) := by rw [hb.1]; omega
    have h81 : ¬ ((v % 128 + 128) &&& 0x81 = 0) := by
      have h : ∀ y : Fin 256, (y.val &&& 0x81 = 0) → (y.val &&& 0x80 = 0) := by decide +kernel
      exact fun h' => hne (h ⟨v % 128 + 128, by omega⟩ h')
    simp only [List.cons_append, decodeVarintPy, decUVAux, hne, h81, if_false, Nat.zero_or,
      Nat.shiftLeft_zero]
    have : ¬ (0 + 7 > 63) := by omega
    simp only [this, if_false]
    exact decPyLoop_encUV (v / 128) _ _ _

theorem decCyLoop_encUV (v : Nat) : ∀ (i acc : Nat) (rest : Bytes),
    acc < 2 ^ i → i ≤ 63 → (63 - i) % 7 = 0 → v < 2 ^ (64 - i) →
    decCyLoop i acc (encUV v ++ rest) = some (acc + v * 2 ^ i, rest) := by
  induction v using Nat.strongRecOn with
  | _ v ih =>
    intro i acc rest hacc hi hal hv
    have hpw : (2 : Nat) ^ 64 = 2 ^ i * 2 ^ (64 - i) := by
      rw [← Nat.pow_add]; congr 1; omega
    rw [encUV]
    split
    · rename_i hlt
      have hb := byte_facts ⟨v, by omega⟩
      simp only at hb
      have h0 : v &&& 0x80 = 0 := hb.1.mpr hlt
      simp only [List.cons_append, List.nil_append, decCyLoop, h0, ne_eq, not_true_eq_false,
        if_false]
      rw [or_shift_eq_add _ _ _ hacc]
      have hlt64 : acc + v * 2 ^ i < 2 ^ 64 := by
        rw [hpw]
        have : v * 2 ^ i + 2 ^ i ≤ 2 ^ (64 - i) * 2 ^ i := by
          rw [← Nat.succ_mul]; exact Nat.mul_le_mul_right _ hv
        rw [Nat.mul_comm (2 ^ i)]; omega
      rw [Nat.mod_eq_of_lt hlt64]
    · rename_i hge
      have hb := byte_facts ⟨v % 128 + 128, by omega⟩
      simp only at hb
      have hne : (v % 128 + 128) &&& 0x80 ≠ 0 := by rw [Ne, hb.1]; omega
      have hlow : (v % 128 + 128) &&& 0x7F = v % 128 := by rw [hb.2]; omega
      simp only [List.cons_append, decCyLoop, hne, ne_eq, not_false_eq_true, if_true, hlow]
      rw [or_shift_eq_add _ _ _ hacc]
      have him : i + 7 ≤ 63 := by
        rcases Nat.lt_or_ge 56 i with h | h
        · exfalso
          have h63 : i = 63 := by omega
          subst h63
          simp at hv; omega
        · omega
      have hstep : ¬ (i + 7 > 63) := by omega
      simp only [hstep, if_false]
      have hacc' : acc + v % 128 * 2 ^ i < 2 ^ (i + 7) := by
        rw [Nat.pow_add]
        have : v % 128 * 2 ^ i ≤ 127 * 2 ^ i := Nat.mul_le_mul_right _ (by omega)
        omega
      have hlt64 : acc + v % 128 * 2 ^ i < 2 ^ 64 :=
        Nat.lt_of_lt_of_le hacc' (Nat.pow_le_pow_right (by decide) (by omega))
      rw [Nat.mod_eq_of_lt hlt64]
      have hv' : v / 128 < 2 ^ (64 - (i + 7)) := by
        have : 2 ^ (64 - i) = 2 ^ (64 - (i + 7)) * 128 := by
          rw [show (128 : Nat) = 2 ^ 7 by rfl, ← Nat.pow_add]; congr 1; omega
        rw [this] at hv
        exact Nat.div_lt_of_lt_mul (by rw [Nat.mul_comm]; exact hv)
      rw [ih (v / 128) (by omega) (i + 7) _ rest hacc' him (by omega) hv']
      congr 2
      rw [Nat.pow_add]
      have : v = 128 * (v / 128) + v % 128 := (Nat.div_add_mod v 128).symm
      generalize 2 ^ i = P at *
      calc acc + v % 128 * P + v / 128 * (P * 2 ^ 7)
          = acc + (128 * (v / 128) + v % 128) * P := by
            rw [Nat.add_mul]; simp only [Nat.reducePow]
            rw [Nat.mul_comm P 128, ← Nat.mul_assoc, Nat.mul_comm (v / 128) 128]; omega
        _ = acc + v * P := by rw [← this]

/-! ### round trips through every encoder / decoder pair -/

theorem decVarint_encVarint (i : Int) (h : int64 i) (rest : Bytes) :
    decVarint (encVarint i ++ rest) = some (i, rest) := by
  unfold decVarint encVarint
  rw [decUV64_encUV _ (zig_lt64 i h)]
  simp [unzig_zig]

theorem decodeVarintPy_encVarint (i : Int) (h : int64 i) (rest : Bytes) :
    decodeVarintPy (encVarint i ++ rest) = some (i, rest) := by
  unfold encVarint
  rw [decodeVarintPy_encUV, decUV64_encUV _ (zig_lt64 i h)]
  simp [unzig_zig]

theorem decodeVarintCy_encVarint (i : Int) (h : int64 i) (rest : Bytes) :
    decodeVarintCy (encVarint i ++ rest) = some (i, rest) := by
  unfold encVarint decodeVarintCy
  rw [decCyLoop_encUV (zig i) 0 0 rest (by simp) (by omega) (by omega) (by simpa using zig_lt64 i h)]
  simp [unzig_zig]

theorem encodeVarintPy_eq (i : Int) : encodeVarintPy i = encVarint i := encPy_eq _
theorem encodeVarintCy_eq (i : Int) : encodeVarintCy i = encVarint i := encCy_eq _

theorem sizeOfVarintPy_eq (i : Int) (h : int64 i) : sizeOfVarintPy i = (encVarint i).length := by
  unfold sizeOfVarintPy encVarint
  exact sizeLadder_eq _ (zig_lt64 i h)

theorem sizeOfVarintCy_eq (i : Int) : sizeOfVarintCy i = (encVarint i).length := sizeCy_eq _

end AkVerif.Varint
