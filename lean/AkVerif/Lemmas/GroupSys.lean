import AkVerif.Model.GroupSys
/-! ranking argument for the closed group system (C06 convergence) -/
namespace AkVerif.GroupSys

theorem step_total {s s' : Sys} {a : Action} (hw : WF s) (h : step s a = some s') :
    total s' = total s := by
  cases a <;> simp only [step] at h
  all_goals (repeat' split at h)
  all_goals (try cases h)
  all_goals (unfold WF at hw; cases hp : s.phase <;> simp_all [total])
  all_goals omega

theorem step_wf {s s' : Sys} {a : Action} (hw : WF s) (h : step s a = some s') : WF s' := by
  cases a <;> simp only [step] at h
  all_goals (repeat' split at h)
  all_goals (try cases h)
  all_goals (unfold WF at hw ⊢; cases hp : s.phase <;> simp_all)
  all_goals omega

theorem step_rank {s s' : Sys} {a : Action} {k : Nat} (hk : 4 * total s + 2 < k) (hw : WF s)
    (h : step s a = some s') : rank k s' < rank k s := by
  cases a <;> simp only [step] at h
  case joinOut =>
    split at h
    · cases h
    · rename_i ho
      obtain ⟨o, ho'⟩ : ∃ o, s.out = o + 1 := ⟨s.out - 1, by omega⟩
      have e1 : (o + 1) * k = o * k + k := Nat.succ_mul o k
      unfold total at hk
      split at h
      · cases h
        simp only [rank, ho', Nat.add_sub_cancel, e1]
        omega
      · cases h
        simp only [rank, ho', Nat.add_sub_cancel, e1]
        omega
  all_goals (repeat' split at h)
  all_goals (try cases h)
  all_goals (unfold WF at hw; cases hp : s.phase <;> simp_all [rank])
  all_goals omega

/-- as long as the group has not converged some request can be made -/
theorem progress {s : Sys} (hw : WF s) (hn : ¬ converged s) : ∃ a, (step s a).isSome = true := by
  unfold WF at hw
  cases hp : s.phase with
  | preparing =>
    simp only [hp] at hw
    by_cases h1 : s.out = 0
    · by_cases h2 : s.stale = 0
      · by_cases h3 : s.staleJoined = 0
        · by_cases h4 : s.needJoin = 0
          · exact ⟨.complete, by simp only [step, hp, h2, h3, h4, true_and]; rw [if_pos (by omega)]; rfl⟩
          · exact ⟨.join, by simp [step, hp, h4]⟩
        · exact ⟨.syncStale, by simp [step, h3]⟩
      · exact ⟨.heartbeat, by simp [step, h2]⟩
    · exact ⟨.joinOut, by simp [step, hp, h1]⟩
  | completing =>
    simp only [hp] at hw
    exact ⟨.syncLeader, by simp [step, hp, hw.2.2.2.2.2]⟩
  | stable =>
    simp only [hp] at hw
    by_cases h1 : s.out = 0
    · by_cases h2 : s.joinedF = 0
      · exfalso; apply hn
        refine ⟨hp, ?_⟩
        simp only [total]; omega
      · exact ⟨.syncFollower, by simp [step, hp, h2]⟩
    · exact ⟨.joinOut, by simp [step, hp, h1]⟩

/-- a converged group makes no further request of the rebalance protocol -/
theorem converged_quiescent {s : Sys} (hw : WF s) (hc : converged s) (a : Action) : step s a = none := by
  obtain ⟨hp, ht⟩ := hc
  unfold WF at hw
  simp only [hp] at hw
  simp only [total] at ht
  cases a <;> simp only [step, hp] <;> simp <;> omega

theorem exec_wf : ∀ (as : List Action) (s s' : Sys), WF s → exec s as = some s' → WF s'
  | [], s, s', hw, h => by simp only [exec, Option.some.injEq] at h; subst h; exact hw
  | a :: as, s, s', hw, h => by
    simp only [exec] at h
    cases hs : step s a with
    | none => simp [hs] at h
    | some s1 =>
      simp only [hs, Option.bind_some] at h
      exact exec_wf as s1 s' (step_wf hw hs) h

/-- every schedule is shorter than the rank of its start -/
theorem exec_rank (k : Nat) : ∀ (as : List Action) (s s' : Sys), WF s → 4 * total s + 2 < k →
    exec s as = some s' → rank k s' + as.length ≤ rank k s
  | [], s, s', _, _, h => by simp only [exec, Option.some.injEq] at h; subst h; simp
  | a :: as, s, s', hw, hk, h => by
    simp only [exec] at h
    cases hs : step s a with
    | none => simp [hs] at h
    | some s1 =>
      simp only [hs, Option.bind_some] at h
      have h1 := step_rank hk hw hs
      have ht := step_total hw hs
      have ih := exec_rank k as s1 s' (step_wf hw hs) (by rw [ht]; exact hk) h
      simp only [List.length_cons]
      omega

end AkVerif.GroupSys
