import AkVerif.Lemmas.StickyKeep
/-!
The state `assign` hands to `balance`, for user data whose claims are disjoint: every member's
list is its previous assignment (as a set, without duplicates), and with identical subscriptions
the hypotheses of `balance_keeps_identical` hold.
-/
namespace AkVerif.StickyAlg
open AkVerif.Assign

/-- the claims table of `_init_current_assignments` -/
def claimsOf (members : List MemberIn) : List (TP × Member) :=
  members.foldl (fun acc m => m.prev.foldl
    (fun acc p => if alHas acc p then acc else acc ++ [(p, m.id)]) acc) []

theorem claimsInner_spec (ps : List TP) (c : Member) : ∀ acc : List (TP × Member),
    (∀ pc ∈ acc, pc ∈ ps.foldl (fun acc p => if alHas acc p then acc else acc ++ [(p, c)]) acc) ∧
    (∀ p ∈ ps, p ∈ keysOf (ps.foldl (fun acc p => if alHas acc p then acc else acc ++ [(p, c)]) acc)) ∧
    (∀ pc ∈ ps.foldl (fun acc p => if alHas acc p then acc else acc ++ [(p, c)]) acc,
      pc ∈ acc ∨ (pc.2 = c ∧ pc.1 ∈ ps)) := by
  induction ps with
  | nil => intro acc; exact ⟨fun pc h => h, fun p h => (by cases h), fun pc h => Or.inl h⟩
  | cons p rest ih =>
    intro acc
    simp only [List.foldl_cons]
    obtain ⟨i1, i2, i3⟩ := ih (if alHas acc p then acc else acc ++ [(p, c)])
    have hsub : ∀ pc ∈ acc, pc ∈ (if alHas acc p then acc else acc ++ [(p, c)]) := by
      intro pc h; split
      · exact h
      · exact List.mem_append_left _ h
    have hp : p ∈ keysOf (if alHas acc p then acc else acc ++ [(p, c)]) := by
      split
      · rename_i h; exact (alHas_iff_mem_keys _ _).mp h
      · rw [keysOf_append]; exact List.mem_append_right _ (by simp [keysOf])
    refine ⟨fun pc h => i1 pc (hsub pc h), ?_, ?_⟩
    · intro q hq
      rcases List.mem_cons.mp hq with rfl | hq
      · obtain ⟨x, hx, he⟩ := List.mem_map.mp hp
        exact List.mem_map.mpr ⟨x, i1 x hx, he⟩
      · exact i2 q hq
    · intro pc h
      rcases i3 pc h with h | ⟨h1, h2⟩
      · split at h
        · exact Or.inl h
        · rcases List.mem_append.mp h with h | h
          · exact Or.inl h
          · simp at h; subst h; exact Or.inr ⟨rfl, List.mem_cons_self⟩
      · exact Or.inr ⟨h1, List.mem_cons_of_mem _ h2⟩

theorem claimsOuter_spec (ms : List MemberIn) : ∀ acc : List (TP × Member),
    (∀ pc ∈ acc, pc ∈ ms.foldl (fun acc m => m.prev.foldl
      (fun acc p => if alHas acc p then acc else acc ++ [(p, m.id)]) acc) acc) ∧
    (∀ m ∈ ms, ∀ p ∈ m.prev, p ∈ keysOf (ms.foldl (fun acc m => m.prev.foldl
      (fun acc p => if alHas acc p then acc else acc ++ [(p, m.id)]) acc) acc)) ∧
    (∀ pc ∈ ms.foldl (fun acc m => m.prev.foldl
      (fun acc p => if alHas acc p then acc else acc ++ [(p, m.id)]) acc) acc,
      pc ∈ acc ∨ ∃ m ∈ ms, pc.2 = m.id ∧ pc.1 ∈ m.prev) := by
  induction ms with
  | nil => intro acc; exact ⟨fun pc h => h, fun m h => (by cases h), fun pc h => Or.inl h⟩
  | cons m rest ih =>
    intro acc
    simp only [List.foldl_cons]
    obtain ⟨j1, j2, j3⟩ := claimsInner_spec m.prev m.id acc
    obtain ⟨i1, i2, i3⟩ := ih (m.prev.foldl (fun acc p => if alHas acc p then acc else acc ++ [(p, m.id)]) acc)
    refine ⟨fun pc h => i1 pc (j1 pc h), ?_, ?_⟩
    · intro m' hm' p hp
      rcases List.mem_cons.mp hm' with rfl | hm'
      · obtain ⟨x, hx, he⟩ := List.mem_map.mp (j2 p hp)
        exact List.mem_map.mpr ⟨x, i1 x hx, he⟩
      · exact i2 m' hm' p hp
    · intro pc h
      rcases i3 pc h with h | ⟨m', hm', h1, h2⟩
      · rcases j3 pc h with h | ⟨h1, h2⟩
        · exact Or.inl h
        · exact Or.inr ⟨m, List.mem_cons_self, h1, h2⟩
      · exact Or.inr ⟨m', List.mem_cons_of_mem _ hm', h1, h2⟩

/-- distinct member ids -/
theorem member_of_id (members : List MemberIn) (hid : (members.map (·.id)).Nodup)
    (a b : MemberIn) (ha : a ∈ members) (hb : b ∈ members) (h : a.id = b.id) : a = b := by
  induction members with
  | nil => cases ha
  | cons m r ih =>
    simp only [List.map_cons, List.nodup_cons] at hid
    rcases List.mem_cons.mp ha with ea | ha' <;> rcases List.mem_cons.mp hb with eb | hb'
    · rw [ea, eb]
    · exact absurd (List.mem_map.mpr ⟨b, hb', by rw [← h, ea]⟩) hid.1
    · exact absurd (List.mem_map.mpr ⟨a, ha', by rw [h, eb]⟩) hid.1
    · exact ih hid.2 ha' hb'

/-- claims are disjoint: no partition is in the user data of two members -/
def DisjointPrev (members : List MemberIn) : Prop :=
  ∀ a ∈ members, ∀ b ∈ members, ∀ p, p ∈ a.prev → p ∈ b.prev → a.id = b.id

theorem claims_of_prev (members : List MemberIn) (hdis : DisjointPrev members)
    (m : MemberIn) (hm : m ∈ members) (p : TP) (hp : p ∈ m.prev) : (p, m.id) ∈ claimsOf members := by
  obtain ⟨_, h2, h3⟩ := claimsOuter_spec members []
  obtain ⟨x, hx, he⟩ := List.mem_map.mp (h2 m hm p hp)
  rcases h3 x hx with h | ⟨m', hm', h1, h2'⟩
  · cases h
  · have hx1 : x.1 = p := he
    have : m'.id = m.id := hdis m' hm' m hm p (hx1 ▸ h2') hp
    have hxeq : x = (p, m.id) := by
      obtain ⟨x1, x2⟩ := x
      simp only at hx1 h1
      rw [hx1, h1, this]
    rw [← hxeq]; exact hx

theorem prev_of_claims (members : List MemberIn) (pc : TP × Member) (h : pc ∈ claimsOf members) :
    ∃ m ∈ members, pc.2 = m.id ∧ pc.1 ∈ m.prev := by
  obtain ⟨_, _, h3⟩ := claimsOuter_spec members []
  rcases h3 pc h with h | h
  · cases h
  · exact h

theorem initCurrent_grouped_claims (members : List MemberIn) :
    Grouped (initCurrent members) (claimsOf members) := by
  have hn : (keysOf (([] : List (TP × Member)) ++ claimsOf members)).Nodup := by
    rw [List.nil_append]; exact claims_nodup members
  have := group_fold (claimsOf members) [] []
    (Grouped.mk (by simp [keysOf]) (fun cp h => by cases h) (fun pc h => by cases h)) hn
  rw [List.nil_append] at this
  exact this

/-- every entry of the grouped claims is non-empty -/
theorem group_fold_nonempty (claims : List (TP × Member)) : ∀ (cur : List (Member × List TP)),
    (∀ cp ∈ cur, cp.2 ≠ []) →
    ∀ cp ∈ claims.foldl (fun cur pc => alSet cur pc.2 (alGetD cur pc.2 [] ++ [pc.1])) cur, cp.2 ≠ [] := by
  induction claims with
  | nil => intro cur h; exact h
  | cons pc rest ih =>
    intro cur h
    simp only [List.foldl_cons]
    apply ih
    intro cp hcp
    rcases mem_alSet _ _ _ _ hcp with heq | ⟨hin, _⟩
    · subst heq; simp
    · exact h cp hin

theorem initCurrent_nonempty (members : List MemberIn) : ∀ cp ∈ initCurrent members, cp.2 ≠ [] := by
  unfold initCurrent
  exact group_fold_nonempty _ [] (fun cp h => by cases h)

theorem addEmpties_keys (ms : List MemberIn) : ∀ (cur : List (Member × List TP)),
    ∀ cp ∈ ms.foldl (fun cur m => if alHas cur m.id then cur else cur ++ [(m.id, [])]) cur,
      cp ∈ cur ∨ (cp.2 = [] ∧ ∃ m ∈ ms, m.id = cp.1) := by
  induction ms with
  | nil => intro cur cp h; exact Or.inl h
  | cons m rest ih =>
    intro cur cp h
    simp only [List.foldl_cons] at h
    rcases ih _ cp h with h | ⟨h1, m', hm', h2⟩
    · split at h
      · exact Or.inl h
      · rcases List.mem_append.mp h with h | h
        · exact Or.inl h
        · simp at h; subst h; exact Or.inr ⟨rfl, m, List.mem_cons_self, rfl⟩
    · exact Or.inr ⟨h1, m', List.mem_cons_of_mem _ hm', h2⟩

/-! ### the initial state under well-formed user data -/

/-- what the stickiness theorems assume about the user data: distinct member ids; no partition
    claimed twice (neither by two members nor twice by one); every claimed partition still exists
    and its topic is still subscribed by the claimant -/
structure GoodPrev (parts : List (Topic × List Nat)) (members : List MemberIn) : Prop where
  ids : (members.map (·.id)).Nodup
  dis : DisjointPrev members
  nd : ∀ m ∈ members, m.prev.Nodup
  valid : ∀ m ∈ members, ∀ p ∈ m.prev, p ∈ potentialOf parts m

theorem initState_cur (parts : List (Topic × List Nat)) (members : List MemberIn) (oracle : List TP) :
    (initState parts members oracle).cur
      = members.foldl (fun cur m => if alHas cur m.id then cur else cur ++ [(m.id, [])]) (initCurrent members) := rfl

theorem cur0_entry (parts : List (Topic × List Nat)) (members : List MemberIn) (oracle : List TP) :
    ∀ cp ∈ (initState parts members oracle).cur,
      cp.2.Nodup ∧ (∀ p ∈ cp.2, (p, cp.1) ∈ claimsOf members) ∧ ∃ m ∈ members, m.id = cp.1 := by
  intro cp hcp
  rw [initState_cur] at hcp
  have hg := initCurrent_grouped_claims members
  rcases addEmpties_keys members _ cp hcp with h | ⟨h1, h2⟩
  · obtain ⟨hn, hc⟩ := hg.g2 cp h
    refine ⟨hn, hc, ?_⟩
    have hne := initCurrent_nonempty members cp h
    cases hps : cp.2 with
    | nil => exact absurd hps hne
    | cons p r =>
      have : (p, cp.1) ∈ claimsOf members := hc p (by rw [hps]; exact List.mem_cons_self)
      obtain ⟨m, hm, h1, _⟩ := prev_of_claims members _ this
      exact ⟨m, hm, h1.symm⟩
  · rw [h1]; exact ⟨List.nodup_nil, fun p hp => (by cases hp), h2⟩

theorem cur0_keys_nodup (parts : List (Topic × List Nat)) (members : List MemberIn) (oracle : List TP) :
    (keysOf (initState parts members oracle).cur).Nodup := by
  rw [initState_cur]
  exact (addEmpties_spec members (initCurrent members) (initCurrent_grouped_claims members).g1).1

/-- under well-formed user data a member's initial list is its previous assignment, as a set
    without duplicates -/
theorem curOf0_spec (parts : List (Topic × List Nat)) (members : List MemberIn) (oracle : List TP)
    (G : GoodPrev parts members) (m : MemberIn) (hm : m ∈ members) :
    (curOf (initState parts members oracle) m.id).Nodup ∧
    ∀ p, p ∈ curOf (initState parts members oracle) m.id ↔ p ∈ m.prev := by
  have hkey : m.id ∈ keysOf (initState parts members oracle).cur := (initState_ownCore parts members oracle).2 m hm
  have hent := curOf_entry _ _ hkey
  obtain ⟨hn, hc, _⟩ := cur0_entry parts members oracle _ hent
  refine ⟨hn, fun p => ⟨fun hp => ?_, fun hp => ?_⟩⟩
  · obtain ⟨m', hm', h1, h2⟩ := prev_of_claims members _ (hc p hp)
    have : m' = m := member_of_id members G.ids m' m hm' hm h1.symm
    rw [← this]; exact h2
  · have hcl := claims_of_prev members G.dis m hm p hp
    obtain ⟨ps, hps, hpp⟩ := (initCurrent_grouped_claims members).g3 _ hcl
    have hin : (m.id, ps) ∈ (initState parts members oracle).cur := by
      rw [initState_cur]
      exact (addEmpties_spec members (initCurrent members) (initCurrent_grouped_claims members).g1).2.2.1 _ hps
    have := alGet_of_mem_nodup _ _ _ (cur0_keys_nodup parts members oracle) hin
    unfold curOf; rw [alGetD_def, this]; exact hpp

theorem alGet_map_snd {α β : Type} [BEq α] [LawfulBEq α] (l : List (α × β)) (f : α → β → β) (k : α) :
    alGet (l.map (fun cp => (cp.1, f cp.1 cp.2))) k = (alGet l k).map (f k) := by
  induction l with
  | nil => rfl
  | cons x r ih =>
    obtain ⟨x1, x2⟩ := x
    rw [List.map_cons, alGet_cons, alGet_cons]
    by_cases h : (x1 == k) = true
    · have : x1 = k := by simpa using h
      subst this
      simp
    · have h' : (x1 == k) = false := by simpa using h
      simp only [h', Bool.false_eq_true, if_false]; exact ih

theorem keysOf_map_snd {α β : Type} (l : List (α × β)) (f : α → β → β) :
    keysOf (l.map (fun cp => (cp.1, f cp.1 cp.2))) = keysOf l := by
  unfold keysOf; simp [List.map_map, Function.comp]

theorem alGet_map_filter (l : List (Member × List TP)) (g : Member → TP → Bool) (k : Member) :
    alGet (l.map (fun cp => (cp.1, cp.2.filter (g cp.1)))) k = (alGet l k).map (fun ps => ps.filter (g k)) :=
  alGet_map_snd l (fun c ps => ps.filter (g c)) k

theorem keysOf_map_filter (l : List (Member × List TP)) (g : Member → TP → Bool) :
    keysOf (l.map (fun cp => (cp.1, cp.2.filter (g cp.1)))) = keysOf l :=
  keysOf_map_snd l (fun c ps => ps.filter (g c))

theorem find_member (members : List MemberIn) (hid : (members.map (·.id)).Nodup)
    (m : MemberIn) (hm : m ∈ members) : members.find? (·.id == m.id) = some m := by
  induction members with
  | nil => cases hm
  | cons x r ih =>
    rw [List.find?_cons]
    by_cases h : (x.id == m.id) = true
    · have hx : x = m := member_of_id (x :: r) hid x m List.mem_cons_self hm (by simpa using h)
      rw [hx]; simp
    · have h' : (x.id == m.id) = false := by simpa using h
      simp only [h']
      rcases List.mem_cons.mp hm with e | hm'
      · rw [e] at h; simp at h
      · simp only [List.map_cons, List.nodup_cons] at hid
        exact ih hid.2 hm'

theorem potential_spec (parts : List (Topic × List Nat)) (m : MemberIn) (p : TP)
    (h : p ∈ potentialOf parts m) : p.1 ∈ m.subs ∧ p ∈ allTpsOf parts := by
  unfold potentialOf at h
  obtain ⟨t, ht, hp⟩ := List.mem_flatMap.mp h
  cases hg : alGet parts t with
  | none => rw [hg] at hp; cases hp
  | some ps =>
    rw [hg] at hp
    obtain ⟨n, hn, he⟩ := List.mem_map.mp hp
    subst he
    refine ⟨(mem_isort_iff _ _).mp ht, ?_⟩
    unfold allTpsOf
    exact List.mem_flatMap.mpr ⟨(t, ps), alGet_mem _ _ _ hg, List.mem_map.mpr ⟨n, hn, rfl⟩⟩

theorem potential_same (parts : List (Topic × List Nat)) (a b : MemberIn) (h : a.subs = b.subs) :
    potentialOf parts a = potentialOf parts b := by
  unfold potentialOf; rw [h]

theorem populateSorted_more (s : St) :
    (populateSortedPartitions s).failed = s.failed ∧ (populateSortedPartitions s).badOracle = s.badOracle ∧
    (populateSortedPartitions s).oracle = s.oracle := by
  unfold populateSortedPartitions
  split <;> exact ⟨rfl, rfl, rfl⟩

theorem initState_p2c (parts : List (Topic × List Nat)) (members : List MemberIn) (oracle : List TP) :
    (initState parts members oracle).p2c = (subscribedTps parts members).map
      (fun tp => (tp, (members.filter (fun m => (potentialOf parts m).contains tp)).map (·.id))) := rfl

theorem alGet_map_key {α β : Type} [BEq α] [LawfulBEq α] (l : List α) (g : α → β) (k : α) (v : β)
    (h : alGet (l.map (fun a => (a, g a))) k = some v) : v = g k := by
  obtain ⟨a, _, he⟩ := List.mem_map.mp (alGet_mem _ _ _ h)
  simp only [Prod.mk.injEq] at he
  rw [← he.2, he.1]

theorem alHas_map_key {α β : Type} [BEq α] [LawfulBEq α] (l : List α) (g : α → β) (k : α) (h : k ∈ l) :
    alHas (l.map (fun a => (a, g a))) k = true := by
  apply (alHas_iff_mem_keys _ _).mpr
  unfold keysOf
  exact List.mem_map.mpr ⟨(k, g k), List.mem_map.mpr ⟨k, h, rfl⟩, rfl⟩

/-- **stickiness of the port, identical subscriptions, no new member** (clauses (a) and (b)):
    if all members subscribe to the same topics, the user data is well formed (`GoodPrev`) and the
    sizes of the previous assignments differ by at most one (what a balanced previous round leaves
    to the surviving members), the assignor returns normally for every fuel ≥ 1 and every oracle,
    and every member keeps every partition of its previous assignment: the partitions of departed
    members (and new partitions) are handed out without moving anything between members. -/
theorem assign_keeps_identical (fuel : Nat) (parts : List (Topic × List Nat)) (members : List MemberIn)
    (oracle : List TP) (G : GoodPrev parts members) (hne : members ≠ [])
    (hsame : ∀ a ∈ members, ∀ b ∈ members, a.subs = b.subs)
    (hw : ∀ a ∈ members, ∀ b ∈ members, a.prev.length ≤ b.prev.length + 1) :
    ∃ out left, assign (fuel + 1) parts members oracle = .ok out left ∧
      ∀ m ∈ members, ∀ p ∈ m.prev, ∃ items ps, (m.id, items) ∈ out ∧ (p.1, ps) ∈ items ∧ p.2 ∈ ps := by
  have hf := populateSorted_fields (initState parts members oracle)
  have hf2 := populateSorted_more (initState parts members oracle)
  -- the state handed to `balance`
  generalize hs : populatePartitionsToReassign (populateSortedPartitions (initState parts members oracle)) = s
  have hc2p : s.c2p = members.map (fun m => (m.id, potentialOf parts m)) := by
    rw [← hs]
    show (populateSortedPartitions (initState parts members oracle)).c2p = _
    rw [hf.2.2.1, initState_c2p]
  have hp2c : s.p2c = (subscribedTps parts members).map
      (fun tp => (tp, (members.filter (fun m => (potentialOf parts m).contains tp)).map (·.id))) := by
    rw [← hs]
    show (populateSortedPartitions (initState parts members oracle)).p2c = _
    rw [hf.2.2.2.1, initState_p2c]
  have hfail : s.failed = none := by
    rw [← hs]; show (populateSortedPartitions (initState parts members oracle)).failed = none
    rw [hf2.1]; rfl
  have hbad : s.badOracle = false := by
    rw [← hs]; show (populateSortedPartitions (initState parts members oracle)).badOracle = false
    rw [hf2.2.1]; rfl
  have hcur : s.cur = (initState parts members oracle).cur.map
      (fun cp => (cp.1, cp.2.filter (keepFor (populateSortedPartitions (initState parts members oracle)) cp.1))) := by
    rw [← hs]
    show (populateSortedPartitions (initState parts members oracle)).cur.map _ = _
    rw [hf.1]
  have hkeys : keysOf s.cur = keysOf (initState parts members oracle).cur := by
    rw [hcur]
    exact keysOf_map_filter _ (fun c => keepFor (populateSortedPartitions (initState parts members oracle)) c)
  -- potential partitions of a member id
  have hpot : ∀ m ∈ members, potOf s m.id = potentialOf parts m := by
    intro m hm
    unfold potOf
    rw [alGetD_def, hc2p, alGet_map_find, find_member members G.ids m hm]; rfl
  -- a member's list in `s` is its list in the initial state
  have hkeep : ∀ m ∈ members, curOf s m.id = curOf (initState parts members oracle) m.id := by
    intro m hm
    unfold curOf
    rw [alGetD_def, alGetD_def, hcur,
      alGet_map_filter _ (fun c => keepFor (populateSortedPartitions (initState parts members oracle)) c)]
    cases hg : alGet (initState parts members oracle).cur m.id with
    | none => rfl
    | some ps =>
      simp only [Option.map_some, Option.getD_some]
      apply List.filter_eq_self.mpr
      intro p hp
      have hp0 : p ∈ curOf (initState parts members oracle) m.id := by
        unfold curOf; rw [alGetD_def, hg]; exact hp
      have hprev := ((curOf0_spec parts members oracle G m hm).2 p).mp hp0
      obtain ⟨h1, h2⟩ := potential_spec parts m p (G.valid m hm p hprev)
      unfold keepFor subscriptionOf
      rw [hf.2.2.2.1, hf.2.2.2.2.1, initState_p2c]
      have hmem : (initState parts members oracle).members = members := rfl
      rw [hmem, find_member members G.ids m hm]
      simp only [Option.map_some, Option.getD_some, Bool.and_eq_true]
      have h2' : p ∈ subscribedTps parts members := by
        unfold subscribedTps
        exact List.mem_filter.mpr ⟨h2, List.any_eq_true.mpr ⟨m, hm, by simpa using h1⟩⟩
      exact ⟨alHas_map_key _ _ _ h2', by simpa using h1⟩
  have hlen : ∀ m ∈ members, (curOf s m.id).length = m.prev.length := by
    intro m hm
    rw [hkeep m hm]
    obtain ⟨hn, hiff⟩ := curOf0_spec parts members oracle G m hm
    exact ((List.perm_ext_iff_of_nodup hn (G.nd m hm)).mpr hiff).length_eq
  have hkeymem : ∀ c ∈ keysOf s.cur, ∃ m ∈ members, m.id = c := by
    intro c hc
    rw [hkeys] at hc
    have := curOf_entry _ _ hc
    exact (cur0_entry parts members oracle _ this).2.2
  obtain ⟨m0, hm0⟩ := List.exists_mem_of_ne_nil members hne
  have hcne : s.cur ≠ [] := by
    intro h
    have : m0.id ∈ keysOf s.cur := by rw [hkeys]; exact (initState_ownCore parts members oracle).2 m0 hm0
    rw [h] at this; cases this
  obtain ⟨s', hbal, hf', ⟨hbo, _⟩, hpre⟩ := balance_keeps_identical fuel s
    (by
      rw [hc2p]; unfold keysOf; rw [List.map_map]
      have : ((fun x : Member × List TP => x.1) ∘ fun m : MemberIn => (m.id, potentialOf parts m)) = (·.id) := rfl
      rw [this]; exact G.ids)
    (by rw [hkeys]; exact cur0_keys_nodup parts members oracle) hcne hfail
    (by
      intro p _ hcons c hc
      obtain ⟨m, hm, rfl⟩ := hkeymem c hc
      rw [hpot m hm]
      -- some member is a candidate for `p`, hence (identical subscriptions) every member is
      unfold consumersOf at hcons
      rw [alGetD_def, hp2c] at hcons
      cases hg : alGet ((subscribedTps parts members).map
          (fun tp => (tp, (members.filter (fun m => (potentialOf parts m).contains tp)).map (·.id)))) p with
      | none => rw [hg] at hcons; simp at hcons
      | some v =>
        rw [hg] at hcons
        have hv := alGet_map_key _ _ _ _ hg
        rw [hv] at hcons
        simp only [Option.getD_some, List.isEmpty_eq_false_iff, ne_eq, List.map_eq_nil_iff] at hcons
        obtain ⟨x, hx⟩ := List.exists_mem_of_ne_nil _ hcons
        obtain ⟨hxm, hxp⟩ := List.mem_filter.mp hx
        rw [potential_same parts m x (hsame m hm x hxm)]
        exact hxp)
    (by
      intro a ha b hb
      obtain ⟨ma, hma, rfl⟩ := hkeymem a ha
      obtain ⟨mb, hmb, rfl⟩ := hkeymem b hb
      rw [hlen ma hma, hlen mb hmb]
      exact hw ma hma mb hmb)
  refine ⟨members.map (fun m => (m.id, finalFor s' m.id)), s'.oracle.length, ?_, ?_⟩
  · unfold assign
    simp only
    rw [hs, hbal]
    simp only [hf']
    rw [hbo, hbad]
    simp
  · intro m hm p hp
    have h0 : p ∈ curOf (initState parts members oracle) m.id := ((curOf0_spec parts members oracle G m hm).2 p).mpr hp
    rw [← hkeep m hm] at h0
    have h1 : p ∈ curOf s' m.id := List.IsPrefix.mem h0 (hpre m.id)
    obtain ⟨ps, hps, hpp⟩ := finalFor_complete (curOf s' m.id) [] p (by simp [keysOf]) (Or.inr h1)
    exact ⟨finalFor s' m.id, ps, List.mem_map.mpr ⟨m, hm, rfl⟩, hps, hpp⟩

theorem keepHyp_sound (parts : List (Topic × List Nat)) (members : List MemberIn)
    (h : keepHyp parts members = true) :
    members ≠ [] ∧ GoodPrev parts members ∧ (∀ a ∈ members, ∀ b ∈ members, a.subs = b.subs) ∧
    (∀ a ∈ members, ∀ b ∈ members, a.prev.length ≤ b.prev.length + 1) := by
  unfold keepHyp at h
  simp only [Bool.and_eq_true, Bool.not_eq_true', List.isEmpty_eq_false_iff, decide_eq_true_eq,
    List.all_eq_true, Bool.or_eq_true, beq_iff_eq, Bool.not_eq_eq_eq_not, Bool.not_true,
    List.contains_eq_mem, decide_eq_false_iff_not] at h
  obtain ⟨⟨⟨⟨⟨h1, h2⟩, h3⟩, h4⟩, h5⟩, h6⟩ := h
  refine ⟨h1, ⟨h2, ?_, h3, ?_⟩, fun a ha b hb => (h6 a ha b hb).1, fun a ha b hb => (h6 a ha b hb).2⟩
  · intro a ha b hb p hpa hpb
    rcases h4 a ha b hb with h | h
    · exact h
    · exact absurd hpb (h p hpa)
  · intro m hm p hp
    exact h5 m hm p hp

end AkVerif.StickyAlg
