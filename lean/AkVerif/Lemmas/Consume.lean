import AkVerif.Model.Consume
/-!
Lemmas for C03 / C13: filtering strictly increasing lists by offset windows, the generator
`gnext` / `drain` / `gtake` of `_unpack_records`, well-formed logs, honest fetch answers, and the
invariant of the per-partition state machine.
-/
namespace AkVerif.Consume

/-! ## windows on strictly increasing lists -/

/-- `a ≤ o < e` -/
def inWin (a e : Nat) (o : Nat) : Bool := decide (a ≤ o) && decide (o < e)

@[simp] theorem inWin_iff (a e o : Nat) : inWin a e o = true ↔ a ≤ o ∧ o < e := by
  simp [inWin]

abbrev Inc (l : List Nat) : Prop := l.Pairwise (· < ·)

theorem filter_split {vis : List Nat} (h : Inc vis) (a b c : Nat) (hab : a ≤ b) (hbc : b ≤ c) :
    vis.filter (inWin a c) = vis.filter (inWin a b) ++ vis.filter (inWin b c) := by
  induction vis with
  | nil => simp
  | cons v vs ih =>
    have hv := List.pairwise_cons.mp h
    have ih' := ih hv.2
    by_cases h1 : a ≤ v ∧ v < b
    · have e1 : inWin a c v = true := by simp; omega
      have e2 : inWin a b v = true := by simp; omega
      have e3 : inWin b c v = false := by
        cases hq : inWin b c v with
        | false => rfl
        | true => simp at hq; omega
      simp [List.filter_cons, e1, e2, e3, ih']
    · by_cases h2 : b ≤ v ∧ v < c
      · have e1 : inWin a c v = true := by simp; omega
        have e2 : inWin a b v = false := by
          cases hq : inWin a b v with
          | false => rfl
          | true => simp at hq; omega
        have e3 : inWin b c v = true := by simp; omega
        have hnil : vs.filter (inWin a b) = [] := by
          rw [List.filter_eq_nil_iff]
          intro o ho hq
          have := hv.1 o ho
          simp at hq; omega
        simp [List.filter_cons, e1, e2, e3, ih', hnil]
      · have e1 : inWin a c v = false := by
          cases hq : inWin a c v with
          | false => rfl
          | true => simp at hq; omega
        have e2 : inWin a b v = false := by
          cases hq : inWin a b v with
          | false => rfl
          | true => simp at hq; omega
        have e3 : inWin b c v = false := by
          cases hq : inWin b c v with
          | false => rfl
          | true => simp at hq; omega
        simp [List.filter_cons, e1, e2, e3, ih']

/-- if the window `[p, e)` of an increasing list starts with `o`, then `o` is alone in
    `[p, o+1)` and the rest is the window `[o+1, e)` -/
theorem filter_head {vis : List Nat} (h : Inc vis) (p e o : Nat) (ys : List Nat)
    (hf : vis.filter (inWin p e) = o :: ys) :
    vis.filter (inWin p (o + 1)) = [o] ∧ vis.filter (inWin (o + 1) e) = ys ∧ p ≤ o ∧ o < e := by
  induction vis with
  | nil => simp at hf
  | cons v vs ih =>
    have hv := List.pairwise_cons.mp h
    by_cases hin : inWin p e v = true
    · rw [List.filter_cons, if_pos hin] at hf
      injection hf with hvo hys
      subst hvo
      have hb := (inWin_iff p e v).mp hin
      have hnil : vs.filter (inWin p (v + 1)) = [] := by
        rw [List.filter_eq_nil_iff]
        intro x hx hq
        have := hv.1 x hx
        simp at hq; omega
      have hsame : vs.filter (inWin (v + 1) e) = vs.filter (inWin p e) := by
        apply List.filter_congr
        intro x hx
        have := hv.1 x hx
        have a1 : v + 1 ≤ x := by omega
        have a2 : p ≤ x := by omega
        simp [inWin, a1, a2]
      have e1 : inWin p (v + 1) v = true := by simp; omega
      have e2 : inWin (v + 1) e v = false := by
        cases hq : inWin (v + 1) e v with
        | false => rfl
        | true => simp at hq; omega
      refine ⟨?_, ?_, hb.1, hb.2⟩
      · simp [List.filter_cons, e1, hnil]
      · simp [List.filter_cons, e2, hsame, hys]
    · rw [List.filter_cons, if_neg hin] at hf
      obtain ⟨i1, i2, i3, i4⟩ := ih hv.2 hf
      -- `v` lies outside `[p, e)`; it cannot be ≥ e because `o` comes later and is < e
      have ho : o ∈ vs := by
        have : o ∈ vs.filter (inWin p e) := by rw [hf]; simp
        exact (List.mem_filter.mp this).1
      have hvo := hv.1 o ho
      have hvp : v < p := by
        have : ¬ (p ≤ v ∧ v < e) := by
          intro hc
          exact hin ((inWin_iff p e v).mpr hc)
        omega
      have e1 : inWin p (o + 1) v = false := by
        cases hq : inWin p (o + 1) v with
        | false => rfl
        | true => simp at hq; omega
      have e2 : inWin (o + 1) e v = false := by
        cases hq : inWin (o + 1) e v with
        | false => rfl
        | true => simp at hq; omega
      refine ⟨?_, ?_, i3, i4⟩
      · simp [List.filter_cons, e1, i1]
      · simp [List.filter_cons, e2, i2]

theorem firstGE_of_filter_head {vis : List Nat} (h : Inc vis) (p e o : Nat) (ys : List Nat)
    (hf : vis.filter (inWin p e) = o :: ys) : firstGE vis p = some o := by
  induction vis with
  | nil => simp at hf
  | cons v vs ih =>
    have hv := List.pairwise_cons.mp h
    by_cases hin : inWin p e v = true
    · rw [List.filter_cons, if_pos hin] at hf
      injection hf with hvo _
      have hb := (inWin_iff p e v).mp hin
      subst hvo
      simp [firstGE, hb.1]
    · rw [List.filter_cons, if_neg hin] at hf
      have ho : o ∈ vs := by
        have : o ∈ vs.filter (inWin p e) := by rw [hf]; simp
        exact (List.mem_filter.mp this).1
      have hoe : o < e := by
        have : o ∈ vs.filter (inWin p e) := by rw [hf]; simp
        have := (List.mem_filter.mp this).2
        simp at this; omega
      have hvo := hv.1 o ho
      have hvp : ¬ p ≤ v := by
        intro hc
        apply hin
        simp; omega
      simp [firstGE, hvp, ih hv.2 hf]

/-! ## the generator -/

theorem drain_gnext_some (nfo : Nat) (pend : List Item) (o n' : Nat) (r : List Item)
    (h : gnext nfo pend = (some o, n', r)) :
    drain nfo pend = (o :: (drain n' r).1, (drain n' r).2) ∧ n' = o + 1 := by
  induction pend generalizing nfo with
  | nil => simp [gnext] at h
  | cons it rest ih =>
    cases it with
    | record x =>
      by_cases hx : x < nfo
      · simp only [gnext, hx, if_true] at h
        simp only [drain, hx, if_true]
        exact ih nfo h
      · simp only [gnext, hx, if_false] at h
        injection h with h1 h2
        injection h1 with h1
        injection h2 with h2 h3
        subst h1; subst h2; subst h3
        simp [drain, hx]
    | endb n =>
      simp only [gnext] at h
      simp only [drain]
      exact ih n h

theorem drain_gnext_none (nfo : Nat) (pend : List Item) (n' : Nat) (r : List Item)
    (h : gnext nfo pend = (none, n', r)) : drain nfo pend = ([], n') ∧ r = [] := by
  induction pend generalizing nfo with
  | nil =>
    simp only [gnext] at h
    injection h with _ h2
    injection h2 with h2 h3
    subst h2
    exact ⟨rfl, h3.symm⟩
  | cons it rest ih =>
    cases it with
    | record x =>
      by_cases hx : x < nfo
      · simp only [gnext, hx, if_true] at h
        simp only [drain, hx, if_true]
        exact ih nfo h
      · simp only [gnext, hx, if_false] at h
        injection h with h1 _
        cases h1
    | endb n =>
      simp only [gnext] at h
      simp only [drain]
      exact ih n h

/-! ## well-formed logs -/

structure WFBatch (b : Batch) : Prop where
  range : b.base < b.next
  inside : ∀ o ∈ b.recs, b.base ≤ o ∧ o < b.next
  inc : Inc b.recs

/-- batches well-formed, disjoint and in offset order (compaction gaps between and inside batches,
    empty batches and control batches are all allowed) -/
structure WFLog (L : List Batch) : Prop where
  each : ∀ b ∈ L, WFBatch b
  order : L.Pairwise (fun a b => a.next ≤ b.base)

theorem WFLog.tail {b : Batch} {r : List Batch} (h : WFLog (b :: r)) : WFLog r :=
  ⟨fun c hc => h.each c (List.mem_cons_of_mem _ hc), (List.pairwise_cons.mp h.order).2⟩

theorem WFLog.append_left {a b : List Batch} (h : WFLog (a ++ b)) : WFLog a :=
  ⟨fun c hc => h.each c (List.mem_append_left _ hc), (List.pairwise_append.mp h.order).1⟩

theorem WFLog.append_right {a b : List Batch} (h : WFLog (a ++ b)) : WFLog b :=
  ⟨fun c hc => h.each c (List.mem_append_right _ hc), (List.pairwise_append.mp h.order).2.1⟩

theorem visible_append (a b : List Batch) : visible (a ++ b) = visible a ++ visible b := by
  induction a with
  | nil => rfl
  | cons x xs ih => simp [visible, ih]

theorem mem_visible {L : List Batch} {o : Nat} (h : o ∈ visible L) :
    ∃ b ∈ L, b.skip = false ∧ o ∈ b.recs := by
  induction L with
  | nil => simp [visible] at h
  | cons b r ih =>
    simp only [visible, List.mem_append] at h
    rcases h with h | h
    · by_cases hs : b.skip = true
      · simp [hs] at h
      · have hs' : b.skip = false := by simpa using hs
        simp [hs'] at h
        exact ⟨b, List.mem_cons_self, hs', h⟩
    · obtain ⟨c, hc, h1, h2⟩ := ih h
      exact ⟨c, List.mem_cons_of_mem _ hc, h1, h2⟩

theorem visible_bounds {L : List Batch} (hw : WFLog L) {o : Nat} (h : o ∈ visible L) :
    ∃ b ∈ L, b.base ≤ o ∧ o < b.next := by
  obtain ⟨b, hb, _, ho⟩ := mem_visible h
  exact ⟨b, hb, (hw.each b hb).inside o ho⟩

/-- the visible offsets of a well-formed log are strictly increasing -/
theorem visible_inc {L : List Batch} (hw : WFLog L) : Inc (visible L) := by
  induction L with
  | nil => simp [visible, Inc]
  | cons b r ih =>
    have hr := ih hw.tail
    have hb := hw.each b List.mem_cons_self
    have hord := (List.pairwise_cons.mp hw.order).1
    simp only [visible]
    refine List.pairwise_append.mpr ⟨?_, hr, ?_⟩
    · by_cases hs : b.skip = true
      · simp [hs]
      · have hs' : b.skip = false := by simpa using hs
        simpa [hs'] using hb.inc
    · intro x hx y hy
      by_cases hs : b.skip = true
      · simp [hs] at hx
      · have hs' : b.skip = false := by simpa using hs
        simp [hs'] at hx
        obtain ⟨c, hc, h1, _⟩ := visible_bounds hw.tail hy
        have := hord c hc
        have := (hb.inside x hx).2
        omega

/-- where the position ends up after a response has been consumed completely -/
def lastNext : Nat → List Batch → Nat
  | n, [] => n
  | _, b :: r => lastNext b.next r

theorem lastNext_append (n : Nat) (a : List Batch) (b : Batch) :
    lastNext n (a ++ [b]) = b.next := by
  induction a generalizing n with
  | nil => rfl
  | cons x xs ih => simp [lastNext, ih]

theorem lastNext_ge {L : List Batch} (hw : WFLog L) (n : Nat) (b : Batch) (hb : b ∈ L) :
    b.next ≤ lastNext n L := by
  induction L generalizing n b with
  | nil => cases hb
  | cons c r ih =>
    simp only [lastNext]
    rcases List.mem_cons.mp hb with rfl | hb'
    · cases r with
      | nil => simp [lastNext]
      | cons d r' =>
        have hd : d ∈ d :: r' := List.mem_cons_self
        have h1 := ih hw.tail b.next d hd
        have h2 := (List.pairwise_cons.mp hw.order).1 d hd
        have h3 := (hw.each d (List.mem_cons_of_mem _ hd)).range
        simp only [lastNext] at h1 ⊢
        omega
    · exact ih hw.tail c.next b hb'

/-! ## `_unpack_records` on a well-formed response -/

theorem drain_records (recs : List Nat) (hinc : Inc recs) (nfo : Nat) (rest : List Item) :
    drain nfo (recs.map Item.record ++ rest)
      = (recs.filter (fun o => decide (nfo ≤ o)) ++
           (drain (match (recs.filter (fun o => decide (nfo ≤ o))).getLast? with
                   | some o => o + 1 | none => nfo) rest).1,
         (drain (match (recs.filter (fun o => decide (nfo ≤ o))).getLast? with
                 | some o => o + 1 | none => nfo) rest).2) := by
  induction recs generalizing nfo with
  | nil => simp
  | cons o os ih =>
    have ho := List.pairwise_cons.mp hinc
    by_cases hlt : o < nfo
    · have hd : decide (nfo ≤ o) = false := by simp; omega
      simp only [List.map_cons, List.cons_append, drain, hlt, if_true, List.filter_cons, hd]
      simpa using ih ho.2 nfo
    · have hd : decide (nfo ≤ o) = true := by simp; omega
      have hall : os.filter (fun x => decide (nfo ≤ x)) = os.filter (fun x => decide (o + 1 ≤ x)) := by
        apply List.filter_congr
        intro x hx
        have := ho.1 x hx
        have a1 : nfo ≤ x := by omega
        have a2 : o + 1 ≤ x := by omega
        simp [a1, a2]
      simp only [List.map_cons, List.cons_append, drain, hlt, if_false, List.filter_cons, hd, if_true]
      rw [ih ho.2 (o + 1), hall]
      cases hq : (os.filter (fun x => decide (o + 1 ≤ x))).getLast? with
      | none =>
        have : os.filter (fun x => decide (o + 1 ≤ x)) = [] := by
          simpa [List.getLast?_eq_none_iff] using hq
        simp [this]
      | some z =>
        have hne : os.filter (fun x => decide (o + 1 ≤ x)) ≠ [] := by
          intro hc; simp [hc] at hq
        simp [List.getLast?_cons, hq, hne]

theorem drain_batch (b : Batch) (hinc : Inc b.recs) (nfo : Nat) (rest : List Item) :
    drain nfo (batchItems b ++ rest)
      = ((if b.skip then [] else b.recs.filter (fun o => decide (nfo ≤ o))) ++ (drain b.next rest).1,
         (drain b.next rest).2) := by
  unfold batchItems
  by_cases hs : b.skip = true
  · simp [hs, drain]
  · have hs' : b.skip = false := by simpa using hs
    simp only [hs', Bool.false_eq_true, if_false, List.append_assoc, List.singleton_append]
    rw [drain_records b.recs hinc nfo]
    simp [drain]

theorem items_append (a b : List Batch) : items (a ++ b) = items a ++ items b := by
  induction a with
  | nil => rfl
  | cons x xs ih => simp [items, ih]

/-- what `_unpack_records` yields from a well-formed response all of whose batches end after the
    fetch offset: the visible records at or after the fetch offset, and the position moves to the
    end of the last batch -/
theorem drain_items {resp : List Batch} (hw : WFLog resp) (nfo : Nat)
    (hall : ∀ b ∈ resp, nfo < b.next) :
    drain nfo (items resp)
      = ((visible resp).filter (fun o => decide (nfo ≤ o)), lastNext nfo resp) := by
  induction resp generalizing nfo with
  | nil => simp [items, drain, visible, lastNext]
  | cons b r ih =>
    have hb := hw.each b List.mem_cons_self
    have hord := (List.pairwise_cons.mp hw.order).1
    have hnext : ∀ c ∈ r, b.next < c.next := by
      intro c hc
      have := hord c hc
      have := (hw.each c (List.mem_cons_of_mem _ hc)).range
      omega
    have hrest := ih hw.tail b.next hnext
    have hnb := hall b List.mem_cons_self
    -- everything visible in the rest lies at or after `b.next`
    have hge : ∀ o ∈ visible r, b.next ≤ o := by
      intro o ho
      obtain ⟨c, hc, h1, _⟩ := visible_bounds hw.tail ho
      have := hord c hc
      omega
    have hf1 : (visible r).filter (fun o => decide (b.next ≤ o)) = visible r := by
      rw [List.filter_eq_self]; intro o ho; simpa using hge o ho
    have hf2 : (visible r).filter (fun o => decide (nfo ≤ o)) = visible r := by
      rw [List.filter_eq_self]; intro o ho
      have := hge o ho
      simp; omega
    simp only [items]
    rw [drain_batch b hb.inc nfo, hrest]
    simp only [visible, lastNext, List.filter_append, hf1, hf2]
    by_cases hs : b.skip = true
    · simp [hs]
    · have hs' : b.skip = false := by simpa using hs
      simp [hs']

/-! ## honest fetch answers -/

/-- an answer to a fetch at `pos` as Kafka gives it (Appendix F): a non-empty run of whole batches
    of the log that starts at the first batch ending after `pos` -/
def Honest (L : List Batch) (pos : Nat) (resp : List Batch) : Prop :=
  ∃ pre suf, L = pre ++ resp ++ suf ∧ resp ≠ [] ∧ (∀ b ∈ pre, b.next ≤ pos) ∧
    (∀ b ∈ resp.head?, pos < b.next)

theorem filter_inWin_eq {l : List Nat} (a e : Nat) (h : ∀ o ∈ l, o < e) :
    l.filter (inWin a e) = l.filter (fun o => decide (a ≤ o)) := by
  apply List.filter_congr
  intro o ho
  have := h o ho
  simp [inWin, this]

/-- one fetch / drain round on a well-formed log: exactly the visible records of the window
    `[pos, pos')` are yielded, in order, and the position strictly advances to `pos'` -/
theorem honest_drain {L : List Batch} (hw : WFLog L) (pos : Nat) (resp : List Batch)
    (hh : Honest L pos resp) :
    (drain pos (items resp)).1 = (visible L).filter (inWin pos (drain pos (items resp)).2) ∧
    (drain pos (items resp)).2 = lastNext pos resp ∧ pos < lastNext pos resp := by
  obtain ⟨pre, suf, hL, hne, hpre, hhead⟩ := hh
  subst hL
  have hwr : WFLog resp := hw.append_left.append_right
  have hord := List.pairwise_append.mp hw.order
  have hord2 := List.pairwise_append.mp hord.1
  -- every batch of the answer ends after `pos`
  have hall : ∀ b ∈ resp, pos < b.next := by
    cases resp with
    | nil => exact absurd rfl hne
    | cons b r =>
      intro c hc
      have hb : pos < b.next := hhead b (by simp)
      rcases List.mem_cons.mp hc with rfl | hc'
      · exact hb
      · have := (List.pairwise_cons.mp hwr.order).1 c hc'
        have := (hwr.each c hc).range
        omega
  have hd := drain_items hwr pos hall
  have hlast : ∀ b ∈ resp, b.next ≤ lastNext pos resp := fun b hb => lastNext_ge hwr pos b hb
  have hgt : pos < lastNext pos resp := by
    cases resp with
    | nil => exact absurd rfl hne
    | cons b r =>
      have := hall b List.mem_cons_self
      have := hlast b List.mem_cons_self
      omega
  rw [hd]
  refine ⟨?_, rfl, hgt⟩
  simp only [visible_append, List.filter_append]
  -- before the answer: everything is below `pos`
  have h1 : (visible pre).filter (inWin pos (lastNext pos resp)) = [] := by
    rw [List.filter_eq_nil_iff]
    intro o ho hq
    obtain ⟨b, hb, _, h2⟩ := visible_bounds hw.append_left.append_left ho
    have := hpre b hb
    simp at hq; omega
  -- after the answer: everything is at or above the new position
  have h3 : (visible suf).filter (inWin pos (lastNext pos resp)) = [] := by
    rw [List.filter_eq_nil_iff]
    intro o ho hq
    obtain ⟨c, hc, h2, _⟩ := visible_bounds hw.append_right ho
    -- the last batch of the answer precedes `c`
    have hle : lastNext pos resp ≤ c.base := by
      rcases List.eq_nil_or_concat resp with hnil | ⟨init, lst, hcat⟩
      · exact absurd hnil hne
      · have hl : lst ∈ resp := by rw [hcat]; simp
        have : lastNext pos resp = lst.next := by
          rw [hcat]; simpa using lastNext_append pos init lst
        rw [this]
        exact hord.2.2 lst (List.mem_append_right _ hl) c hc
    simp at hq; omega
  have h2 : (visible resp).filter (inWin pos (lastNext pos resp))
      = (visible resp).filter (fun o => decide (pos ≤ o)) := by
    apply filter_inWin_eq
    intro o ho
    obtain ⟨b, hb, _, hlt⟩ := visible_bounds hwr ho
    have := hlast b hb
    omega
  simp [h1, h2, h3]

/-! ## the fetch / drain iteration -/

/-- consume a sequence of answers one after the other -/
def iterate : Nat → List (List Batch) → List Nat × Nat
  | s, [] => ([], s)
  | s, resp :: rs =>
    ((drain s (items resp)).1 ++ (iterate (drain s (items resp)).2 rs).1,
     (iterate (drain s (items resp)).2 rs).2)

/-- every answer is honest for the position reached so far — whatever the cut policy -/
def HonestRun (L : List Batch) : Nat → List (List Batch) → Prop
  | _, [] => True
  | s, resp :: rs => Honest L s resp ∧ HonestRun L (drain s (items resp)).2 rs

theorem iterate_spec {L : List Batch} (hw : WFLog L) (s : Nat) (rs : List (List Batch))
    (hr : HonestRun L s rs) :
    (iterate s rs).1 = (visible L).filter (inWin s (iterate s rs).2) ∧
    s + rs.length ≤ (iterate s rs).2 := by
  induction rs generalizing s with
  | nil => 
    simp only [iterate, List.length_nil, Nat.add_zero, Nat.le_refl, and_true]
    symm
    rw [List.filter_eq_nil_iff]
    intro o _ hq
    simp at hq; omega
  | cons resp rs ih =>
    obtain ⟨hh, hrest⟩ := hr
    obtain ⟨h1, h2, h3⟩ := honest_drain hw s resp hh
    obtain ⟨i1, i2⟩ := ih _ hrest
    simp only [iterate]
    refine ⟨?_, ?_⟩
    · rw [filter_split (visible_inc hw) s (drain s (items resp)).2 _ (by omega) (by omega), ← h1, ← i1]
    · simp only [List.length_cons]; omega

/-! ## the buffered generator -/

/-- a buffer is *good* for the ground truth `vis` when draining it yields exactly the visible
    offsets of the window from its `next_fetch_offset` to where it ends -/
def GoodGen (vis : List Nat) (g : Gen) : Prop :=
  (drain g.nfo g.pend).1 = vis.filter (inWin g.nfo (drain g.nfo g.pend).2) ∧
  g.nfo ≤ (drain g.nfo g.pend).2

theorem good_next_some {vis : List Nat} (hv : Inc vis) {g : Gen} (hg : GoodGen vis g)
    {o n' : Nat} {r : List Item} (h : gnext g.nfo g.pend = (some o, n', r)) :
    GoodGen vis ⟨n', r⟩ ∧ n' = o + 1 ∧ g.nfo ≤ o ∧
    vis.filter (inWin g.nfo n') = [o] := by
  obtain ⟨hd, hn⟩ := drain_gnext_some _ _ _ _ _ h
  obtain ⟨g1, g2⟩ := hg
  rw [hd] at g1 g2
  simp only at g1 g2
  obtain ⟨f1, f2, f3, f4⟩ := filter_head hv _ _ _ _ g1.symm
  subst hn
  exact ⟨⟨f2.symm, by simp only; omega⟩, rfl, f3, f1⟩

theorem good_next_none {vis : List Nat} {g : Gen} (hg : GoodGen vis g)
    {n' : Nat} {r : List Item} (h : gnext g.nfo g.pend = (none, n', r)) :
    g.nfo ≤ n' ∧ vis.filter (inWin g.nfo n') = [] := by
  obtain ⟨hd, _⟩ := drain_gnext_none _ _ _ _ h
  obtain ⟨g1, g2⟩ := hg
  rw [hd] at g1 g2
  exact ⟨g2, g1.symm⟩

/-- `getall`: up to `k` records from a good buffer are the visible offsets of the window consumed -/
theorem good_take {vis : List Nat} (hv : Inc vis) (k : Nat) (g : Gen) (hg : GoodGen vis g) :
    (gtake k g.nfo g.pend).1 = vis.filter (inWin g.nfo (gtake k g.nfo g.pend).2.1) ∧
    g.nfo ≤ (gtake k g.nfo g.pend).2.1 ∧
    ((gtake k g.nfo g.pend).2.2.2 = false →
      GoodGen vis ⟨(gtake k g.nfo g.pend).2.1, (gtake k g.nfo g.pend).2.2.1⟩) := by
  induction k generalizing g with
  | zero =>
    simp only [gtake, Nat.le_refl, true_and]
    refine ⟨?_, fun _ => hg⟩
    symm
    rw [List.filter_eq_nil_iff]
    intro o _ hq
    simp at hq; omega
  | succ k ih =>
    simp only [gtake]
    cases hq : gnext g.nfo g.pend with
    | mk res rest =>
      obtain ⟨n', r⟩ := rest
      cases res with
      | none =>
        obtain ⟨a1, a2⟩ := good_next_none hg hq
        simp only
        exact ⟨a2.symm, a1, fun hc => by cases hc⟩
      | some o =>
        obtain ⟨b1, b2, b3, b4⟩ := good_next_some hv hg hq
        obtain ⟨c1, c2, c3⟩ := ih ⟨n', r⟩ b1
        simp only at c1 c2 c3 ⊢
        refine ⟨?_, by omega, c3⟩
        rw [filter_split hv g.nfo n' _ (by omega) c2, b4, c1]
        rfl

/-! ## the invariant of one partition -/

/-- what the theorems assume of the environment: every non-empty fetch answer is good for the
    ground truth (`honest_drain` shows that an honest answer from a well-formed log is), and no
    record is given up as too large for the fetch size (`RecordTooLargeError` skips a record on
    purpose) -/
def HonestOp (vis : List Nat) : Op → Prop
  | Op.reply f (Reply.data resp) => resp = [] ∨ GoodGen vis ⟨f, items resp⟩
  | Op.reply _ Reply.tooLarge => False
  | _ => True

structure Inv (vis : List Nat) (s : PSt) : Prop where
  deliv : ∀ p st, s.pos = some p → s.start = some st →
    st ≤ p ∧ s.delivered.reverse = vis.filter (inWin st p)
  started : ∀ p, s.pos = some p → ∃ st, s.start = some st
  buf : ∀ g, s.buf = some (Entry.res g) → GoodGen vis g

theorem filter_empty_window (vis : List Nat) (a : Nat) : vis.filter (inWin a a) = [] := by
  rw [List.filter_eq_nil_iff]
  intro o _ hq
  simp at hq; omega

theorem init_inv (vis : List Nat) : Inv vis {} :=
  ⟨fun _ _ h => (by cases h), fun _ h => (by cases h), fun _ h => (by cases h)⟩

theorem check_true {s : PSt} {g : Gen} (h : s.check g = some true) :
    s.active = true ∧ s.paused = false ∧ s.pos = some g.nfo := by
  unfold PSt.check at h
  by_cases ha : s.active = true
  · by_cases hp : s.paused = true
    · simp [ha, hp] at h
    · have hp' : s.paused = false := by simpa using hp
      cases hq : s.pos with
      | none => simp [ha, hp', hq] at h
      | some p =>
        simp [ha, hp', hq] at h
        exact ⟨ha, hp', by rw [h]⟩
  · have ha' : s.active = false := by simpa using ha
    simp [ha'] at h

theorem resetTo_inv {vis : List Nat} {s : PSt} (hi : Inv vis s) (x : Nat) : Inv vis (s.resetTo x) := by
  refine ⟨?_, ?_, ?_⟩
  · intro p st hp hs
    simp only [PSt.resetTo] at hp hs
    injection hp with hp; injection hs with hs
    subst hp; subst hs
    exact ⟨Nat.le_refl _, by simp [PSt.resetTo, filter_empty_window]⟩
  · intro p _; exact ⟨x, rfl⟩
  · intro g hg; exact hi.buf g hg

theorem awaitReset_inv {vis : List Nat} {s : PSt} (hi : Inv vis s) (st : Int) :
    Inv vis (s.awaitReset st) :=
  ⟨fun _ _ h => (by simp [PSt.awaitReset] at h), fun _ h => (by simp [PSt.awaitReset] at h),
   fun g hg => hi.buf g hg⟩

theorem setError_inv {vis : List Nat} {s : PSt} (hi : Inv vis s) (c : Nat) :
    Inv vis (s.setError c).1 := by
  unfold PSt.setError
  cases hb : s.buf with
  | some e => simpa [hb] using hi
  | none =>
    simp only
    exact ⟨hi.deliv, hi.started, fun g hg => (by simp at hg)⟩

theorem resetOrError_inv {vis : List Nat} {s : PSt} (hi : Inv vis s) (policy : Option Int) (c : Nat) :
    Inv vis (s.resetOrError policy c).1 := by
  unfold PSt.resetOrError
  cases policy with
  | none => exact setError_inv hi c
  | some st => exact awaitReset_inv hi st

theorem getone_inv {vis : List Nat} (hv : Inc vis) {s : PSt} (hi : Inv vis s) (g : Gen)
    (hb : s.buf = some (Entry.res g)) : Inv vis (s.getone g).1 := by
  unfold PSt.getone
  cases hc : s.check g with
  | none => simpa using hi
  | some b =>
    cases b with
    | false =>
      simp only
      exact ⟨hi.deliv, hi.started, fun g hg => (by simp at hg)⟩
    | true =>
      obtain ⟨_, _, hpos⟩ := check_true hc
      have hg := hi.buf g hb
      obtain ⟨st, hst⟩ := hi.started _ hpos
      obtain ⟨d1, d2⟩ := hi.deliv _ _ hpos hst
      simp only
      cases hq : gnext g.nfo g.pend with
      | mk res rest =>
        obtain ⟨n', r⟩ := rest
        cases res with
        | some o =>
          obtain ⟨b1, b2, b3, b4⟩ := good_next_some hv hg hq
          simp only
          refine ⟨?_, ?_, ?_⟩
          · intro p st' hp hs'
            simp only at hp hs'
            injection hp with hp
            rw [hst] at hs'; injection hs' with hs'
            subst hp; subst hs'
            refine ⟨by omega, ?_⟩
            simp only [List.reverse_cons, d2]
            rw [filter_split hv st g.nfo n' d1 (by omega), b4]
          · intro p _; exact ⟨st, hst⟩
          · intro g' hg'
            simp only at hg'
            injection hg' with hg'; injection hg' with hg'
            subst hg'; exact b1
        | none =>
          obtain ⟨a1, a2⟩ := good_next_none hg hq
          simp only
          refine ⟨?_, ?_, ?_⟩
          · intro p st' hp hs'
            simp only at hp hs'
            injection hp with hp
            rw [hst] at hs'; injection hs' with hs'
            subst hp; subst hs'
            refine ⟨by omega, ?_⟩
            rw [d2, filter_split hv st g.nfo n' d1 a1, a2]; simp
          · intro p _; exact ⟨st, hst⟩
          · intro g' hg'; simp at hg'

theorem getall_inv {vis : List Nat} (hv : Inc vis) {s : PSt} (hi : Inv vis s) (g : Gen)
    (hb : s.buf = some (Entry.res g)) (max : Nat) : Inv vis (s.getall g max).1 := by
  unfold PSt.getall
  cases hc : s.check g with
  | none => simpa using hi
  | some b =>
    cases b with
    | false =>
      simp only
      exact ⟨hi.deliv, hi.started, fun g hg => (by simp at hg)⟩
    | true =>
      obtain ⟨_, _, hpos⟩ := check_true hc
      have hg := hi.buf g hb
      obtain ⟨st, hst⟩ := hi.started _ hpos
      obtain ⟨d1, d2⟩ := hi.deliv _ _ hpos hst
      obtain ⟨t1, t2, t3⟩ := good_take hv (if max = 0 then g.pend.length + 1 else max) g hg
      simp only
      refine ⟨?_, ?_, ?_⟩
      · intro p st' hp hs'
        simp only at hp hs'
        injection hp with hp
        rw [hst] at hs'; injection hs' with hs'
        subst hp; subst hs'
        refine ⟨by omega, ?_⟩
        simp only [List.reverse_append, List.reverse_reverse, d2]
        rw [filter_split hv st g.nfo _ d1 t2, t1]
      · intro p _; exact ⟨st, hst⟩
      · intro g' hg'
        simp only at hg'
        cases hx : (gtake (if max = 0 then g.pend.length + 1 else max) g.nfo g.pend).2.2.2 with
        | true => simp [hx] at hg'
        | false =>
          simp [hx] at hg'
          subst hg'
          exact t3 hx

theorem step_inv {vis : List Nat} (hv : Inc vis) (gd : Bool) (policy : Option Int) {s : PSt}
    (hi : Inv vis s) (op : Op) (ho : HonestOp vis op) : Inv vis (step gd policy s op).1 := by
  cases op with
  | reply f r =>
    simp only [step]
    by_cases ha : s.active = true
    · by_cases hp : s.pos = some f
      · have hne : (s.pos != some f) = false := by simp [hp]
        simp only [ha, hne, Bool.not_true, Bool.false_eq_true, if_false]
        cases r with
        | data resp =>
          by_cases he : resp.isEmpty = true
          · simpa [he] using hi
          · simp only [he, Bool.false_eq_true, if_false]
            refine ⟨hi.deliv, hi.started, ?_⟩
            intro g hg
            simp only at hg
            injection hg with hg; injection hg with hg
            subst hg
            rcases ho with h0 | h0
            · subst h0; simp at he
            · exact h0
        | tooLarge => exact absurd ho (by simp [HonestOp])
        | outOfRange => exact resetOrError_inv hi policy 1
        | otherError => exact hi
      · have : (s.pos != some f) = true := by simpa using hp
        simpa [ha, this] using hi
    · have ha' : s.active = false := by simpa using ha
      simpa [ha'] using hi
  | getone =>
    simp only [step]
    cases hb : s.buf with
    | none => simpa using hi
    | some e =>
      cases e with
      | res g => exact getone_inv hv hi g hb
      | err c => simpa using hi
  | getall max =>
    simp only [step]
    cases hb : s.buf with
    | none => simpa using hi
    | some e =>
      cases e with
      | res g => exact getall_inv hv hi g hb max
      | err c => simpa using hi
  | raise =>
    simp only [step]
    cases hb : s.buf with
    | none => simpa using hi
    | some e =>
      cases e with
      | res g => simpa using hi
      | err c =>
        simp only
        exact ⟨hi.deliv, hi.started, fun g hg => (by simp at hg)⟩
  | seek x =>
    simp only [step]
    refine ⟨?_, ?_, ?_⟩
    · intro p st hp hs
      simp only at hp hs
      injection hp with hp; injection hs with hs
      subst hp; subst hs
      exact ⟨Nat.le_refl _, by simp [filter_empty_window]⟩
    · intro p _; exact ⟨x, rfl⟩
    · intro g hg; simp at hg
  | seekTo st =>
    simp only [step]
    exact ⟨fun _ _ h => (by simp [PSt.awaitReset] at h), fun _ h => (by simp [PSt.awaitReset] at h),
           fun g hg => (by simp [PSt.awaitReset] at hg)⟩
  | pause => exact ⟨hi.deliv, hi.started, hi.buf⟩
  | resume => exact ⟨hi.deliv, hi.started, hi.buf⟩
  | unassign => exact ⟨hi.deliv, hi.started, hi.buf⟩
  | committed v =>
    simp only [step]
    by_cases hg : (s.pos.isSome || s.strat.isSome) = true
    · simpa [hg] using hi
    · simp only [hg, Bool.false_eq_true, if_false]
      cases v with
      | none => exact resetOrError_inv hi policy 2
      | some c => exact resetTo_inv hi c
  | offsets sent off =>
    simp only [step]
    cases hs : s.strat with
    | none => simpa using hi
    | some cur =>
      simp only
      by_cases hgd : (gd && cur != sent) = true
      · simpa [hgd] using hi
      · simp only [hgd, Bool.false_eq_true, if_false]
        exact resetTo_inv hi off

theorem run_inv {vis : List Nat} (hv : Inc vis) (gd : Bool) (policy : Option Int) (s : PSt)
    (ops : List Op) (hi : Inv vis s) (ho : ∀ op ∈ ops, HonestOp vis op) :
    Inv vis (run gd policy s ops) := by
  induction ops generalizing s with
  | nil => exact hi
  | cons op rest ih =>
    simp only [run, List.foldl_cons]
    exact ih _ (step_inv hv gd policy hi op (ho op List.mem_cons_self))
      (fun o h => ho o (List.mem_cons_of_mem _ h))

end AkVerif.Consume
