import AkVerif.Model.StickyAlg
/-! lemmas about the Lean port of the sticky assignor: association lists, and the invariant
    "whatever a consumer holds is one of its potential partitions" -/
namespace AkVerif.StickyAlg
open AkVerif.Assign

section AL
variable {α β : Type} [BEq α] [LawfulBEq α]

theorem alGet_cons (k k' : α) (v : β) (l : List (α × β)) :
    alGet ((k', v) :: l) k = if k' == k then some v else alGet l k := by
  unfold alGet
  simp only [List.find?_cons]
  split <;> simp_all

theorem alHas_iff (l : List (α × β)) (k : α) : alHas l k = true ↔ ∃ v, alGet l k = some v := by
  induction l with
  | nil => simp [alHas, alGet]
  | cons x xs ih =>
    obtain ⟨k', v'⟩ := x
    rw [alGet_cons]
    unfold alHas at ih ⊢
    simp only [List.any_cons, Bool.or_eq_true]
    by_cases h : (k' == k) = true
    · simp [h]
    · simp [h, ih]

theorem alGet_alSet_same (l : List (α × β)) (k : α) (v : β) : alGet (alSet l k v) k = some v := by
  unfold alSet
  split
  · rename_i h
    induction l with
    | nil => simp [alHas] at h
    | cons x xs ih =>
      obtain ⟨k', v'⟩ := x
      simp only [List.map_cons]
      by_cases hk : (k' == k) = true
      · simp [hk, alGet_cons]
      · simp only [hk, Bool.false_eq_true, if_false, alGet_cons]
        apply ih
        unfold alHas at h ⊢
        simpa [hk] using h
  · rename_i h
    induction l with
    | nil => simp [alGet]
    | cons x xs ih =>
      obtain ⟨k', v'⟩ := x
      have hk : (k' == k) = false := by
        unfold alHas at h; simp only [List.any_cons, Bool.or_eq_true, not_or] at h
        simpa using h.1
      simp only [List.cons_append, alGet_cons, hk, Bool.false_eq_true, if_false]
      apply ih
      unfold alHas at h ⊢; simp only [List.any_cons, Bool.or_eq_true, not_or] at h
      exact h.2

theorem alGet_map_other (l : List (α × β)) (k k' : α) (v : β) (hne : (k == k') = false) :
    alGet (l.map (fun kv => if kv.1 == k then (k, v) else kv)) k' = alGet l k' := by
  induction l with
  | nil => rfl
  | cons x xs ih =>
    obtain ⟨k0, v0⟩ := x
    simp only [List.map_cons]
    by_cases hk : (k0 == k) = true
    · have hk0 : k0 = k := by simpa using hk
      subst hk0
      simp [alGet_cons, hne, ih]
    · simp only [hk, Bool.false_eq_true, if_false, alGet_cons, ih]

theorem alGet_append_other (l : List (α × β)) (k k' : α) (v : β) (hne : (k == k') = false) :
    alGet (l ++ [(k, v)]) k' = alGet l k' := by
  induction l with
  | nil => simp [alGet, hne]
  | cons x xs ih =>
    obtain ⟨k0, v0⟩ := x
    simp only [List.cons_append, alGet_cons, ih]

theorem alGet_alSet_other (l : List (α × β)) (k k' : α) (v : β) (hne : (k == k') = false) :
    alGet (alSet l k v) k' = alGet l k' := by
  unfold alSet
  split
  · exact alGet_map_other l k k' v hne
  · exact alGet_append_other l k k' v hne

theorem alGet_alDel_other (l : List (α × β)) (k k' : α) (hne : (k == k') = false) :
    alGet (alDel l k) k' = alGet l k' := by
  unfold alDel
  induction l with
  | nil => rfl
  | cons x xs ih =>
    obtain ⟨k0, v0⟩ := x
    simp only [List.filter_cons]
    by_cases hk : (k0 == k) = true
    · have hk0 : k0 = k := by simpa using hk
      subst hk0
      simp [alGet_cons, hne, ih]
    · simp only [hk, Bool.not_false, if_true, alGet_cons, ih]

theorem alGet_alDel_same (l : List (α × β)) (k : α) : alGet (alDel l k) k = none := by
  unfold alDel
  induction l with
  | nil => rfl
  | cons x xs ih =>
    obtain ⟨k0, v0⟩ := x
    simp only [List.filter_cons]
    by_cases hk : (k0 == k) = true
    · simp [hk, ih]
    · simp only [hk, Bool.not_false, if_true, alGet_cons, Bool.false_eq_true, if_false, ih]

theorem alGet_mem (l : List (α × β)) (k : α) (v : β) (h : alGet l k = some v) : (k, v) ∈ l := by
  unfold alGet at h
  cases hf : l.find? (·.1 == k) with
  | none => simp [hf] at h
  | some kv =>
    simp only [hf, Option.map_some, Option.some.injEq] at h
    have h1 := List.find?_some hf
    have h2 := List.mem_of_find?_eq_some hf
    have : kv.1 = k := by simpa using h1
    obtain ⟨a, b⟩ := kv
    simp only at this h; subst this; subst h; exact h2

end AL

theorem mem_removeFirst {α} [BEq α] (l : List α) (x y : α) (h : y ∈ removeFirst l x) : y ∈ l := by
  induction l with
  | nil => cases h
  | cons a r ih =>
    unfold removeFirst at h
    split at h
    · exact List.mem_cons_of_mem _ h
    · rcases List.mem_cons.mp h with rfl | h'
      · exact List.mem_cons_self
      · exact List.mem_cons_of_mem _ (ih h')

end AkVerif.StickyAlg

namespace AkVerif.StickyAlg
open AkVerif.Assign

/-- "whatever is held / recorded is potential": the invariant behind *nothing else is assigned*.
    `potOf s c` (= `consumer_to_all_potential_partitions[c]`) never changes during `balance`. -/
structure Pot (s : St) : Prop where
  cur_pot : ∀ c ps, alGet s.cur c = some ps → ∀ p ∈ ps, p ∈ potOf s c
  owner_pot : ∀ p c, alGet s.owner p = some c → p ∈ potOf s c
  moves_pot : ∀ p pair, alGet s.moves p = some pair → p ∈ potOf s pair.1
  mbt_pot : ∀ t m pair set, alGet s.movesByTopic t = some m → alGet m pair = some set →
    ∀ q ∈ set, q ∈ potOf s pair.1

theorem mem_curOf (s : St) (h : Pot s) (c : Member) (p : TP) (hp : p ∈ curOf s c) : p ∈ potOf s c := by
  unfold curOf alGetD at hp
  cases hg : alGet s.cur c with
  | none => simp [hg] at hp
  | some ps => simp only [hg, Option.getD_some] at hp; exact h.cur_pot c ps hg p hp

/-- updating only `cur` -/
theorem pot_setCur (s : St) (h : Pot s) (c : Member) (ps : List TP)
    (hps : ∀ p ∈ ps, p ∈ potOf s c) : Pot { s with cur := alSet s.cur c ps } := by
  refine ⟨?_, h.owner_pot, h.moves_pot, h.mbt_pot⟩
  intro c' ps' hg p hp
  show p ∈ potOf s c'
  by_cases hc : (c == c') = true
  · have : c = c' := by simpa using hc
    subst this
    simp only [alGet_alSet_same, Option.some.injEq] at hg
    subst hg; exact hps p hp
  · have hne : (c == c') = false := by simpa using hc
    simp only [alGet_alSet_other _ _ _ _ hne] at hg
    exact h.cur_pot c' ps' hg p hp

theorem pot_setOwner (s : St) (h : Pot s) (p : TP) (c : Member) (hp : p ∈ potOf s c) :
    Pot { s with owner := alSet s.owner p c } := by
  refine ⟨h.cur_pot, ?_, h.moves_pot, h.mbt_pot⟩
  intro p' c' hg
  show p' ∈ potOf s c'
  by_cases hc : (p == p') = true
  · have : p = p' := by simpa using hc
    subst this
    simp only [alGet_alSet_same, Option.some.injEq] at hg
    subst hg; exact hp
  · have hne : (p == p') = false := by simpa using hc
    simp only [alGet_alSet_other _ _ _ _ hne] at hg
    exact h.owner_pot p' c' hg

theorem assignPartition_pot (s : St) (h : Pot s) (p : TP) : Pot (assignPartition s p) := by
  unfold assignPartition
  split
  · exact h
  · rename_i c hc
    have hpot : p ∈ potOf s c := by
      have := List.find?_some hc
      simpa using this
    have h1 := pot_setCur s h c (curOf s c ++ [p]) (by
      intro q hq
      rcases List.mem_append.mp hq with hq | hq
      · exact mem_curOf s h c q hq
      · simp at hq; subst hq; exact hpot)
    exact pot_setOwner _ h1 p c hpot

theorem alGetD_def {α β} [BEq α] (l : List (α × β)) (k : α) (d : β) :
    alGetD l k d = (alGet l k).getD d := rfl

theorem alGet_nil {α β} [BEq α] (k : α) : alGet ([] : List (α × β)) k = none := rfl

/-- a set found through the nested default lookups is a recorded set -/
theorem nested_get (s : St) (t : Topic) (pair : Member × Member) (set : List TP)
    (hm : alGet (alGetD s.movesByTopic t []) pair = some set) :
    ∃ m0, alGet s.movesByTopic t = some m0 ∧ alGet m0 pair = some set := by
  rw [alGetD_def] at hm
  cases hg1 : alGet s.movesByTopic t with
  | none => rw [hg1] at hm; simp [alGet_nil] at hm
  | some m0 => rw [hg1] at hm; exact ⟨m0, rfl, hm⟩

theorem nestedD_mem (s : St) (h : Pot s) (t : Topic) (pair : Member × Member) (q : TP)
    (hq : q ∈ alGetD (alGetD s.movesByTopic t []) pair []) : q ∈ potOf s pair.1 := by
  rw [alGetD_def] at hq
  cases hg : alGet (alGetD s.movesByTopic t []) pair with
  | none => rw [hg] at hq; cases hq
  | some set =>
    rw [hg] at hq
    obtain ⟨m0, h1, h2⟩ := nested_get s t pair set hg
    exact h.mbt_pot t m0 pair set h1 h2 q hq

theorem addMovement_pot (s : St) (h : Pot s) (p : TP) (pair : Member × Member)
    (hp : p ∈ potOf s pair.1) : Pot (addMovement s p pair) := by
  unfold addMovement
  refine ⟨h.cur_pot, h.owner_pot, ?_, ?_⟩
  · intro p' pair' hg
    show p' ∈ potOf s pair'.1
    by_cases hc : (p == p') = true
    · have : p = p' := by simpa using hc
      subst this
      simp only [alGet_alSet_same, Option.some.injEq] at hg
      subst hg; exact hp
    · have hne : (p == p') = false := by simpa using hc
      simp only [alGet_alSet_other _ _ _ _ hne] at hg
      exact h.moves_pot p' pair' hg
  · intro t m pair' set hg hm q hq
    show q ∈ potOf s pair'.1
    by_cases ht : (p.1 == t) = true
    · have : p.1 = t := by simpa using ht
      subst this
      simp only [alGet_alSet_same, Option.some.injEq] at hg
      subst hg
      by_cases hpair : (pair == pair') = true
      · have : pair = pair' := by simpa using hpair
        subst this
        simp only [alGet_alSet_same, Option.some.injEq] at hm
        subst hm
        split at hq
        · exact nestedD_mem s h p.1 pair q hq
        · rcases List.mem_append.mp hq with hq | hq
          · exact nestedD_mem s h p.1 pair q hq
          · simp at hq; subst hq; exact hp
      · have hne : (pair == pair') = false := by simpa using hpair
        simp only [alGet_alSet_other _ _ _ _ hne] at hm
        obtain ⟨m0, h1, h2⟩ := nested_get s p.1 pair' set hm
        exact h.mbt_pot p.1 m0 pair' set h1 h2 q hq
    · have hne : (p.1 == t) = false := by simpa using ht
      simp only [alGet_alSet_other _ _ _ _ hne] at hg
      exact h.mbt_pot t m pair' set hg hm q hq

end AkVerif.StickyAlg

namespace AkVerif.StickyAlg
open AkVerif.Assign

/-- dropping movement records, or changing only bookkeeping fields, keeps `Pot` as long as what
    remains recorded was recorded before -/
theorem pot_of_sub (s s' : St) (h : Pot s)
    (hc2p : s'.c2p = s.c2p) (hcur : s'.cur = s.cur) (hown : s'.owner = s.owner)
    (hmoves : ∀ p pair, alGet s'.moves p = some pair → alGet s.moves p = some pair)
    (hmbt : ∀ t m pair set, alGet s'.movesByTopic t = some m → alGet m pair = some set →
      ∀ q ∈ set, q ∈ potOf s pair.1) : Pot s' := by
  have hp : ∀ c, potOf s' c = potOf s c := by intro c; unfold potOf; rw [hc2p]
  refine ⟨?_, ?_, ?_, ?_⟩
  · intro c ps hg p hpm; rw [hp]; rw [hcur] at hg; exact h.cur_pot c ps hg p hpm
  · intro p c hg; rw [hp]; rw [hown] at hg; exact h.owner_pot p c hg
  · intro p pair hg; rw [hp]; exact h.moves_pot p pair (hmoves p pair hg)
  · intro t m pair set hg hm q hq; rw [hp]; exact hmbt t m pair set hg hm q hq

theorem pot_setFailed (s : St) (h : Pot s) (e : Option String) : Pot { s with failed := e } :=
  ⟨h.cur_pot, h.owner_pot, h.moves_pot, h.mbt_pot⟩

theorem removeMovement_pot (s : St) (h : Pot s) (p : TP) : Pot (removeMovement s p).1 := by
  unfold removeMovement
  split
  · exact pot_setFailed s h _
  · rename_i pair hpair
    dsimp only
    refine pot_of_sub s _ h ?_ ?_ ?_ ?_ ?_
    · rfl
    · rfl
    · rfl
    · intro p' pair' hg
      simp only at hg
      by_cases hc : (p == p') = true
      · have : p = p' := by simpa using hc
        subst this; rw [alGet_alDel_same] at hg; cases hg
      · have hne : (p == p') = false := by simpa using hc
        rw [alGet_alDel_other _ _ _ hne] at hg; exact hg
    · intro t m pair' set hg hm q hq
      simp only at hg
      -- every set reachable in the new table is a subset of a set reachable in the old one
      have old_sets : ∀ pr st, alGet (alGetD s.movesByTopic p.1 []) pr = some st → ∀ x ∈ st, x ∈ potOf s pr.1 := by
        intro pr st hst x hx
        obtain ⟨m0, h1, h2⟩ := nested_get s p.1 pr st hst
        exact h.mbt_pot p.1 m0 pr st h1 h2 x hx
      have new_m : ∀ pr st,
          alGet (if (removeFirst (alGetD (alGetD s.movesByTopic p.1 []) pair []) p).isEmpty
                 then alDel (alGetD s.movesByTopic p.1 []) pair
                 else alSet (alGetD s.movesByTopic p.1 []) pair
                        (removeFirst (alGetD (alGetD s.movesByTopic p.1 []) pair []) p)) pr = some st →
          ∀ x ∈ st, x ∈ potOf s pr.1 := by
        intro pr st hst x hx
        split at hst
        · by_cases hpp : (pair == pr) = true
          · have : pair = pr := by simpa using hpp
            subst this; rw [alGet_alDel_same] at hst; cases hst
          · have hne : (pair == pr) = false := by simpa using hpp
            rw [alGet_alDel_other _ _ _ hne] at hst
            exact old_sets pr st hst x hx
        · by_cases hpp : (pair == pr) = true
          · have : pair = pr := by simpa using hpp
            subst this
            rw [alGet_alSet_same] at hst
            injection hst with hst; subst hst
            exact nestedD_mem s h p.1 pair x (mem_removeFirst _ _ _ hx)
          · have hne : (pair == pr) = false := by simpa using hpp
            rw [alGet_alSet_other _ _ _ _ hne] at hst
            exact old_sets pr st hst x hx
      generalize hm' : (if (removeFirst (alGetD (alGetD s.movesByTopic p.1 []) pair []) p).isEmpty
                 then alDel (alGetD s.movesByTopic p.1 []) pair
                 else alSet (alGetD s.movesByTopic p.1 []) pair
                        (removeFirst (alGetD (alGetD s.movesByTopic p.1 []) pair []) p)) = m' at hg new_m
      split at hg
      · by_cases ht : (p.1 == t) = true
        · have : p.1 = t := by simpa using ht
          subst this; rw [alGet_alDel_same] at hg; cases hg
        · have hne : (p.1 == t) = false := by simpa using ht
          rw [alGet_alDel_other _ _ _ hne] at hg
          exact h.mbt_pot t m pair' set hg hm q hq
      · by_cases ht : (p.1 == t) = true
        · have : p.1 = t := by simpa using ht
          subst this
          rw [alGet_alSet_same] at hg
          injection hg with hg; subst hg
          exact new_m pair' set hm q hq
        · have hne : (p.1 == t) = false := by simpa using ht
          rw [alGet_alSet_other _ _ _ _ hne] at hg
          exact h.mbt_pot t m pair' set hg hm q hq

theorem removeMovement_c2p (s : St) (p : TP) : (removeMovement s p).1.c2p = s.c2p := by
  unfold removeMovement; split <;> rfl

theorem removeMovement_pair (s : St) (p : TP) (pair : Member × Member)
    (h : (removeMovement s p).2 = some pair) : alGet s.moves p = some pair := by
  unfold removeMovement at h
  split at h
  · cases h
  · rename_i pr hpr; simp only [Option.some.injEq] at h; subst h; exact hpr

theorem movePartitionRecord_pot (s : St) (h : Pot s) (p : TP) (old new : Member)
    (hold : p ∈ potOf s old) : Pot (movePartitionRecord s p old new) := by
  unfold movePartitionRecord
  split
  · cases hr : removeMovement s p with
    | mk s1 o =>
      have h1 : Pot s1 := by have := removeMovement_pot s h p; rw [hr] at this; exact this
      have hc : s1.c2p = s.c2p := by have := removeMovement_c2p s p; rw [hr] at this; exact this
      cases o with
      | none => exact h1
      | some existing =>
        have hex : alGet s.moves p = some existing := by
          apply removeMovement_pair s p existing; rw [hr]
        have hpe : p ∈ potOf s existing.1 := h.moves_pot p existing hex
        simp only
        have h2 : Pot (if (existing.2 != old) = true then { s1 with failed := some "AssertionError:movement-dst" } else s1) := by
          split
          · exact pot_setFailed s1 h1 _
          · exact h1
        split
        · apply addMovement_pot _ h2
          show p ∈ potOf _ existing.1
          have : ∀ c, potOf (if (existing.2 != old) = true then { s1 with failed := some "AssertionError:movement-dst" } else s1) c = potOf s c := by
            intro c; unfold potOf; split <;> simp [hc]
          rw [this]; exact hpe
        · exact h2
  · exact addMovement_pot s h p (old, new) hold

end AkVerif.StickyAlg

namespace AkVerif.StickyAlg
open AkVerif.Assign

/-- states that differ only in bookkeeping flags (oracle, failure marks) -/
def SameCore (s s' : St) : Prop :=
  s'.cur = s.cur ∧ s'.owner = s.owner ∧ s'.c2p = s.c2p ∧ s'.moves = s.moves ∧
  s'.movesByTopic = s.movesByTopic ∧ s'.subs = s.subs ∧ s'.p2c = s.p2c ∧ s'.members = s.members

theorem pot_sameCore (s s' : St) (h : Pot s) (hc : SameCore s s') : Pot s' := by
  obtain ⟨h1, h2, h3, h4, h5, _, _, _⟩ := hc
  have hp : ∀ c, potOf s' c = potOf s c := by intro c; unfold potOf; rw [h3]
  refine ⟨?_, ?_, ?_, ?_⟩
  · intro c ps hg p hpm; rw [hp]; rw [h1] at hg; exact h.cur_pot c ps hg p hpm
  · intro p c hg; rw [hp]; rw [h2] at hg; exact h.owner_pot p c hg
  · intro p pair hg; rw [hp]; rw [h4] at hg; exact h.moves_pot p pair hg
  · intro t m pair set hg hm q hq; rw [hp]; rw [h5] at hg; exact h.mbt_pot t m pair set hg hm q hq

theorem potOf_sameCore (s s' : St) (hc : SameCore s s') (c : Member) : potOf s' c = potOf s c := by
  unfold potOf; rw [hc.2.2.1]

theorem SameCore.refl (s : St) : SameCore s s := ⟨rfl, rfl, rfl, rfl, rfl, rfl, rfl, rfl⟩

theorem partitionToBeMoved_spec (s : St) (h : Pot s) (p : TP) (old new : Member)
    (hp : p ∈ potOf s new) :
    SameCore s (partitionToBeMoved s p old new).1 ∧ (partitionToBeMoved s p old new).2 ∈ potOf s new := by
  unfold partitionToBeMoved
  split
  · exact ⟨SameCore.refl s, hp⟩
  · -- the (possibly failure-marked) state and the adjusted old consumer
    cases hmv : alGet s.moves p with
    | none =>
      simp only
      cases hset : mbtGet s p.1 (new, old) with
      | none => exact ⟨SameCore.refl s, hp⟩
      | some set =>
        have hsetpot : ∀ q ∈ set, q ∈ potOf s new := by
          intro q hq
          unfold mbtGet at hset
          cases hg : alGet s.movesByTopic p.1 with
          | none => simp [hg] at hset
          | some m0 =>
            simp only [hg, Option.bind_some] at hset
            exact h.mbt_pot p.1 m0 (new, old) set hg hset q hq
        have hhd : set.headD p ∈ potOf s new := by
          cases set with
          | nil => exact hp
          | cons a r => exact hsetpot a List.mem_cons_self
        simp only
        cases ho : s.oracle with
        | nil => exact ⟨⟨rfl, rfl, rfl, rfl, rfl, rfl, rfl, rfl⟩, hhd⟩
        | cons o rest =>
          simp only
          split
          · rename_i hc
            exact ⟨⟨rfl, rfl, rfl, rfl, rfl, rfl, rfl, rfl⟩, hsetpot o (by simpa using hc)⟩
          · exact ⟨⟨rfl, rfl, rfl, rfl, rfl, rfl, rfl, rfl⟩, hhd⟩
    | some pair =>
      simp only
      -- name the intermediate state
      generalize hs1 : (if (pair.2 != old) = true then { s with failed := some "AssertionError:moved-dst" } else s) = s1
      have hcore : SameCore s s1 := by
        rw [← hs1]; split
        · exact ⟨rfl, rfl, rfl, rfl, rfl, rfl, rfl, rfl⟩
        · exact SameCore.refl s
      have hmbt : mbtGet s1 p.1 (new, pair.1) = mbtGet s p.1 (new, pair.1) := by
        unfold mbtGet; rw [hcore.2.2.2.2.1]
      cases hset : mbtGet s1 p.1 (new, pair.1) with
      | none => exact ⟨hcore, hp⟩
      | some set =>
        rw [hmbt] at hset
        have hsetpot : ∀ q ∈ set, q ∈ potOf s new := by
          intro q hq
          unfold mbtGet at hset
          cases hg : alGet s.movesByTopic p.1 with
          | none => simp [hg] at hset
          | some m0 =>
            simp only [hg, Option.bind_some] at hset
            exact h.mbt_pot p.1 m0 (new, pair.1) set hg hset q hq
        have hhd : set.headD p ∈ potOf s new := by
          cases set with
          | nil => exact hp
          | cons a r => exact hsetpot a List.mem_cons_self
        have core' : ∀ (o : List TP) (b : Bool), SameCore s { s1 with oracle := o, badOracle := b } := by
          intro o b
          obtain ⟨a1, a2, a3, a4, a5, a6, a7, a8⟩ := hcore
          exact ⟨a1, a2, a3, a4, a5, a6, a7, a8⟩
        simp only
        cases ho : s1.oracle with
        | nil =>
          simp only
          obtain ⟨a1, a2, a3, a4, a5, a6, a7, a8⟩ := hcore
          exact ⟨⟨a1, a2, a3, a4, a5, a6, a7, a8⟩, hhd⟩
        | cons o rest =>
          simp only
          split
          · rename_i hc
            exact ⟨core' _ _, hsetpot o (by simpa using hc)⟩
          · exact ⟨core' _ _, hhd⟩

end AkVerif.StickyAlg

namespace AkVerif.StickyAlg
open AkVerif.Assign

theorem movePartitionRecord_c2p (s : St) (p : TP) (old new : Member) :
    (movePartitionRecord s p old new).c2p = s.c2p := by
  unfold movePartitionRecord
  split
  · cases hr : removeMovement s p with
    | mk s1 o =>
      have hc : s1.c2p = s.c2p := by have := removeMovement_c2p s p; rw [hr] at this; exact this
      cases o with
      | none => exact hc
      | some existing =>
        simp only
        split
        · unfold addMovement; simp only; split <;> exact hc
        · split <;> exact hc
  · unfold addMovement; rfl

theorem movePartition_pot (s : St) (h : Pot s) (q : TP) (new : Member) (hq : q ∈ potOf s new) :
    Pot (movePartition s q new) := by
  unfold movePartition
  split
  · exact pot_setFailed s h _
  · rename_i old hold
    split
    · exact pot_setFailed s h _
    · have hqold : q ∈ potOf s old := h.owner_pot q old hold
      have h1 := movePartitionRecord_pot s h q old new hqold
      have hc := movePartitionRecord_c2p s q old new
      generalize movePartitionRecord s q old new = s1 at h1 hc
      have hp : ∀ c, potOf s1 c = potOf s c := by intro c; unfold potOf; rw [hc]
      simp only
      -- cur[old] := cur[old] − q
      have h2 := pot_setCur s1 h1 old (removeFirst (curOf s1 old) q) (by
        intro x hx; exact mem_curOf s1 h1 old x (mem_removeFirst _ _ _ hx))
      -- cur[new] := cur[new] ++ [q]
      have h3 := pot_setCur _ h2 new
        (alGetD (alSet s1.cur old (removeFirst (curOf s1 old) q)) new [] ++ [q]) (by
          intro x hx
          rcases List.mem_append.mp hx with hx | hx
          · exact mem_curOf _ h2 new x hx
          · simp at hx; rw [hx]; show q ∈ potOf s1 new; rw [hp]; exact hq)
      have h4 := pot_setOwner _ h3 q new (by show q ∈ potOf s1 new; rw [hp]; exact hq)
      exact h4

theorem movePartition_c2p (s : St) (q : TP) (new : Member) : (movePartition s q new).c2p = s.c2p := by
  unfold movePartition
  split
  · rfl
  · split
    · rfl
    · exact movePartitionRecord_c2p s q _ new

theorem reassignPartition_pot (s : St) (h : Pot s) (p : TP) : Pot (reassignPartition s p) := by
  unfold reassignPartition
  split
  · exact pot_setFailed s h _
  · rename_i new hnew
    have hpnew : p ∈ potOf s new := by
      have := List.find?_some hnew; simpa using this
    split
    · exact pot_setFailed s h _
    · rename_i consumer _
      have hspec := partitionToBeMoved_spec s h p consumer new hpnew
      cases hr : partitionToBeMoved s p consumer new with
      | mk s1 q =>
        rw [hr] at hspec
        simp only
        have h1 : Pot s1 := pot_sameCore s s1 h hspec.1
        exact movePartition_pot s1 h1 q new (by rw [potOf_sameCore s s1 hspec.1]; exact hspec.2)

theorem reassignPartition_c2p (s : St) (h : Pot s) (p : TP) : (reassignPartition s p).c2p = s.c2p := by
  unfold reassignPartition
  split
  · rfl
  · rename_i new hnew
    have hpnew : p ∈ potOf s new := by
      have := List.find?_some hnew; simpa using this
    split
    · rfl
    · rename_i consumer _
      have hspec := partitionToBeMoved_spec s h p consumer new hpnew
      cases hr : partitionToBeMoved s p consumer new with
      | mk s1 q =>
        rw [hr] at hspec
        simp only
        rw [movePartition_c2p]
        exact hspec.1.2.2.1

end AkVerif.StickyAlg

namespace AkVerif.StickyAlg
open AkVerif.Assign

theorem reassignPass_pot (ps : List TP) : ∀ (s : St) (m : Bool), Pot s →
    Pot (reassignPass s ps m).1 ∧ (reassignPass s ps m).1.c2p = s.c2p := by
  induction ps with
  | nil => intro s m h; exact ⟨h, rfl⟩
  | cons p rest ih =>
    intro s m h
    unfold reassignPass
    split
    · exact ⟨h, rfl⟩
    · split
      · exact ⟨h, rfl⟩
      · split
        · exact ih s m h
        · split
          · have h1 := reassignPartition_pot s h p
            have hc := reassignPartition_c2p s h p
            have := ih (reassignPartition s p) true h1
            exact ⟨this.1, by rw [this.2, hc]⟩
          · exact ih s m h

theorem performReassignments_pot (fuel : Nat) : ∀ (s : St) (ps : List TP) (b : Bool) (r : St × Bool),
    Pot s → performReassignments fuel s ps b = some r → Pot r.1 ∧ r.1.c2p = s.c2p := by
  induction fuel with
  | zero => intro s ps b r _ h; simp [performReassignments] at h
  | succ n ih =>
    intro s ps b r hp h
    unfold performReassignments at h
    have hpass := reassignPass_pot ps s false hp
    cases hr : reassignPass s ps false with
    | mk s' modified =>
      rw [hr] at hpass h
      simp only at h hpass
      split at h
      · injection h with h; subst h; exact hpass
      · split at h
        · have := ih s' ps true r hpass.1 h
          exact ⟨this.1, by rw [this.2, hpass.2]⟩
        · injection h with h; subst h; exact hpass

end AkVerif.StickyAlg

namespace AkVerif.StickyAlg
open AkVerif.Assign

def CurOk (c2p : List (Member × List TP)) (cur : List (Member × List TP)) : Prop :=
  ∀ c ps, alGet cur c = some ps → ∀ p ∈ ps, p ∈ alGetD c2p c []
def OwnOk (c2p : List (Member × List TP)) (owner : List (TP × Member)) : Prop :=
  ∀ p c, alGet owner p = some c → p ∈ alGetD c2p c []

theorem pot_curOk (s : St) (h : Pot s) : CurOk s.c2p s.cur := h.cur_pot
theorem pot_ownOk (s : St) (h : Pot s) : OwnOk s.c2p s.owner := h.owner_pot

theorem pot_replaceCurOwner (s : St) (h : Pot s) (cur : List (Member × List TP)) (owner : List (TP × Member))
    (hc : CurOk s.c2p cur) (ho : OwnOk s.c2p owner) : Pot { s with cur := cur, owner := owner } :=
  ⟨hc, ho, h.moves_pot, h.mbt_pot⟩

theorem pot_setSubs (s : St) (h : Pot s) (l : List Member) : Pot { s with subs := l } :=
  ⟨h.cur_pot, h.owner_pot, h.moves_pot, h.mbt_pot⟩

theorem assignPartition_c2p (s : St) (p : TP) : (assignPartition s p).c2p = s.c2p := by
  unfold assignPartition; split <;> rfl

theorem assignFold_pot (ps : List TP) : ∀ s : St, Pot s →
    Pot (ps.foldl (fun s p => if (consumersOf s p).isEmpty then s else assignPartition s p) s) ∧
    (ps.foldl (fun s p => if (consumersOf s p).isEmpty then s else assignPartition s p) s).c2p = s.c2p := by
  induction ps with
  | nil => intro s h; exact ⟨h, rfl⟩
  | cons p rest ih =>
    intro s h
    simp only [List.foldl_cons]
    split
    · exact ih s h
    · have := ih (assignPartition s p) (assignPartition_pot s h p)
      exact ⟨this.1, by rw [this.2, assignPartition_c2p]⟩

theorem curOk_alDel (c2p cur) (c : Member) (h : CurOk c2p cur) : CurOk c2p (alDel cur c) := by
  intro c' ps hg p hp
  by_cases hc : (c == c') = true
  · have : c = c' := by simpa using hc
    subst this; rw [alGet_alDel_same] at hg; cases hg
  · have hne : (c == c') = false := by simpa using hc
    rw [alGet_alDel_other _ _ _ hne] at hg; exact h c' ps hg p hp

theorem curOk_alSet (c2p cur) (c : Member) (ps : List TP) (h : CurOk c2p cur)
    (hps : ∀ p ∈ ps, p ∈ alGetD c2p c []) : CurOk c2p (alSet cur c ps) := by
  intro c' ps' hg p hp
  by_cases hc : (c == c') = true
  · have : c = c' := by simpa using hc
    subst this; rw [alGet_alSet_same] at hg; injection hg with hg; subst hg; exact hps p hp
  · have hne : (c == c') = false := by simpa using hc
    rw [alGet_alSet_other _ _ _ _ hne] at hg; exact h c' ps' hg p hp

/-- the loop that sets aside the consumers that cannot take part in the reassignment -/
theorem fixedFold_pot (cs : List Member) : ∀ (s : St) (fx : List (Member × List TP)), Pot s →
    (∀ cp ∈ fx, ∀ p ∈ cp.2, p ∈ alGetD s.c2p cp.1 []) →
    let r := cs.foldl (fun (acc : St × List (Member × List TP)) c =>
        if !canConsumerParticipate acc.1 c then
          ({ acc.1 with subs := removeFirst acc.1.subs c, cur := alDel acc.1.cur c }, acc.2 ++ [(c, curOf acc.1 c)])
        else acc) (s, fx)
    Pot r.1 ∧ r.1.c2p = s.c2p ∧ (∀ cp ∈ r.2, ∀ p ∈ cp.2, p ∈ alGetD s.c2p cp.1 []) := by
  induction cs with
  | nil => intro s fx h hfx; exact ⟨h, rfl, hfx⟩
  | cons c rest ih =>
    intro s fx h hfx
    simp only [List.foldl_cons]
    split
    · have h1 : Pot { s with subs := removeFirst s.subs c, cur := alDel s.cur c } :=
        ⟨curOk_alDel s.c2p s.cur c h.cur_pot, h.owner_pot, h.moves_pot, h.mbt_pot⟩
      have hfx' : ∀ cp ∈ fx ++ [(c, curOf s c)], ∀ p ∈ cp.2, p ∈ alGetD s.c2p cp.1 [] := by
        intro cp hcp p hp
        rcases List.mem_append.mp hcp with hcp | hcp
        · exact hfx cp hcp p hp
        · simp at hcp; subst hcp; exact mem_curOf s h c p hp
      exact ih _ _ h1 hfx'
    · exact ih s fx h hfx

theorem addFixed_pot (fx : List (Member × List TP)) : ∀ s : St, Pot s →
    (∀ cp ∈ fx, ∀ p ∈ cp.2, p ∈ alGetD s.c2p cp.1 []) →
    Pot (fx.foldl (fun s cp => { s with cur := alSet s.cur cp.1 cp.2, subs := s.subs ++ [cp.1] }) s) := by
  induction fx with
  | nil => intro s h _; exact h
  | cons cp rest ih =>
    intro s h hfx
    simp only [List.foldl_cons]
    apply ih
    · exact ⟨curOk_alSet s.c2p s.cur cp.1 cp.2 h.cur_pot (hfx cp List.mem_cons_self),
        h.owner_pot, h.moves_pot, h.mbt_pot⟩
    · intro cp' hcp'; exact hfx cp' (List.mem_cons_of_mem _ hcp')

end AkVerif.StickyAlg

namespace AkVerif.StickyAlg
open AkVerif.Assign

theorem assignUnassigned_pot (s : St) (h : Pot s) :
    Pot (assignUnassigned s) ∧ (assignUnassigned s).c2p = s.c2p := by
  unfold assignUnassigned
  have ha := assignFold_pot s.unassigned s h
  exact ⟨⟨ha.1.cur_pot, ha.1.owner_pot, ha.1.moves_pot, ha.1.mbt_pot⟩, ha.2⟩

theorem setAsideFixed_pot (s : St) (h : Pot s) :
    Pot (setAsideFixed s).1 ∧ (setAsideFixed s).1.c2p = s.c2p ∧
    (∀ cp ∈ (setAsideFixed s).2, ∀ p ∈ cp.2, p ∈ alGetD s.c2p cp.1 []) := by
  unfold setAsideFixed
  exact fixedFold_pot (s.c2p.map (·.1)) s [] h (by intro cp hcp; cases hcp)

theorem reassignBoth_pot (fuel : Nat) (s : St) (r : St × Bool) (h : Pot s)
    (hr : reassignBoth fuel s = some r) : Pot r.1 ∧ r.1.c2p = s.c2p := by
  unfold reassignBoth at hr
  have r1ok : ∀ r1, (if !s.revocation then performReassignments fuel s s.unassigned false else some (s, false)) = some r1 →
      Pot r1.1 ∧ r1.1.c2p = s.c2p := by
    intro r1 h1
    split at h1
    · exact performReassignments_pot fuel s _ false r1 h h1
    · injection h1 with h1; subst h1; exact ⟨h, rfl⟩
  cases h1 : (if !s.revocation then performReassignments fuel s s.unassigned false else some (s, false)) with
  | none => rw [h1] at hr; cases hr
  | some r1 =>
    rw [h1] at hr
    obtain ⟨s1, b1⟩ := r1
    have hs1 := r1ok (s1, b1) h1
    simp only at hr hs1
    split at hr
    · injection hr with hr; subst hr; exact hs1
    · have := performReassignments_pot fuel s1 _ false r hs1.1 hr
      exact ⟨this.1, by rw [this.2, hs1.2]⟩

theorem addFixed_c2p (fx : List (Member × List TP)) : ∀ t : St,
    (fx.foldl (fun s cp => { s with cur := alSet s.cur cp.1 cp.2, subs := s.subs ++ [cp.1] }) t).c2p = t.c2p := by
  induction fx with
  | nil => intro t; rfl
  | cons a r ih => intro t; simp only [List.foldl_cons]; rw [ih]

theorem finishBalance_pot (ini : Bool) (preCur : List (Member × List TP)) (preOwner : List (TP × Member))
    (fx : List (Member × List TP)) (s : St) (performed : Bool) (h : Pot s)
    (hc : CurOk s.c2p preCur) (ho : OwnOk s.c2p preOwner)
    (hfx : ∀ cp ∈ fx, ∀ p ∈ cp.2, p ∈ alGetD s.c2p cp.1 []) :
    Pot (finishBalance ini preCur preOwner fx s performed) ∧
    (finishBalance ini preCur preOwner fx s performed).c2p = s.c2p := by
  unfold finishBalance
  split
  · exact ⟨h, rfl⟩
  · simp only
    have hrev : Pot (if (!ini && performed && decide (balanceScore s.cur ≥ balanceScore preCur)) = true
        then { s with cur := preCur, owner := preOwner } else s) := by
      split
      · exact pot_replaceCurOwner s h preCur preOwner hc ho
      · exact h
    have hcrev : (if (!ini && performed && decide (balanceScore s.cur ≥ balanceScore preCur)) = true
        then { s with cur := preCur, owner := preOwner } else s).c2p = s.c2p := by
      split <;> rfl
    generalize (if (!ini && performed && decide (balanceScore s.cur ≥ balanceScore preCur)) = true
        then { s with cur := preCur, owner := preOwner } else s) = s5 at hrev hcrev
    refine ⟨addFixed_pot fx s5 hrev ?_, ?_⟩
    · intro cp hcp p hp; rw [hcrev]; exact hfx cp hcp p hp
    · rw [addFixed_c2p]; exact hcrev

theorem balance_pot (fuel : Nat) (s s' : St) (h : Pot s) (hb : balance fuel s = some s') :
    Pot s' ∧ s'.c2p = s.c2p := by
  unfold balance at hb
  simp only at hb
  split at hb
  · injection hb with hb; subst hb
    exact ⟨⟨h.cur_pot, h.owner_pot, h.moves_pot, h.mbt_pot⟩, rfl⟩
  · have h0 : Pot { s with subs := s.cur.map (·.1) } := pot_setSubs s h _
    have ha := assignUnassigned_pot _ h0
    have hf := setAsideFixed_pot _ ha.1
    cases hsa : setAsideFixed (assignUnassigned { s with subs := s.cur.map (·.1) }) with
    | mk s2 fixedAsg =>
      rw [hsa] at hb hf
      simp only at hb hf
      cases hrb : reassignBoth fuel s2 with
      | none => rw [hrb] at hb; cases hb
      | some r =>
        rw [hrb] at hb
        obtain ⟨s4, performed⟩ := r
        simp only at hb
        injection hb with hb
        have h4 := reassignBoth_pot fuel s2 (s4, performed) hf.1 hrb
        simp only at h4
        have hc2 : s2.c2p = s.c2p := by rw [hf.2.1, ha.2]
        rw [← hb]
        have := fun ini => finishBalance_pot ini s2.cur s2.owner fixedAsg s4 performed h4.1
          (by rw [h4.2]; exact hf.1.cur_pot) (by rw [h4.2]; exact hf.1.owner_pot)
          (by intro cp hcp p hp; rw [h4.2, hf.2.1]; exact hf.2.2 cp hcp p hp)
        exact ⟨(this _).1, by rw [(this _).2, h4.2, hc2]⟩

end AkVerif.StickyAlg

namespace AkVerif.StickyAlg
open AkVerif.Assign

/-! ### the state handed to `balance` satisfies `Pot` -/

theorem populate_pot (s : St)
    (H1 : ∀ c p, keepFor s c p = true → p ∈ potOf s c)
    (H2 : ∀ pc ∈ s.owner, ∃ ps, (pc.2, ps) ∈ s.cur ∧ pc.1 ∈ ps)
    (H3 : s.moves = [] ∧ s.movesByTopic = []) : Pot (populatePartitionsToReassign s) := by
  unfold populatePartitionsToReassign
  refine ⟨?_, ?_, ?_, ?_⟩
  · intro c ps' hg p hp
    show p ∈ potOf s c
    have hm := alGet_mem _ _ _ hg
    simp only [List.mem_map] at hm
    obtain ⟨cp, _, heq⟩ := hm
    injection heq with h1 h2
    subst h1; subst h2
    exact H1 cp.1 p (List.mem_filter.mp hp).2
  · intro p c hg
    show p ∈ potOf s c
    have hm := alGet_mem _ _ _ hg
    obtain ⟨hmem, hnot⟩ := List.mem_filter.mp hm
    obtain ⟨ps, hcur, hps⟩ := H2 (p, c) hmem
    simp only at hcur hps hnot
    apply H1
    cases hk : keepFor s c p with
    | true => rfl
    | false =>
      exfalso
      have : p ∈ (s.cur.flatMap (fun cp => cp.2.filter (fun p => !keepFor s cp.1 p))) :=
        List.mem_flatMap.mpr ⟨(c, ps), hcur, List.mem_filter.mpr ⟨hps, by simp [hk]⟩⟩
      simp [List.contains_iff_mem, this] at hnot
  · intro p pair hg
    simp only [H3.1] at hg
    cases hg
  · intro t m pair set hg
    simp only [H3.2] at hg
    cases hg

theorem populateSorted_fields (s : St) :
    (populateSortedPartitions s).cur = s.cur ∧ (populateSortedPartitions s).owner = s.owner ∧
    (populateSortedPartitions s).c2p = s.c2p ∧ (populateSortedPartitions s).p2c = s.p2c ∧
    (populateSortedPartitions s).members = s.members ∧ (populateSortedPartitions s).moves = s.moves ∧
    (populateSortedPartitions s).movesByTopic = s.movesByTopic := by
  unfold populateSortedPartitions
  split <;> exact ⟨rfl, rfl, rfl, rfl, rfl, rfl, rfl⟩

theorem alGet_of_mem_nodup {α β : Type} [BEq α] [LawfulBEq α] (l : List (α × β)) (k : α) (v : β)
    (hn : (l.map (·.1)).Nodup) (hm : (k, v) ∈ l) : alGet l k = some v := by
  induction l with
  | nil => cases hm
  | cons x xs ih =>
    obtain ⟨k0, v0⟩ := x
    simp only [List.map_cons, List.nodup_cons] at hn
    rw [alGet_cons]
    rcases List.mem_cons.mp hm with heq | hm'
    · injection heq with h1 h2; subst h1; subst h2; simp
    · have hne : (k0 == k) = false := by
        apply Bool.eq_false_iff.mpr
        intro hk
        have : k0 = k := by simpa using hk
        subst this
        exact hn.1 (List.mem_map.mpr ⟨(k0, v), hm', rfl⟩)
      simp only [hne, Bool.false_eq_true, if_false]
      exact ih hn.2 hm'

theorem initState_c2p (parts : List (Topic × List Nat)) (members : List MemberIn) (oracle : List TP) :
    (initState parts members oracle).c2p = members.map (fun m => (m.id, potentialOf parts m)) := by
  unfold initState; rfl

theorem alGet_map_find (members : List MemberIn) (f : MemberIn → List TP) (c : Member) :
    alGet (members.map (fun m => (m.id, f m))) c = (members.find? (·.id == c)).map f := by
  induction members with
  | nil => rfl
  | cons m r ih =>
    simp only [List.map_cons, alGet_cons, List.find?_cons]
    by_cases h : (m.id == c) = true
    · simp [h]
    · simp [h, ih]

theorem mem_isort_iff (l : List Nat) (a : Nat) : a ∈ isort l ↔ a ∈ l := by
  show a ∈ isortK id l ↔ a ∈ l
  induction l with
  | nil => simp [isortK]
  | cons x r ih =>
    show a ∈ insertK id x (isortK id r) ↔ _
    have : ∀ (l : List Nat), a ∈ insertK id x l ↔ a = x ∨ a ∈ l := by
      intro l
      induction l with
      | nil => simp [insertK]
      | cons y ys ih2 =>
        unfold insertK
        split
        · simp
        · simp only [List.mem_cons, ih2]
          constructor
          · rintro (h | h | h) <;> simp [h]
          · rintro (h | h | h) <;> simp [h]
    rw [this, ih]; simp

theorem initState_pot (parts : List (Topic × List Nat)) (members : List MemberIn) (oracle : List TP)
    (hparts : (parts.map (·.1)).Nodup) :
    Pot (populatePartitionsToReassign (populateSortedPartitions (initState parts members oracle))) := by
  have hf := populateSorted_fields (initState parts members oracle)
  obtain ⟨f1, f2, f3, f4, f5, f6, f7⟩ := hf
  apply populate_pot
  · -- H1
    intro c p hk
    unfold keepFor at hk
    simp only [Bool.and_eq_true] at hk
    obtain ⟨hp2c, hsub⟩ := hk
    unfold potOf alGetD
    rw [f3, initState_c2p, alGet_map_find]
    unfold subscriptionOf at hsub
    rw [f5] at hsub
    have hmem : (initState parts members oracle).members = members := rfl
    rw [hmem] at hsub
    cases hfind : members.find? (·.id == c) with
    | none => simp [hfind] at hsub
    | some m =>
      simp only [hfind, Option.map_some, Option.getD_some] at hsub ⊢
      -- p is a partition listed in the metadata
      rw [f4] at hp2c
      have hp : p ∈ parts.flatMap (fun tps => tps.2.map (fun q => (tps.1, q))) := by
        have := (alHas_iff _ _).mp hp2c
        obtain ⟨v, hv⟩ := this
        have hm := alGet_mem _ _ _ hv
        unfold initState at hm
        simp only [List.mem_map] at hm
        obtain ⟨tp, htp, heq⟩ := hm
        injection heq with h1 _
        rw [← h1]; exact (List.mem_filter.mp htp).1
      obtain ⟨tps, htps, hq⟩ := List.mem_flatMap.mp hp
      obtain ⟨q, hq1, hq2⟩ := List.mem_map.mp hq
      unfold potentialOf
      apply List.mem_flatMap.mpr
      refine ⟨p.1, (mem_isort_iff _ _).mpr (by simpa using hsub), ?_⟩
      have hget : alGet parts tps.1 = some tps.2 := alGet_of_mem_nodup parts tps.1 tps.2 hparts htps
      rw [← hq2]
      simp only [hget]
      exact List.mem_map.mpr ⟨q, hq1, rfl⟩
  · -- H2
    intro pc hpc
    rw [f2] at hpc
    rw [f1]
    unfold initState at hpc ⊢
    simp only at hpc ⊢
    obtain ⟨cp, hcp, hmem⟩ := List.mem_flatMap.mp hpc
    obtain ⟨p, hp, heq⟩ := List.mem_map.mp hmem
    subst heq
    refine ⟨cp.2, ?_, hp⟩
    -- adding empty entries for the remaining members keeps the existing ones
    have keep : ∀ (ms : List MemberIn) (cur : List (Member × List TP)), (cp.1, cp.2) ∈ cur →
        (cp.1, cp.2) ∈ ms.foldl (fun cur m => if alHas cur m.id then cur else cur ++ [(m.id, [])]) cur := by
      intro ms
      induction ms with
      | nil => intro cur h; exact h
      | cons m r ih =>
        intro cur h
        simp only [List.foldl_cons]
        apply ih
        split
        · exact h
        · exact List.mem_append_left _ h
    exact keep members _ hcp
  · exact ⟨by rw [f6]; rfl, by rw [f7]; rfl⟩

end AkVerif.StickyAlg

namespace AkVerif.StickyAlg
open AkVerif.Assign

theorem mem_insertSorted (t : Topic) (ps : List Nat) (acc : List (Topic × List Nat)) (x : Topic × List Nat)
    (h : x ∈ insertSorted t ps acc) : x = (t, ps) ∨ x ∈ acc := by
  induction acc with
  | nil => simp [insertSorted] at h; exact Or.inl h
  | cons a r ih =>
    obtain ⟨t', ps'⟩ := a
    unfold insertSorted at h
    split at h
    · rcases List.mem_cons.mp h with h | h
      · exact Or.inl h
      · exact Or.inr h
    · split at h
      · rcases List.mem_cons.mp h with h | h
        · exact Or.inl h
        · exact Or.inr (List.mem_cons_of_mem _ h)
      · rcases List.mem_cons.mp h with h | h
        · exact Or.inr (h ▸ List.mem_cons_self)
        · rcases ih h with h | h
          · exact Or.inl h
          · exact Or.inr (List.mem_cons_of_mem _ h)

/-- every `(topic, partitions)` item of the final answer lists only partitions the consumer holds -/
theorem finalFor_sound (l : List TP) : ∀ (acc : List (Topic × List Nat)) (held : List TP),
    (∀ x ∈ acc, ∀ k ∈ x.2, (x.1, k) ∈ held) → (∀ p ∈ l, p ∈ held) →
    ∀ x ∈ l.foldl (fun acc p =>
        match acc.find? (·.1 == p.1) with
        | some (_, ps) => insertSorted p.1 (isort (ps ++ [p.2])) acc
        | none => insertSorted p.1 [p.2] acc) acc,
      ∀ k ∈ x.2, (x.1, k) ∈ held := by
  induction l with
  | nil => intro acc held hacc _ x hx; exact hacc x hx
  | cons p rest ih =>
    intro acc held hacc hl
    simp only [List.foldl_cons]
    apply ih
    · intro x hx k hk
      split at hx
      · rename_i t0 ps hfind
        rcases mem_insertSorted _ _ _ _ hx with heq | hin
        · subst heq
          simp only at hk ⊢
          rw [mem_isort_iff] at hk
          rcases List.mem_append.mp hk with hk | hk
          · have hmem := List.mem_of_find?_eq_some hfind
            have hkey := List.find?_some hfind
            have ht : t0 = p.1 := by simpa using hkey
            have := hacc (t0, ps) hmem k hk
            simpa [ht] using this
          · simp at hk; subst hk; exact hl p List.mem_cons_self
        · exact hacc x hin k hk
      · rcases mem_insertSorted _ _ _ _ hx with heq | hin
        · subst heq
          simp at hk; subst hk; exact hl p List.mem_cons_self
        · exact hacc x hin k hk
    · intro q hq; exact hl q (List.mem_cons_of_mem _ hq)

end AkVerif.StickyAlg
