import AkVerif.Model.V2
import AkVerif.Lemmas.Varint
/-! lemmas about the v2 batch format: field round trips, header, records -/
namespace AkVerif.V2
open AkVerif.Wire AkVerif.Varint AkVerif.Crc

/-! ### fixed-width fields -/

theorem be_length (n : Nat) (i : Int) : (be n i).length = n := beBytes_length _ _

theorem encInt_be (n : Nat) (i : Int)
    (h : -(2 ^ (8 * n - 1) : Int) ≤ i ∧ i < (2 ^ (8 * n - 1) : Int)) : encInt n i = some (be n i) := by
  unfold encInt be
  rw [if_pos h]

theorem decInt_be1 (i : Int) (h : -(2 ^ 7 : Int) ≤ i ∧ i < 2 ^ 7) (rest : Bytes) :
    decInt 1 (be 1 i ++ rest) = some (i, rest) :=
  decInt_encInt 1 (by simp) i _ rest (encInt_be 1 i (by simpa using h))

theorem decInt_be2 (i : Int) (h : -(2 ^ 15 : Int) ≤ i ∧ i < 2 ^ 15) (rest : Bytes) :
    decInt 2 (be 2 i ++ rest) = some (i, rest) :=
  decInt_encInt 2 (by simp) i _ rest (encInt_be 2 i (by simpa using h))

theorem decInt_be4 (i : Int) (h : int32 i) (rest : Bytes) :
    decInt 4 (be 4 i ++ rest) = some (i, rest) :=
  decInt_encInt 4 (by simp) i _ rest (encInt_be 4 i (by simpa [int32] using h))

theorem decInt_be8 (i : Int) (h : int64 i) (rest : Bytes) :
    decInt 8 (be 8 i ++ rest) = some (i, rest) :=
  decInt_encInt 8 (by simp) i _ rest (encInt_be 8 i (by simpa [int64] using h))

theorem decUInt_be4 (i : Int) (h : 0 ≤ i ∧ i < 2 ^ 32) (rest : Bytes) :
    decUInt 4 (be 4 i ++ rest) = some (i, rest) := by
  apply decUInt_encUInt 4 i _ rest
  unfold encUInt be
  rw [if_pos (by simpa using h)]
  congr 2
  have : i % (2 ^ (8 * 4) : Int) = i := Int.emod_eq_of_lt h.1 (by simpa using h.2)
  rw [this]

theorem crc32c_range (bs : Bytes) : (0 : Int) ≤ (crc32c bs : Int) ∧ (crc32c bs : Int) < 2 ^ 32 := by
  unfold crc32c
  constructor
  · omega
  · have : (update castagnoli 0xFFFFFFFF bs ^^^ 0xFFFFFFFF) % 2 ^ 32 < 2 ^ 32 := Nat.mod_lt _ (by decide)
    omega

theorem crc32_range (bs : Bytes) : (0 : Int) ≤ (crc32 bs : Int) ∧ (crc32 bs : Int) < 2 ^ 32 := by
  unfold crc32
  constructor
  · omega
  · have : (update ieee 0xFFFFFFFF bs ^^^ 0xFFFFFFFF) % 2 ^ 32 < 2 ^ 32 := Nat.mod_lt _ (by decide)
    omega

/-! ### variable-length fields -/

theorem int64_of_lenOK (n : Nat) (h : lenOK n) : int64 (n : Int) := by
  unfold lenOK at h; unfold int64; omega

theorem take_app (a rest : Bytes) : (a ++ rest).take a.length = a := by simp
theorem drop_app (a rest : Bytes) : (a ++ rest).drop a.length = rest := by simp

theorem decVBytes_enc (ob : Option Bytes) (h : optLenOK ob) (rest : Bytes) :
    decVBytes (encVBytes ob ++ rest) = some (ob, rest) := by
  cases ob with
  | none =>
    unfold decVBytes encVBytes
    rw [decVarint_encVarint (-1) (by unfold int64; omega)]
    simp
  | some b =>
    unfold decVBytes encVBytes
    rw [List.append_assoc, decVarint_encVarint _ (int64_of_lenOK _ h)]
    simp

theorem decHeaders_enc (hs : List (Bytes × Option Bytes)) (h : ∀ x ∈ hs, hdrOK x) (rest : Bytes) :
    decHeaders hs.length (encHeaders hs ++ rest) = some (hs, rest) := by
  induction hs with
  | nil => simp [decHeaders, encHeaders]
  | cons x xs ih =>
    have hx := h x (by simp)
    have ih' := ih (fun y hy => h y (by simp [hy]))
    obtain ⟨k, v⟩ := x
    simp only [List.length_cons, decHeaders, encHeaders, encHeader, List.append_assoc]
    rw [decVarint_encVarint _ (int64_of_lenOK _ hx.1)]
    have h1 : ¬ ((k.length : Int) < 0) := by omega
    simp only [h1, if_false, Int.toNat_natCast, List.length_append, Nat.le_add_right, if_true,
      List.drop_left', List.take_left']
    rw [decVBytes_enc v hx.2]
    simp only
    rw [ih']

theorem decRecordBody_enc (d o : Int) (r : Rec) (hd : int64 d) (ho : int64 o) (hk : optLenOK r.key)
    (hv : optLenOK r.value) (hn : lenOK r.headers.length) (hh : ∀ x ∈ r.headers, hdrOK x) :
    decRecordBody (encRecordBody d o r) =
      some { tsDelta := d, offDelta := o, key := r.key, value := r.value, headers := r.headers } := by
  unfold decRecordBody encRecordBody
  simp only
  rw [decVarint_encVarint d hd]
  simp only
  rw [decVarint_encVarint o ho]
  simp only
  rw [decVBytes_enc _ hk]
  simp only
  rw [decVBytes_enc _ hv]
  simp only
  rw [decVarint_encVarint _ (int64_of_lenOK _ hn)]
  have h1 : ¬ ((r.headers.length : Int) < 0) := by omega
  simp only [h1, if_false, Int.toNat_natCast]
  have := decHeaders_enc r.headers hh []
  rw [List.append_nil] at this
  rw [this]

/-- the wire form of a record of a batch with first timestamp `f` and base offset `b` -/
def rawOf (f b : Int) (r : Rec) : Raw :=
  { tsDelta := r.ts - f, offDelta := r.offset - b, key := r.key, value := r.value, headers := r.headers }

theorem decRecord_enc (f b : Int) (r : Rec) (h : WFRec f b r) (rest : Bytes) :
    decRecord (encRecord f b r ++ rest) = some (rawOf f b r, rest) := by
  obtain ⟨⟨hd, ho, hk, hv, hn, hh⟩, hl⟩ := h
  unfold decRecord encRecord
  rw [List.append_assoc, decVarint_encVarint _ (int64_of_lenOK _ hl)]
  have h1 : ¬ (((encRecordBody (r.ts - f) (r.offset - b) r).length : Int) < 0) := by omega
  simp only [h1, if_false, Int.toNat_natCast, List.length_append, Nat.le_add_right, if_true,
    List.take_left', List.drop_left']
  rw [decRecordBody_enc _ _ r hd ho hk hv hn hh]
  rfl

theorem decRecords_enc (f b : Int) (recs : List Rec) (h : ∀ r ∈ recs, WFRec f b r) (rest : Bytes) :
    decRecords recs.length (encRecords f b recs ++ rest) = some (recs.map (rawOf f b), rest) := by
  induction recs with
  | nil => simp [decRecords, encRecords]
  | cons r rs ih =>
    simp only [List.length_cons, decRecords, encRecords, List.append_assoc, List.map_cons]
    rw [decRecord_enc f b r (h r (by simp))]
    simp only
    rw [ih (fun y hy => h y (by simp [hy]))]

/-! ### attributes -/

theorem attrs_facts (c : Cfg) (hc : c.codec < 8) :
    ((attrsOf c : Int) % 8).toNat = c.codec ∧
    (decide ((attrsOf c : Int) / 8 % 2 = 1) = c.logAppend) ∧
    (decide ((attrsOf c : Int) / 16 % 2 = 1) = c.transactional) ∧
    (decide ((attrsOf c : Int) / 32 % 2 = 1) = c.control) ∧ attrsOf c < 64 := by
  unfold attrsOf
  cases c.logAppend <;> cases c.transactional <;> cases c.control <;>
    simp only [Bool.false_eq_true, if_false, if_true] <;>
    refine ⟨by omega, ?_, ?_, ?_, by omega⟩ <;> simp <;> omega

/-! ### header -/

def headerOf (C : Codec) (c : Cfg) (recs : List Rec) : Header :=
  { baseOffset := c.baseOffset, length := ((afterCrc C c recs).length + 9 : Nat), leaderEpoch := c.leaderEpoch,
    magic := 2, crc := crc32c (afterCrc C c recs), attrs := attrsOf c,
    lastOffsetDelta := lastDeltaOf c.baseOffset recs, firstTs := firstTsOf recs,
    maxTs := headerMaxTs c recs, pid := c.pid, epoch := c.epoch, seq := c.seq, count := recs.length }

theorem int64_headerMaxTs (c : Cfg) (recs : List Rec) (h1 : int64 c.appendTime) (h2 : int64 (maxTsOf recs)) :
    int64 (headerMaxTs c recs) := by
  unfold headerMaxTs; split <;> assumption

theorem decHeader_spec (C : Codec) (c : Cfg) (recs : List Rec) (h : WFBatch C c recs) :
    decHeader (specBuild C c recs) = some (headerOf C c recs, payloadOf C c recs) := by
  obtain ⟨⟨hb, hle, hcodec, hat, hpid, hep, hseq⟩, _, hft, hmt, hld, hcnt, hlen⟩ := h
  have ha := (attrs_facts c hcodec).2.2.2.2
  unfold specBuild decHeader
  rw [decInt_be8 _ hb]
  simp only
  rw [decInt_be4 _ (by unfold lenOK at hlen; unfold int32; omega)]
  simp only
  rw [decInt_be4 _ hle]
  simp only
  rw [decInt_be1 _ (by omega)]
  simp only
  rw [decUInt_be4 _ (crc32c_range _)]
  simp only
  unfold afterCrc
  rw [decInt_be2 _ (by omega)]
  simp only
  rw [decInt_be4 _ hld]
  simp only
  rw [decInt_be8 _ hft]
  simp only
  rw [decInt_be8 _ (int64_headerMaxTs c recs hat hmt)]
  simp only
  rw [decInt_be8 _ hpid]
  simp only
  rw [decInt_be2 _ hep]
  simp only
  rw [decInt_be4 _ hseq]
  simp only
  rw [decInt_be4 _ (by unfold lenOK at hcnt; unfold int32; omega)]
  rfl

theorem specBuild_length (C : Codec) (c : Cfg) (recs : List Rec) :
    (specBuild C c recs).length = (afterCrc C c recs).length + 21 := by
  unfold specBuild
  simp only [List.length_append, be_length]
  omega

theorem specBuild_drop21 (C : Codec) (c : Cfg) (recs : List Rec) :
    (specBuild C c recs).drop 21 = afterCrc C c recs := by
  unfold specBuild
  have e : ∀ (a b c d e f : Bytes), a.length + b.length + c.length + d.length + e.length = 21 →
      (a ++ (b ++ (c ++ (d ++ (e ++ f))))).drop 21 = f := by
    intro a b c d e f hl
    have : a ++ (b ++ (c ++ (d ++ (e ++ f)))) = (a ++ b ++ c ++ d ++ e) ++ f := by simp
    rw [this]
    have hl' : (a ++ b ++ c ++ d ++ e).length = 21 := by simp [List.length_append]; omega
    exact List.drop_left' hl'
  exact e _ _ _ _ _ _ (by simp [be_length])

/-! ### the spec round trip -/

theorem toRec_rawOf (C : Codec) (c : Cfg) (recs : List Rec) (hc : c.codec < 8) (r : Rec) :
    toRec (headerOf C c recs) (rawOf (firstTsOf recs) c.baseOffset r) =
      (if c.logAppend then { r with ts := c.appendTime } else r) := by
  have hla : (headerOf C c recs).logAppend = c.logAppend := by
    unfold Header.logAppend headerOf
    exact (attrs_facts c hc).2.1
  unfold toRec rawOf
  rw [hla]
  cases hl : c.logAppend
  · simp only [Bool.false_eq_true, if_false]
    cases r
    simp only [headerOf, Rec.mk.injEq, and_true, true_and]
    constructor <;> omega
  · simp only [if_true]
    cases r
    simp only [headerOf, headerMaxTs, hl, if_true, Rec.mk.injEq, and_true, true_and]
    omega

theorem stamped_eq (C : Codec) (c : Cfg) (recs : List Rec) (hc : c.codec < 8) :
    (recs.map (rawOf (firstTsOf recs) c.baseOffset)).map (toRec (headerOf C c recs)) = stamped c recs := by
  rw [List.map_map]
  unfold stamped
  cases hl : c.logAppend
  · simp only [Bool.false_eq_true, if_false]
    conv => rhs; rw [← List.map_id recs]
    apply List.map_congr_left
    intro r _
    simp [Function.comp, toRec_rawOf C c recs hc r, hl]
  · simp only [if_true]
    apply List.map_congr_left
    intro r _
    simp [Function.comp, toRec_rawOf C c recs hc r, hl]

theorem specRead_specBuild (C : Codec) (hC : C.Lawful) (c : Cfg) (recs : List Rec) (h : WFBatch C c recs) :
    specRead C (specBuild C c recs) = some (headerOf C c recs, stamped c recs) := by
  have hcodec : c.codec < 8 := h.1.2.2.1
  have hrecs := h.2.1
  unfold specRead
  rw [decHeader_spec C c recs h]
  simp only
  have hm : (headerOf C c recs).magic = 2 := rfl
  have hl : (headerOf C c recs).length + 12 = ((specBuild C c recs).length : Int) := by
    rw [specBuild_length]; simp only [headerOf]; omega
  have hcnt : ¬ ((headerOf C c recs).count < 0) := by simp only [headerOf]; omega
  have hcd : (headerOf C c recs).codec = c.codec := by
    unfold Header.codec headerOf; exact (attrs_facts c hcodec).1
  simp only [hm, hl, hcnt, hcd, ne_eq, not_true_eq_false, if_false]
  have hdata : (if c.codec = 0 then some (payloadOf C c recs) else C.decompress c.codec (payloadOf C c recs))
      = some (encRecords (firstTsOf recs) c.baseOffset recs) := by
    unfold payloadOf
    split
    · rfl
    · exact hC _ _
  rw [hdata]
  simp only
  have hn : (headerOf C c recs).count.toNat = recs.length := by simp [headerOf]
  rw [hn]
  have := decRecords_enc (firstTsOf recs) c.baseOffset recs hrecs []
  rw [List.append_nil] at this
  rw [this]
  simp only
  rw [stamped_eq C c recs hcodec]

theorem headerOK_spec (C : Codec) (c : Cfg) (recs : List Rec) (h : WFBatch C c recs) :
    HeaderOK (specBuild C c recs) c recs := by
  have hcodec : c.codec < 8 := h.1.2.2.1
  have ha := attrs_facts c hcodec
  refine ⟨headerOf C c recs, payloadOf C c recs, decHeader_spec C c recs h, rfl, ?_, rfl, rfl, ?_, ?_, ?_, ?_, ?_,
    rfl, rfl, rfl, rfl, rfl, rfl, rfl⟩
  · rw [specBuild_length]; simp only [headerOf]; omega
  · rw [specBuild_drop21]; rfl
  · unfold Header.codec headerOf; exact ha.1
  · unfold Header.logAppend headerOf; exact ha.2.1
  · unfold Header.transactional headerOf; exact ha.2.2.1
  · unfold Header.control headerOf; exact ha.2.2.2.1

theorem headerOK_iff (bs : Bytes) (c : Cfg) (recs : List Rec) :
    headerOK bs c recs = true ↔ HeaderOK bs c recs := by
  unfold headerOK HeaderOK
  cases hd : decHeader bs with
  | none => simp
  | some p =>
    obtain ⟨h, pl⟩ := p
    simp only [Bool.and_eq_true, decide_eq_true_eq, Option.some.injEq, Prod.mk.injEq]
    constructor
    · intro hh
      refine ⟨h, pl, ⟨rfl, rfl⟩, ?_⟩
      simp only [and_assoc] at hh
      exact hh
    · rintro ⟨h', pl', ⟨rfl, rfl⟩, hh⟩
      simp only [and_assoc]
      exact hh

theorem validateCrc_spec (C : Codec) (c : Cfg) (recs : List Rec) (h : WFBatch C c recs) :
    validateCrc (specBuild C c recs) = some true := by
  unfold validateCrc
  rw [decHeader_spec C c recs h, specBuild_drop21]
  simp [headerOf]

end AkVerif.V2
