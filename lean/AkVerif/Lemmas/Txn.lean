import AkVerif.Model.Txn
/-! Helper lemmas for the transactional model (C07, C16). -/
namespace AkVerif.Txn

/-! ## the read-committed scan -/

theorem scan_append (l : List Entry) (e : Entry) : scan (l ++ [e]) = scanStep (scan l) e := by
  simp [scan, List.foldl_append]

theorem visible_append_data (l : List Entry) (r : Nat) : visible (l ++ [.data r]) = visible l := by
  simp [visible, scan_append, scanStep]

theorem undecided_append_data (l : List Entry) (r : Nat) :
    undecided (l ++ [.data r]) = undecided l ++ [r] := by
  simp [undecided, scan_append, scanStep]

theorem visible_append_marker (l : List Entry) (c : Bool) :
    visible (l ++ [.marker c]) = if c then visible l ++ undecided l else visible l := by
  cases c <;> simp [visible, undecided, scan_append, scanStep]

theorem undecided_append_marker (l : List Entry) (c : Bool) :
    undecided (l ++ [.marker c]) = [] := by
  cases c <;> simp [undecided, scan_append, scanStep]

theorem visible_nil : visible [] = [] := rfl
theorem undecided_nil : undecided [] = [] := rfl

theorem mem_scan_foldl (l : List Entry) : ∀ (acc : List Nat × List Nat) (r : Nat),
    (r ∈ (l.foldl scanStep acc).1 ∨ r ∈ (l.foldl scanStep acc).2) →
    r ∈ acc.1 ∨ r ∈ acc.2 ∨ Entry.data r ∈ l := by
  induction l with
  | nil => intro acc r h; simpa using h
  | cons e l ih =>
    intro acc r h
    rw [List.foldl_cons] at h
    have := ih _ r h
    cases e with
    | data x =>
      simp only [scanStep, List.mem_append, List.mem_singleton] at this
      rcases this with h1 | (h1 | h1) | h1
      · exact Or.inl h1
      · exact Or.inr (Or.inl h1)
      · subst h1; exact Or.inr (Or.inr (by simp))
      · exact Or.inr (Or.inr (List.mem_cons_of_mem _ h1))
    | marker c =>
      cases c
      · simp only [scanStep, List.not_mem_nil, false_or] at this
        rcases this with h1 | h1
        · exact Or.inl h1
        · exact Or.inr (Or.inr (List.mem_cons_of_mem _ h1))
      · simp only [scanStep, List.mem_append, List.not_mem_nil, false_or] at this
        rcases this with (h1 | h1) | h1
        · exact Or.inl h1
        · exact Or.inr (Or.inl h1)
        · exact Or.inr (Or.inr (List.mem_cons_of_mem _ h1))

/-- whatever a reader sees or waits for was written as a data record -/
theorem data_of_mem_scan (l : List Entry) (r : Nat) (h : r ∈ visible l ∨ r ∈ undecided l) :
    Entry.data r ∈ l := by
  have := mem_scan_foldl l ([], []) r h
  simpa using this

/-! ## markers -/

theorem setLog_same (f : Nat → List Entry) (p : Nat) (l : List Entry) : setLog f p l p = l := by
  simp [setLog]

theorem setLog_other (f : Nat → List Entry) (p q : Nat) (l : List Entry) (h : q ≠ p) :
    setLog f p l q = f q := by
  simp [setLog, h]

theorem writeMarkers_not_mem (c : Bool) (ps : List Nat) : ∀ (logs : Nat → List Entry) (q : Nat),
    q ∉ ps → writeMarkers logs c ps q = logs q := by
  induction ps with
  | nil => intro logs q _; rfl
  | cons p ps ih =>
    intro logs q hq
    simp only [List.mem_cons, not_or] at hq
    rw [writeMarkers, ih _ q hq.2, setLog_other _ _ _ _ hq.1]

theorem writeMarkers_mem (c : Bool) (ps : List Nat) : ∀ (logs : Nat → List Entry) (q : Nat),
    ps.Nodup → q ∈ ps → writeMarkers logs c ps q = logs q ++ [.marker c] := by
  induction ps with
  | nil => intro logs q _ hq; cases hq
  | cons p ps ih =>
    intro logs q hnd hq
    rw [List.nodup_cons] at hnd
    rw [writeMarkers]
    rcases List.mem_cons.mp hq with rfl | hq'
    · rw [writeMarkers_not_mem _ _ _ _ hnd.1, setLog_same]
    · have hne : q ≠ p := by rintro rfl; exact hnd.1 hq'
      rw [ih _ q hnd.2 hq', setLog_other _ _ _ _ hne]


/-! ## the environment steps, simplified under the environment invariant -/

theorem addParts_eq (e : Env) (p : Nat) (hidle : e.ongoing = false → e.parts = [] ∧ e.grp = false)
    (hp : p ∉ e.parts) :
    e.addParts p = { e with ongoing := true, parts := e.parts ++ [p] } := by
  obtain ⟨on, ps, g, la, pe, co, lo⟩ := e
  cases on with
  | true => simp at hp; simp [Env.addParts, Env.beginIfNeeded, hp]
  | false =>
    obtain ⟨h1, h2⟩ := hidle rfl
    simp at h1 h2
    subst h1 h2
    simp [Env.addParts, Env.beginIfNeeded]

theorem addParts_idem (e : Env) (p : Nat) : (e.addParts p).addParts p = e.addParts p := by
  obtain ⟨on, ps, g, la, pe, co, lo⟩ := e
  cases on <;> by_cases hp : p ∈ ps <;> simp [Env.addParts, Env.beginIfNeeded, hp]

theorem addOffs_eq (e : Env) (hidle : e.ongoing = false → e.parts = [] ∧ e.grp = false) :
    e.addOffs = { e with ongoing := true, grp := true } := by
  obtain ⟨on, ps, g, la, pe, co, lo⟩ := e
  cases on with
  | true => simp [Env.addOffs, Env.beginIfNeeded]
  | false =>
    obtain ⟨h1, h2⟩ := hidle rfl
    simp at h1 h2
    subst h1 h2
    simp [Env.addOffs, Env.beginIfNeeded]

theorem addOffs_idem (e : Env) : e.addOffs.addOffs = e.addOffs := by
  obtain ⟨on, ps, g, la, pe, co, lo⟩ := e
  cases on <;> simp [Env.addOffs, Env.beginIfNeeded]

theorem offsCommit_idem (e : Env) (o : Nat) : (e.offsCommit o).offsCommit o = e.offsCommit o := rfl

theorem endTxn_again (e e' : Env) (c : Bool) (h : e.endTxn c = some e') : e'.endTxn c = some e' := by
  unfold Env.endTxn at h
  by_cases ho : e.ongoing = true
  · simp only [ho, if_true, Option.some.injEq] at h
    subst h
    simp [Env.endTxn, Env.finish]
  · have ho' : e.ongoing = false := by simpa using ho
    simp only [ho', Bool.false_eq_true, if_false] at h
    by_cases hl : e.last = some c
    · simp only [hl, if_true, Option.some.injEq] at h
      subst h
      simp [Env.endTxn, ho', hl]
    · simp [hl] at h

/-! ## the invariant -/

/-- environment + application view (independent of the client's state) -/
structure InvEG (k : Core) : Prop where
  env_idle : k.env.ongoing = false → k.env.parts = [] ∧ k.env.grp = false
  env_pend : k.env.pendOff ≠ none → k.env.ongoing = true ∧ k.env.grp = true
  env_nodup : k.env.parts.Nodup
  open_reg : ∀ p, undecided (k.env.logs p) ≠ [] → k.env.ongoing = true ∧ p ∈ k.env.parts
  open_cur : ∀ p r, r ∈ undecided (k.env.logs p) → r ∈ k.cur
  cur_open : ∀ r, r ∈ k.cur → ∃ p, r ∈ undecided (k.env.logs p)
  vis_good : ∀ p r, r ∈ visible (k.env.logs p) → r ∈ k.good
  good_vis : ∀ r, r ∈ k.good → ∃ p, r ∈ visible (k.env.logs p)
  bad_gone : ∀ r, r ∈ k.bad → ∀ p, r ∉ visible (k.env.logs p) ∧ r ∉ undecided (k.env.logs p)
  fresh_log : ∀ p r, Entry.data r ∈ k.env.logs p → r < k.nRec
  fresh_bad : ∀ r, r ∈ k.bad → r < k.nRec
  cur_hidden : ∀ r, r ∈ k.cur → ∀ p, r ∉ visible (k.env.logs p)
  off_comm : k.env.commOff = k.goodOff
  off_pend : k.env.pendOff = k.curOff

/-- … and the client's transaction manager agrees with the coordinator -/
structure Inv (k : Core) : Prop extends InvEG k where
  st_q : k.st = .ready ∨ k.st = .inTxn ∨ k.st = .abortable ∨ k.st = .fatal
  agree : k.st ≠ .fatal → k.parts = k.env.parts ∧ k.grp = k.env.grp ∧
    (k.env.ongoing = true ↔ (k.parts ≠ [] ∨ k.grp = true))
  ready_clean : k.st = .ready → k.parts = [] ∧ k.grp = false ∧ k.cur = [] ∧ k.curOff = none

theorem InvEG.no_open_of_idle {k : Core} (h : InvEG k) (ho : k.env.ongoing = false) (p : Nat) :
    undecided (k.env.logs p) = [] := by
  cases hu : undecided (k.env.logs p) with
  | nil => rfl
  | cons a l =>
    have := (h.open_reg p (by simp [hu])).1
    simp [ho] at this

theorem InvEG.cur_nil_of_idle {k : Core} (h : InvEG k) (ho : k.env.ongoing = false) : k.cur = [] := by
  cases hc : k.cur with
  | nil => rfl
  | cons a l =>
    obtain ⟨p, hp⟩ := h.cur_open a (by simp [hc])
    rw [h.no_open_of_idle ho p] at hp
    cases hp

theorem InvEG.pend_none_of_idle {k : Core} (h : InvEG k) (ho : k.env.ongoing = false) :
    k.env.pendOff = none := by
  cases hp : k.env.pendOff with
  | none => rfl
  | some o =>
    have := (h.env_pend (by simp [hp])).1
    simp [ho] at this

theorem init_inv : Inv ({} : Core) := by
  refine { env_idle := ?_, env_pend := ?_, env_nodup := ?_, open_reg := ?_, open_cur := ?_,
           cur_open := ?_, vis_good := ?_, good_vis := ?_, bad_gone := ?_, fresh_log := ?_,
           fresh_bad := ?_, cur_hidden := ?_, off_comm := ?_, off_pend := ?_, st_q := ?_,
           agree := ?_, ready_clean := ?_ } <;> simp [visible, undecided, scan]


/-! ## preservation, one elementary transformation at a time -/

theorem Inv.set_st {k : Core} (h : Inv k) (st : TState)
    (hq : st = .inTxn ∨ st = .abortable ∨ st = .fatal) (hnf : k.st ≠ .fatal) :
    Inv { k with st := st } :=
  { h.toInvEG with
    st_q := by rcases hq with h1 | h1 | h1 <;> simp [h1]
    agree := fun _ => h.agree hnf
    ready_clean := by
      intro hr
      rcases hq with h1 | h1 | h1 <;> simp [h1] at hr }

theorem Inv.accept {k : Core} (h : Inv k) : Inv { k with nRec := k.nRec + 1 } :=
  { h with
    fresh_log := fun p r hr => Nat.lt_succ_of_lt (h.fresh_log p r hr)
    fresh_bad := fun r hr => Nat.lt_succ_of_lt (h.fresh_bad r hr) }

theorem Inv.addParts {k : Core} (h : Inv k) (p : Nat) (hst : k.st = .inTxn) (hp : p ∉ k.parts) :
    Inv { k with env := k.env.addParts p, parts := k.parts ++ [p] } := by
  have hnf : k.st ≠ .fatal := by simp [hst]
  obtain ⟨hpa, hga, hoa⟩ := h.agree hnf
  have hp' : p ∉ k.env.parts := hpa ▸ hp
  rw [addParts_eq _ _ h.env_idle hp']
  exact
  { env_idle := by simp
    env_pend := by
      intro hpe
      exact ⟨rfl, (h.env_pend hpe).2⟩
    env_nodup := by
      simp only
      rw [List.nodup_append]
      refine ⟨h.env_nodup, by simp, ?_⟩
      intro a ha b hb
      simp only [List.mem_singleton] at hb
      subst hb
      intro hab; subst hab; exact hp' ha
    open_reg := by
      intro q hq
      exact ⟨rfl, List.mem_append_left _ (h.open_reg q hq).2⟩
    open_cur := h.open_cur
    cur_open := h.cur_open
    vis_good := h.vis_good
    good_vis := h.good_vis
    bad_gone := h.bad_gone
    fresh_log := h.fresh_log
    fresh_bad := h.fresh_bad
    cur_hidden := h.cur_hidden
    off_comm := h.off_comm
    off_pend := h.off_pend
    st_q := h.st_q
    agree := by
      intro _
      refine ⟨by simp [hpa], hga, ?_⟩
      simp
    ready_clean := by intro hr; simp [hst] at hr }

theorem Inv.addOffs {k : Core} (h : Inv k) (hst : k.st = .inTxn) :
    Inv { k with env := k.env.addOffs, grp := true } := by
  have hnf : k.st ≠ .fatal := by simp [hst]
  obtain ⟨hpa, hga, hoa⟩ := h.agree hnf
  rw [addOffs_eq _ h.env_idle]
  exact
  { env_idle := by simp
    env_pend := by intro _; exact ⟨rfl, rfl⟩
    env_nodup := h.env_nodup
    open_reg := by
      intro q hq
      exact ⟨rfl, (h.open_reg q hq).2⟩
    open_cur := h.open_cur
    cur_open := h.cur_open
    vis_good := h.vis_good
    good_vis := h.good_vis
    bad_gone := h.bad_gone
    fresh_log := h.fresh_log
    fresh_bad := h.fresh_bad
    cur_hidden := h.cur_hidden
    off_comm := h.off_comm
    off_pend := h.off_pend
    st_q := h.st_q
    agree := by
      intro _
      refine ⟨hpa, rfl, ?_⟩
      simp
    ready_clean := by intro hr; simp [hst] at hr }

theorem Inv.offsCommit {k : Core} (h : Inv k) (hst : k.st = .inTxn) (hg : k.grp = true) (o : Nat) :
    Inv { k with env := k.env.offsCommit o, curOff := some o } := by
  have hnf : k.st ≠ .fatal := by simp [hst]
  obtain ⟨hpa, hga, hoa⟩ := h.agree hnf
  exact
  { env_idle := h.env_idle
    env_pend := by
      intro _
      exact ⟨hoa.mpr (Or.inr hg), hga ▸ hg⟩
    env_nodup := h.env_nodup
    open_reg := h.open_reg
    open_cur := h.open_cur
    cur_open := h.cur_open
    vis_good := h.vis_good
    good_vis := h.good_vis
    bad_gone := h.bad_gone
    fresh_log := h.fresh_log
    fresh_bad := h.fresh_bad
    cur_hidden := h.cur_hidden
    off_comm := h.off_comm
    off_pend := rfl
    st_q := h.st_q
    agree := h.agree
    ready_clean := by intro hr; simp [hst] at hr }

theorem Inv.append {k : Core} (h : Inv k) (p r : Nat) (e' : Env) (ha : k.env.append p r = some e')
    (hst : k.st = .inTxn) (hfl : ∀ q x, Entry.data x ∈ k.env.logs q → x < r)
    (hfb : ∀ x, x ∈ k.bad → x < r) (hr : r < k.nRec) :
    Inv { k with env := e', cur := r :: k.cur } := by
  unfold Env.append at ha
  split at ha
  next hcond =>
    obtain ⟨hon, hpp⟩ := hcond
    simp only [Option.some.injEq] at ha
    subst ha
    have hlp : ∀ q, setLog k.env.logs p (k.env.logs p ++ [.data r]) q =
        if q = p then k.env.logs p ++ [.data r] else k.env.logs q := fun q => rfl
    have hvis : ∀ q, visible (setLog k.env.logs p (k.env.logs p ++ [.data r]) q) = visible (k.env.logs q) := by
      intro q
      rw [hlp]
      by_cases hq : q = p
      · subst hq; simp [visible_append_data]
      · simp [hq]
    have hund : ∀ q, undecided (setLog k.env.logs p (k.env.logs p ++ [.data r]) q) =
        if q = p then undecided (k.env.logs p) ++ [r] else undecided (k.env.logs q) := by
      intro q
      rw [hlp]
      by_cases hq : q = p
      · subst hq; simp [undecided_append_data]
      · simp [hq]
    have hrnot : ∀ q, r ∉ visible (k.env.logs q) ∧ r ∉ undecided (k.env.logs q) := by
      intro q
      constructor
      · intro hm
        exact Nat.lt_irrefl _ (hfl q r (data_of_mem_scan _ _ (Or.inl hm)))
      · intro hm
        exact Nat.lt_irrefl _ (hfl q r (data_of_mem_scan _ _ (Or.inr hm)))
    exact
    { env_idle := h.env_idle
      env_pend := h.env_pend
      env_nodup := h.env_nodup
      open_reg := by
        intro q hq
        simp only [hund] at hq
        by_cases hqp : q = p
        · subst hqp; exact ⟨hon, hpp⟩
        · simp only [hqp, if_false] at hq; exact h.open_reg q hq
      open_cur := by
        intro q x hx
        simp only [hund] at hx
        by_cases hqp : q = p
        · simp only [hqp, if_true, List.mem_append, List.mem_singleton] at hx
          rcases hx with hx | hx
          · exact List.mem_cons_of_mem _ (h.open_cur p x hx)
          · subst hx; exact List.mem_cons_self
        · simp only [hqp, if_false] at hx
          exact List.mem_cons_of_mem _ (h.open_cur q x hx)
      cur_open := by
        intro x hx
        rcases List.mem_cons.mp hx with rfl | hx
        · exact ⟨p, by simp [hund]⟩
        · obtain ⟨q, hq⟩ := h.cur_open x hx
          refine ⟨q, ?_⟩
          simp only [hund]
          by_cases hqp : q = p
          · subst hqp; simp [hq]
          · simp [hqp, hq]
      vis_good := by
        intro q x hx
        simp only [hvis] at hx
        exact h.vis_good q x hx
      good_vis := by
        intro x hx
        obtain ⟨q, hq⟩ := h.good_vis x hx
        exact ⟨q, by simp only [hvis]; exact hq⟩
      bad_gone := by
        intro x hx q
        simp only [hvis, hund]
        refine ⟨(h.bad_gone x hx q).1, ?_⟩
        by_cases hqp : q = p
        · subst hqp
          simp only [if_true, List.mem_append, List.mem_singleton, not_or]
          exact ⟨(h.bad_gone x hx q).2, Nat.ne_of_lt (hfb x hx)⟩
        · simp only [hqp, if_false]; exact (h.bad_gone x hx q).2
      fresh_log := by
        intro q x hx
        simp only [hlp] at hx
        by_cases hqp : q = p
        · simp only [hqp, if_true, List.mem_append, List.mem_singleton] at hx
          rcases hx with hx | hx
          · exact h.fresh_log p x hx
          · cases hx; exact hr
        · simp only [hqp, if_false] at hx; exact h.fresh_log q x hx
      fresh_bad := h.fresh_bad
      cur_hidden := by
        intro x hx q
        simp only [hvis]
        rcases List.mem_cons.mp hx with rfl | hx
        · exact (hrnot q).1
        · exact h.cur_hidden x hx q
      off_comm := h.off_comm
      off_pend := h.off_pend
      st_q := h.st_q
      agree := h.agree
      ready_clean := by intro hr'; simp [hst] at hr' }
  next => cases ha


/-! ## ending a transaction at the coordinator -/

theorem finish_logs (e : Env) (c : Bool) (hnd : e.parts.Nodup) (q : Nat) :
    (e.finish c).logs q = if q ∈ e.parts then e.logs q ++ [.marker c] else e.logs q := by
  by_cases hq : q ∈ e.parts
  · simp only [hq, if_true]; exact writeMarkers_mem c _ _ _ hnd hq
  · simp only [hq, if_false]; exact writeMarkers_not_mem c _ _ _ hq

theorem settle_env (k : Core) (c : Bool) : (k.settle c).env = k.env := by
  unfold Core.settle; cases c <;> rfl

theorem settle_nRec (k : Core) (c : Bool) : (k.settle c).nRec = k.nRec := by
  unfold Core.settle; cases c <;> rfl

theorem settle_cur (k : Core) (c : Bool) : (k.settle c).cur = [] := by
  unfold Core.settle; cases c <;> rfl

theorem settle_curOff (k : Core) (c : Bool) : (k.settle c).curOff = none := by
  unfold Core.settle; cases c <;> rfl

theorem settle_good (k : Core) (c : Bool) :
    (k.settle c).good = if c then k.cur ++ k.good else k.good := by
  unfold Core.settle; cases c <;> rfl

theorem settle_bad (k : Core) (c : Bool) :
    (k.settle c).bad = if c then k.bad else k.cur ++ k.bad := by
  unfold Core.settle; cases c <;> rfl

theorem settle_goodOff (k : Core) (c : Bool) :
    (k.settle c).goodOff =
      if c then (match k.curOff with | some o => some o | none => k.goodOff) else k.goodOff := by
  unfold Core.settle; cases c <;> rfl

/-- the coordinator ends the ongoing transaction with result `c` and the application books it -/
theorem InvEG.finish {k : Core} (h : InvEG k) (c : Bool) :
    InvEG (({ k with env := k.env.finish c } : Core).settle c) := by
  have hl := finish_logs k.env c h.env_nodup
  have hund : ∀ q, undecided ((k.env.finish c).logs q) = [] := by
    intro q
    rw [hl]
    by_cases hq : q ∈ k.env.parts
    · simp [hq, undecided_append_marker]
    · simp only [hq, if_false]
      cases hu : undecided (k.env.logs q) with
      | nil => rfl
      | cons a l => exact absurd (h.open_reg q (by simp [hu])).2 hq
  have hvis : ∀ q x, x ∈ visible ((k.env.finish c).logs q) ↔
      (x ∈ visible (k.env.logs q) ∨ (c = true ∧ x ∈ undecided (k.env.logs q))) := by
    intro q x
    rw [hl]
    by_cases hq : q ∈ k.env.parts
    · simp only [hq, if_true, visible_append_marker]
      cases c <;> simp
    · simp only [hq, if_false]
      have : undecided (k.env.logs q) = [] := by
        cases hu : undecided (k.env.logs q) with
        | nil => rfl
        | cons a l => exact absurd (h.open_reg q (by simp [hu])).2 hq
      simp [this]
  have hpn : (k.env.finish c).pendOff = none := by
    simp only [Env.finish]
    cases hg : k.env.grp with
    | true => simp
    | false =>
      simp only [Bool.false_eq_true, if_false]
      cases hp : k.env.pendOff with
      | none => rfl
      | some o =>
        have := (h.env_pend (by simp [hp])).2
        simp [hg] at this
  refine
  { env_idle := ?_, env_pend := ?_, env_nodup := ?_, open_reg := ?_, open_cur := ?_, cur_open := ?_,
    vis_good := ?_, good_vis := ?_, bad_gone := ?_, fresh_log := ?_, fresh_bad := ?_,
    cur_hidden := ?_, off_comm := ?_, off_pend := ?_ }
  · intro _; simp [settle_env, Env.finish]
  · intro hp; simp only [settle_env] at hp; exact absurd hpn hp
  · simp [settle_env, Env.finish]
  · intro q hq; simp only [settle_env] at hq; exact absurd (hund q) hq
  · intro q x hx; simp only [settle_env] at hx; rw [hund] at hx; cases hx
  · intro x hx; rw [settle_cur] at hx; cases hx
  · intro q x hx
    simp only [settle_env] at hx
    rw [settle_good]
    rcases (hvis q x).mp hx with h1 | ⟨hc, h1⟩
    · cases c
      · simpa using h.vis_good q x h1
      · simp only [if_true, List.mem_append]; exact Or.inr (h.vis_good q x h1)
    · subst hc
      simp only [if_true, List.mem_append]; exact Or.inl (h.open_cur q x h1)
  · intro x hx
    rw [settle_good] at hx
    simp only [settle_env]
    cases c
    · simp only [Bool.false_eq_true, if_false] at hx
      obtain ⟨q, hq⟩ := h.good_vis x hx
      exact ⟨q, (hvis q x).mpr (Or.inl hq)⟩
    · simp only [if_true, List.mem_append] at hx
      rcases hx with hx | hx
      · obtain ⟨q, hq⟩ := h.cur_open x hx
        exact ⟨q, (hvis q x).mpr (Or.inr ⟨rfl, hq⟩)⟩
      · obtain ⟨q, hq⟩ := h.good_vis x hx
        exact ⟨q, (hvis q x).mpr (Or.inl hq)⟩
  · intro x hx q
    rw [settle_bad] at hx
    simp only [settle_env]
    rw [hund]
    refine ⟨?_, by simp⟩
    intro hv
    cases c
    · simp only [Bool.false_eq_true, if_false, List.mem_append] at hx
      rcases (hvis q x).mp hv with h1 | ⟨hc, _⟩
      · rcases hx with hx | hx
        · exact h.cur_hidden x hx q h1
        · exact (h.bad_gone x hx q).1 h1
      · cases hc
    · simp only [if_true] at hx
      rcases (hvis q x).mp hv with h1 | ⟨_, h1⟩
      · exact (h.bad_gone x hx q).1 h1
      · exact (h.bad_gone x hx q).2 h1
  · intro q x hx
    simp only [settle_env] at hx
    rw [settle_nRec]
    rw [hl] at hx
    by_cases hq : q ∈ k.env.parts
    · simp only [hq, if_true, List.mem_append, List.mem_singleton] at hx
      rcases hx with hx | hx
      · exact h.fresh_log q x hx
      · cases hx
    · simp only [hq, if_false] at hx; exact h.fresh_log q x hx
  · intro x hx
    rw [settle_bad] at hx
    rw [settle_nRec]
    cases c
    · simp only [Bool.false_eq_true, if_false, List.mem_append] at hx
      rcases hx with hx | hx
      · obtain ⟨q, hq⟩ := h.cur_open x hx
        exact h.fresh_log q x (data_of_mem_scan _ _ (Or.inr hq))
      · exact h.fresh_bad x hx
    · simp only [if_true] at hx; exact h.fresh_bad x hx
  · intro x hx; rw [settle_cur] at hx; cases hx
  · simp only [settle_env]
    rw [settle_goodOff]
    simp only [Env.finish]
    have hp := h.off_pend
    have hc := h.off_comm
    cases c
    · simp [hc]
    · cases hg : k.env.grp with
      | true =>
        simp only [Bool.and_self, if_true]
        rw [← hp, ← hc]
        cases k.env.pendOff <;> rfl
      | false =>
        simp only [Bool.false_and, Bool.false_eq_true, if_false, if_true]
        have : k.env.pendOff = none := by
          cases hpp : k.env.pendOff with
          | none => rfl
          | some o =>
            have := (h.env_pend (by simp [hpp])).2
            simp [hg] at this
        rw [← hp, this, hc]
  · simp only [settle_env]
    rw [settle_curOff]
    exact hpn

/-- nothing is registered at the coordinator: the transaction is empty on both sides -/
theorem InvEG.settle_idle {k : Core} (h : InvEG k) (ho : k.env.ongoing = false) (c : Bool) :
    InvEG (k.settle c) := by
  have hcur := h.cur_nil_of_idle ho
  have hpend := h.pend_none_of_idle ho
  have hco : k.curOff = none := by rw [← h.off_pend]; exact hpend
  have : k.settle c = k := by
    obtain ⟨st, ps, g, e, n, cu, co, go, ba, gf⟩ := k
    simp only at hcur hco
    subst hcur hco
    unfold Core.settle
    cases c <;> simp
  rw [this]; exact h


theorem InvEG.of_eq {k k' : Core} (h : InvEG k)
    (h1 : k'.env.ongoing = k.env.ongoing) (h2 : k'.env.parts = k.env.parts) (h3 : k'.env.grp = k.env.grp)
    (h4 : k'.env.pendOff = k.env.pendOff) (h5 : k'.env.commOff = k.env.commOff)
    (h6 : k'.env.logs = k.env.logs) (h7 : k'.nRec = k.nRec) (h8 : k'.cur = k.cur)
    (h9 : k'.curOff = k.curOff) (h10 : k'.good = k.good) (h11 : k'.bad = k.bad)
    (h12 : k'.goodOff = k.goodOff) : InvEG k' := by
  refine
  { env_idle := ?_, env_pend := ?_, env_nodup := ?_, open_reg := ?_, open_cur := ?_, cur_open := ?_,
    vis_good := ?_, good_vis := ?_, bad_gone := ?_, fresh_log := ?_, fresh_bad := ?_,
    cur_hidden := ?_, off_comm := ?_, off_pend := ?_ }
  · rw [h1, h2, h3]; exact h.env_idle
  · rw [h1, h3, h4]; exact h.env_pend
  · rw [h2]; exact h.env_nodup
  · rw [h1, h2, h6]; exact h.open_reg
  · rw [h6, h8]; exact h.open_cur
  · rw [h6, h8]; exact h.cur_open
  · rw [h6, h10]; exact h.vis_good
  · rw [h6, h10]; exact h.good_vis
  · rw [h6, h11]; exact h.bad_gone
  · rw [h6, h7]; exact h.fresh_log
  · rw [h7, h11]; exact h.fresh_bad
  · rw [h6, h8]; exact h.cur_hidden
  · rw [h5, h12]; exact h.off_comm
  · rw [h4, h9]; exact h.off_pend

/-- EndTxn applied and `complete_transaction` -/
theorem Inv.complete_finish {k : Core} (h : Inv k) (c : Bool) :
    Inv { (({ k with env := k.env.finish c } : Core).settle c) with
          st := .ready, parts := [], grp := false } :=
  { (h.toInvEG.finish c).of_eq rfl rfl rfl rfl rfl rfl rfl rfl rfl rfl rfl rfl with
    st_q := Or.inl rfl
    agree := by
      intro _
      simp [settle_env, Env.finish]
    ready_clean := by
      intro _
      exact ⟨rfl, rfl, settle_cur _ _, settle_curOff _ _⟩ }

/-- the transaction is empty: completed locally, no EndTxn -/
theorem Inv.complete_empty {k : Core} (h : Inv k) (hnf : k.st ≠ .fatal)
    (he : k.parts = [] ∧ k.grp = false) (c : Bool) :
    Inv { k.settle c with st := .ready, parts := [], grp := false } := by
  obtain ⟨hpa, hga, hoa⟩ := h.agree hnf
  have ho : k.env.ongoing = false := by
    cases hon : k.env.ongoing with
    | false => rfl
    | true =>
      rcases hoa.mp hon with h1 | h1
      · exact absurd he.1 h1
      · rw [he.2] at h1; cases h1
  exact
  { (h.toInvEG.settle_idle ho c).of_eq rfl rfl rfl rfl rfl rfl rfl rfl rfl rfl rfl rfl with
    st_q := Or.inl rfl
    agree := by
      intro _
      have := h.env_idle ho
      simp [settle_env, this.1, this.2, ho]
    ready_clean := by
      intro _
      exact ⟨rfl, rfl, settle_cur _ _, settle_curOff _ _⟩ }

/-- a new incarnation: InitProducerId fences whatever was going on -/
theorem Inv.restart {k : Core} (h : Inv k) :
    Inv { k.settle false with st := .ready, parts := [], grp := false, env := k.env.init } := by
  cases hon : k.env.ongoing with
  | true =>
    have he : k.env.init = { k.env.finish false with last := none } := by
      simp [Env.init, hon]
    rw [he]
    exact
    { (h.toInvEG.finish false).of_eq rfl rfl rfl rfl rfl rfl rfl rfl rfl rfl rfl rfl with
      st_q := Or.inl rfl
      agree := by intro _; simp [Env.finish]
      ready_clean := by
        intro _
        exact ⟨rfl, rfl, settle_cur _ _, settle_curOff _ _⟩ }
  | false =>
    have he : k.env.init = { k.env with last := none } := by
      simp [Env.init, hon]
    rw [he]
    have hidle := h.env_idle hon
    exact
    { (h.toInvEG.settle_idle hon false).of_eq rfl rfl rfl rfl rfl rfl rfl rfl rfl rfl rfl rfl with
      st_q := Or.inl rfl
      agree := by intro _; simp [hidle.1, hidle.2, hon]
      ready_clean := by
        intro _
        exact ⟨rfl, rfl, settle_cur _ _, settle_curOff _ _⟩ }


/-! ## requests -/

theorem request_frame (s : Sys) (a : Api) (mk : Code → Req) (ap ag : Env → Env) :
    (request s a mk ap ag).1.fault = s.fault ∧ (request s a mk ap ag).1.nOff = s.nOff ∧
    (request s a mk ap ag).1.futs = s.futs ∧ (request s a mk ap ag).1.res = s.res := by
  unfold request fire
  cases hf : s.fault with
  | none => simp
  | some f =>
    simp only
    by_cases hc : f.api = a ∧ f.nth = s.cnt.get a ∧ applicable a f.kind = true
    · simp only [hc, and_self, if_true]
      cases hk : f.kind <;> simp
    · simp only [hc, if_false]
      simp

theorem request_burnt (s : Sys) (a : Api) (mk : Code → Req) (ap ag : Env → Env) :
    (request s a mk ap ag).1.burnt = s.burnt := by
  unfold request fire
  cases hf : s.fault with
  | none => simp
  | some f =>
    simp only
    by_cases hc : f.api = a ∧ f.nth = s.cnt.get a ∧ applicable a f.kind = true
    · simp only [hc, and_self, if_true]
      cases hk : f.kind <;> simp
    · simp only [hc, if_false]

theorem request_ok (s : Sys) (a : Api) (mk : Code → Req) (ap ag : Env → Env)
    (hag : ag (ap s.env) = ap s.env) (hv : (request s a mk ap ag).2 = .ok) :
    (request s a mk ap ag).1.toCore = { s.toCore with env := ap s.env } := by
  revert hv
  unfold request fire
  cases hf : s.fault with
  | none => simp
  | some f =>
    simp only
    by_cases hc : f.api = a ∧ f.nth = s.cnt.get a ∧ applicable a f.kind = true
    · simp only [hc, and_self, if_true]
      cases hk : f.kind <;> simp [hag]
    · simp only [hc, if_false]
      simp

theorem request_nok (s : Sys) (a : Api) (mk : Code → Req) (ap ag : Env → Env)
    (hv : (request s a mk ap ag).2 ≠ .ok) :
    (request s a mk ap ag).1.toCore = s.toCore := by
  revert hv
  unfold request fire
  cases hf : s.fault with
  | none => simp
  | some f =>
    simp only
    by_cases hc : f.api = a ∧ f.nth = s.cnt.get a ∧ applicable a f.kind = true
    · simp only [hc, and_self, if_true]
      cases hk : f.kind <;> simp
    · simp only [hc, if_false]
      simp

theorem request_produce_ok (s : Sys) (mk : Code → Req) (ap ag : Env → Env) :
    (request s .produce mk ap ag).2 = .ok := by
  unfold request fire
  cases hf : s.fault with
  | none => simp
  | some f =>
    simp only
    by_cases hc : f.api = .produce ∧ f.nth = s.cnt.get .produce ∧ applicable .produce f.kind = true
    · simp only [hc, and_self, if_true]
      obtain ⟨_, _, h3⟩ := hc
      cases hk : f.kind <;> simp [hk, applicable] at h3 ⊢
    · simp only [hc, if_false]

theorem addParts_logs (e : Env) (p : Nat) : (e.addParts p).logs = e.logs := by
  obtain ⟨on, ps, g, la, pe, co, lo⟩ := e
  cases on <;> simp [Env.addParts, Env.beginIfNeeded]

theorem leaderAccepts_some (s : Sys) (p r : Nat) (e' : Env) (h : s.leaderAccepts p r = some e') :
    s.env.append p r = some e' ∧ s.seqFault = false ∧ p ∉ s.burnt := by
  unfold Sys.leaderAccepts at h
  by_cases hc : s.seqFault = true ∨ p ∈ s.burnt
  · rw [if_pos hc] at h; cases h
  · rw [if_neg hc] at h
    refine ⟨h, ?_, fun hb => hc (Or.inr hb)⟩
    cases hs : s.seqFault with
    | false => rfl
    | true => exact absurd (Or.inl hs) hc

/-! ## preservation by the API calls -/

theorem produce_inv (s : Sys) (p r : Nat) (h : Inv s.toCore) (hst : s.st = .inTxn)
    (hfl : ∀ q x, Entry.data x ∈ s.env.logs q → x < r) (hfb : ∀ x, x ∈ s.bad → x < r)
    (hr : r < s.nRec) : Inv (produce s p r).toCore := by
  unfold produce
  cases ha' : s.leaderAccepts p r with
  | none => exact h
  | some e' =>
    have ha := (leaderAccepts_some s p r e' ha').1
    simp only
    have hok := request_produce_ok s (.produce p r) (fun _ => e') id
    have hspec := request_ok s .produce (.produce p r) (fun _ => e') id rfl hok
    generalize request s .produce (.produce p r) (fun _ => e') id = rq at hspec hok
    obtain ⟨s1, v⟩ := rq
    simp only at hspec hok
    show Inv { s1.toCore with cur := r :: s1.toCore.cur }
    rw [hspec]
    exact Inv.append h p r e' ha hst hfl hfb hr

theorem sendAccepted_inv (s : Sys) (p r : Nat) (h : Inv s.toCore) (hst : s.st = .inTxn)
    (hfl : ∀ q x, Entry.data x ∈ s.env.logs q → x < r) (hfb : ∀ x, x ∈ s.bad → x < r)
    (hr : r < s.nRec) : Inv (sendAccepted s p r).toCore := by
  unfold sendAccepted
  by_cases hp : p ∈ s.parts
  · simp only [hp, if_true]
    exact produce_inv _ p r h hst hfl hfb hr
  · simp only [hp, if_false]
    have hok := request_ok s .addParts (.addParts p) (·.addParts p) (·.addParts p) (addParts_idem _ _)
    have hnok := request_nok s .addParts (.addParts p) (·.addParts p) (·.addParts p)
    generalize request s .addParts (.addParts p) (·.addParts p) (·.addParts p) = rq at hok hnok
    obtain ⟨s1, v⟩ := rq
    simp only at hok hnok
    cases v with
    | ok =>
      have hc := hok rfl
      simp only
      have h1 : Inv ({ s1 with parts := s1.parts ++ [p] }).toCore := by
        show Inv { s1.toCore with parts := s1.toCore.parts ++ [p] }
        rw [hc]
        exact Inv.addParts h p hst hp
      apply produce_inv _ p r h1
      · show s1.toCore.st = .inTxn
        rw [hc]; exact hst
      · intro q x hx
        change Entry.data x ∈ s1.toCore.env.logs q at hx
        rw [hc] at hx
        simp only [addParts_logs] at hx
        exact hfl q x hx
      · intro x hx
        change x ∈ s1.toCore.bad at hx
        rw [hc] at hx
        exact hfb x hx
      · show r < s1.toCore.nRec
        rw [hc]; exact hr
    | abrt =>
      have hc := hnok (by simp)
      simp only
      show Inv { s1.toCore with st := .abortable }
      rw [hc]
      exact Inv.set_st h _ (Or.inr (Or.inl rfl)) (by simp [hst])
    | fatal =>
      have hc := hnok (by simp)
      simp only
      show Inv { s1.toCore with st := .fatal }
      rw [hc]
      exact Inv.set_st h _ (Or.inr (Or.inr rfl)) (by simp [hst])

theorem doSend_inv (s : Sys) (p : Nat) (h : Inv s.toCore) (hst : s.st = .inTxn) :
    Inv (doSend s p).toCore := by
  unfold doSend
  apply sendAccepted_inv
  · exact Inv.accept h
  · exact hst
  · exact h.fresh_log
  · exact h.fresh_bad
  · exact Nat.lt_succ_self _


theorem offsAccepted_inv (s : Sys) (o : Nat) (h : Inv s.toCore) (hst : s.st = .inTxn) :
    Inv (offsAccepted s o).toCore := by
  unfold offsAccepted
  -- phase 1: the group is (made) part of the transaction
  have hph1 : ∀ (s1 : Sys) (v : Verdict),
      (if s.grp then (s, Verdict.ok)
       else
        let (s1, v) := request s .addOffs .addOffs (·.addOffs) (·.addOffs)
        (if v = .ok then { s1 with grp := true } else s1, v)) = (s1, v) →
      (v = .ok → Inv s1.toCore ∧ s1.st = .inTxn ∧ s1.grp = true) ∧
      (v ≠ .ok → s1.toCore = s.toCore) := by
    intro s1 v heq
    by_cases hg : s.grp = true
    · simp only [hg, if_true, Prod.mk.injEq] at heq
      obtain ⟨rfl, rfl⟩ := heq
      exact ⟨fun _ => ⟨h, hst, hg⟩, fun hne => absurd rfl hne⟩
    · simp only [hg, Bool.false_eq_true, if_false] at heq
      have hok := request_ok s .addOffs .addOffs (·.addOffs) (·.addOffs) (addOffs_idem _)
      have hnok := request_nok s .addOffs .addOffs (·.addOffs) (·.addOffs)
      generalize request s .addOffs .addOffs (·.addOffs) (·.addOffs) = rq at hok hnok heq
      obtain ⟨s0, v0⟩ := rq
      simp only [Prod.mk.injEq] at heq hok hnok
      obtain ⟨hs1, rfl⟩ := heq
      constructor
      · intro hv
        subst hv
        simp only [if_true] at hs1
        subst hs1
        have hc := hok rfl
        refine ⟨?_, ?_, rfl⟩
        · show Inv { s0.toCore with grp := true }
          rw [hc]
          exact Inv.addOffs h hst
        · show s0.toCore.st = .inTxn
          rw [hc]; exact hst
      · intro hv
        simp only [hv, if_false] at hs1
        subst hs1
        exact hnok hv
  generalize hq : (if s.grp then (s, Verdict.ok)
       else
        let (s1, v) := request s .addOffs .addOffs (·.addOffs) (·.addOffs)
        (if v = .ok then { s1 with grp := true } else s1, v)) = q
  obtain ⟨s1, v⟩ := q
  obtain ⟨h1ok, h1nok⟩ := hph1 s1 v hq
  simp only
  cases v with
  | abrt =>
    have hc := h1nok (by simp)
    show Inv { s1.toCore with st := .abortable }
    rw [hc]
    exact Inv.set_st h _ (Or.inr (Or.inl rfl)) (by simp [hst])
  | fatal =>
    have hc := h1nok (by simp)
    show Inv { s1.toCore with st := .fatal }
    rw [hc]
    exact Inv.set_st h _ (Or.inr (Or.inr rfl)) (by simp [hst])
  | ok =>
    obtain ⟨hi1, hst1, hg1⟩ := h1ok rfl
    simp only
    have hok := request_ok s1 .offsCommit (.offsCommit o) (·.offsCommit o) (·.offsCommit o)
      (offsCommit_idem _ _)
    have hnok := request_nok s1 .offsCommit (.offsCommit o) (·.offsCommit o) (·.offsCommit o)
    generalize request s1 .offsCommit (.offsCommit o) (·.offsCommit o) (·.offsCommit o) = rq at hok hnok
    obtain ⟨s2, v2⟩ := rq
    simp only at hok hnok
    cases v2 with
    | ok =>
      have hc := hok rfl
      simp only
      show Inv { s2.toCore with curOff := some o }
      rw [hc]
      exact Inv.offsCommit hi1 hst1 hg1 o
    | abrt =>
      have hc := hnok (by simp)
      simp only
      show Inv { s2.toCore with st := .abortable }
      rw [hc]
      exact Inv.set_st hi1 _ (Or.inr (Or.inl rfl)) (by simp [hst1])
    | fatal =>
      have hc := hnok (by simp)
      simp only
      show Inv { s2.toCore with st := .fatal }
      rw [hc]
      exact Inv.set_st hi1 _ (Or.inr (Or.inr rfl)) (by simp [hst1])

theorem doSendOffsets_inv (s : Sys) (h : Inv s.toCore) (hst : s.st = .inTxn) :
    Inv (doSendOffsets s).toCore := by
  unfold doSendOffsets
  exact offsAccepted_inv _ _ h hst

theorem endTxn_of_ongoing (e e' : Env) (c : Bool) (ho : e.ongoing = true) (h : e.endTxn c = some e') :
    e' = e.finish c := by
  simp [Env.endTxn, ho] at h
  exact h.symm

theorem doEnd_inv (s : Sys) (c : Bool) (h : Inv s.toCore) (hst : s.st = .inTxn ∨ s.st = .abortable) :
    Inv (doEnd s c).toCore := by
  have hnf : s.st ≠ .fatal := by rcases hst with h1 | h1 <;> simp [h1]
  unfold doEnd
  by_cases he : s.parts = [] ∧ s.grp = false
  · simp only [he, and_self, if_true]
    exact Inv.complete_empty h hnf he c
  · simp only [he, if_false]
    cases hend : s.env.endTxn c with
    | none =>
      simp only
      show Inv { s.toCore with st := .fatal }
      exact Inv.set_st h _ (Or.inr (Or.inr rfl)) hnf
    | some e' =>
      simp only
      obtain ⟨hpa, hga, hoa⟩ := h.agree hnf
      have hon : s.env.ongoing = true := by
        apply hoa.mpr
        by_cases hp : s.parts = []
        · right
          cases hg : s.grp with
          | true => rfl
          | false => exact absurd ⟨hp, hg⟩ he
        · exact Or.inl hp
      have he' := endTxn_of_ongoing _ _ _ hon hend
      have hag : (fun e => match e.endTxn c with | some e2 => e2 | none => e) ((fun _ => e') s.env) =
          (fun _ => e') s.env := by
        simp only [endTxn_again _ _ _ hend]
      have hok := request_ok s .endTxn (.endTxn c) (fun _ => e')
        (fun e => match e.endTxn c with | some e2 => e2 | none => e) hag
      have hnok := request_nok s .endTxn (.endTxn c) (fun _ => e')
        (fun e => match e.endTxn c with | some e2 => e2 | none => e)
      generalize request s .endTxn (.endTxn c) (fun _ => e')
        (fun e => match e.endTxn c with | some e2 => e2 | none => e) = rq at hok hnok
      obtain ⟨s1, v⟩ := rq
      simp only at hok hnok
      cases v with
      | ok =>
        have hc := hok rfl
        simp only
        show Inv { (s1.toCore.settle c) with st := .ready, parts := [], grp := false }
        rw [hc, he']
        exact Inv.complete_finish h c
      | abrt =>
        have hc := hnok (by simp)
        simp only
        show Inv { s1.toCore with st := .fatal }
        rw [hc]
        exact Inv.set_st h _ (Or.inr (Or.inr rfl)) hnf
      | fatal =>
        have hc := hnok (by simp)
        simp only
        show Inv { s1.toCore with st := .fatal }
        rw [hc]
        exact Inv.set_st h _ (Or.inr (Or.inr rfl)) hnf

theorem doRestart_inv (s : Sys) (h : Inv s.toCore) : Inv (doRestart s).toCore := by
  unfold doRestart
  exact Inv.restart h

theorem step_inv (s : Sys) (c : Call) (h : Inv s.toCore) : Inv (step s c).toCore := by
  cases c with
  | begin =>
    simp only [step]
    by_cases hs : s.st = .ready
    · simp only [hs, if_true]
      show Inv { s.toCore with st := .inTxn }
      exact Inv.set_st h _ (Or.inl rfl) (by simp [hs])
    · simp only [hs, if_false]; exact h
  | send p =>
    simp only [step]
    by_cases hs : s.st = .inTxn
    · simp only [hs, if_true]; exact doSend_inv s p h hs
    · simp only [hs, if_false]; exact h
  | sendOffsets =>
    simp only [step]
    by_cases hs : s.st = .inTxn
    · simp only [hs, if_true]; exact doSendOffsets_inv s h hs
    · simp only [hs, if_false]; exact h
  | commit =>
    simp only [step]
    by_cases hs : s.st = .inTxn
    · simp only [hs, if_true]; exact doEnd_inv s true h (Or.inl hs)
    · simp only [hs, if_false]
      by_cases ha : s.st = .abortable
      · simp only [ha, if_true]; exact h
      · simp only [ha, if_false]; exact h
  | abort =>
    simp only [step]
    by_cases hs : s.st = .inTxn ∨ s.st = .abortable
    · simp only [hs, if_true]; exact doEnd_inv s false h hs
    · simp only [hs, if_false]; exact h
  | exitOk =>
    simp only [step]
    by_cases hs : s.st = .inTxn
    · simp only [hs, if_true]; exact doEnd_inv s true h (Or.inl hs)
    · simp only [hs, if_false]
      by_cases ha : s.st = .abortable
      · simp only [ha, if_true]; exact h
      · simp only [ha, if_false]; exact h
  | exitExc =>
    simp only [step]
    by_cases hf : s.st = .fatal
    · simp only [hf, if_true]; exact h
    · simp only [hf, if_false]
      by_cases hs : s.st = .inTxn ∨ s.st = .abortable
      · simp only [hs, if_true]; exact doEnd_inv s false h hs
      · simp only [hs, if_false]; exact h
  | restart => exact doRestart_inv s h

theorem run_inv (cs : List Call) : ∀ (s : Sys), Inv s.toCore → Inv (run s cs).toCore := by
  induction cs with
  | nil => intro s h; exact h
  | cons c cs ih => intro s h; exact ih _ (step_inv s c h)


/-! ## the protocol order on the request log -/

theorem chk_cons (r : Req) (l : List Req) : chk (r :: l) = (chk l).bind (fun o => ordStep o r) := rfl

theorem chk_append_some : ∀ (l1 l2 : List Req) (o : OState), chk (l1 ++ l2) = some o →
    ∃ o2, chk l2 = some o2 := by
  intro l1
  induction l1 with
  | nil => intro l2 o h; exact ⟨o, h⟩
  | cons x l1 ih =>
    intro l2 o h
    rw [List.cons_append, chk_cons] at h
    cases hc : chk (l1 ++ l2) with
    | none => rw [hc] at h; cases h
    | some o1 => exact ih l2 o1 hc

/-- wherever a request sits in an accepted log, it was legal in the state reached before it -/
theorem chk_split (l1 l2 : List Req) (x : Req) (h : orderOk (l1 ++ x :: l2) = true) :
    ∃ o2, chk l2 = some o2 ∧ (ordStep o2 x).isSome = true := by
  unfold orderOk at h
  cases hc : chk (l1 ++ x :: l2) with
  | none => rw [hc] at h; cases h
  | some o =>
    obtain ⟨o1, h1⟩ := chk_append_some l1 (x :: l2) o hc
    rw [chk_cons] at h1
    cases h2 : chk l2 with
    | none => rw [h2] at h1; cases h1
    | some o2 =>
      rw [h2] at h1
      exact ⟨o2, rfl, by simp only [Option.bind] at h1; rw [h1]; rfl⟩

/-- what the five possible courses of a request leave in the log -/
theorem request_reqs (s : Sys) (a : Api) (mk : Code → Req) (ap ag : Env → Env) :
    ((request s a mk ap ag).2 = .ok ∧
      ((request s a mk ap ag).1.reqs = mk .ok :: s.reqs ∨
       (request s a mk ap ag).1.reqs = mk .ok :: mk .retr :: s.reqs ∨
       (request s a mk ap ag).1.reqs = mk .ok :: mk .lost :: s.reqs)) ∨
    ((request s a mk ap ag).2 = .abrt ∧ (request s a mk ap ag).1.reqs = mk .abrt :: s.reqs) ∨
    ((request s a mk ap ag).2 = .fatal ∧ (request s a mk ap ag).1.reqs = mk .fatal :: s.reqs) := by
  unfold request fire
  cases hf : s.fault with
  | none => simp
  | some f =>
    simp only
    by_cases hc : f.api = a ∧ f.nth = s.cnt.get a ∧ applicable a f.kind = true
    · simp only [hc, and_self, if_true]
      cases hk : f.kind <;> simp
    · simp only [hc, if_false]
      simp

/-- the state of the order checker that corresponds to a quiescent producer -/
def ordOf (k : Core) : OState := { reg := k.parts, grp := k.grp, unacked := [], ending := false }

/-- the request log is in protocol order and the checker's view equals the manager's -/
def OrdInv (s : Sys) : Prop :=
  ∃ o, chk s.reqs = some o ∧ (s.st ≠ .fatal → o = ordOf s.toCore)

theorem ordInv_frame {s s' : Sys} (h : OrdInv s) (hr : s'.reqs = s.reqs) (hs : s'.st = s.st)
    (hp : s'.parts = s.parts) (hg : s'.grp = s.grp) : OrdInv s' := by
  obtain ⟨o, h1, h2⟩ := h
  refine ⟨o, by rw [hr]; exact h1, ?_⟩
  intro hst
  rw [hs] at hst
  rw [h2 hst]
  show ordOf s.toCore = ordOf s'.toCore
  unfold ordOf
  show _ = ({ reg := s'.parts, grp := s'.grp, unacked := [], ending := false } : OState)
  rw [hp, hg]

theorem request_ord (s : Sys) (a : Api) (mk : Code → Req) (ap ag : Env → Env)
    (o o1 o2 o' oa ofa : OState) (hchk : chk s.reqs = some o)
    (h1 : ordStep o (mk .retr) = some o1) (h1' : ordStep o1 (mk .ok) = some o')
    (h2 : ordStep o (mk .lost) = some o2) (h2' : ordStep o2 (mk .ok) = some o')
    (h3 : ordStep o (mk .ok) = some o') (h4 : ordStep o (mk .abrt) = some oa)
    (h5 : ordStep o (mk .fatal) = some ofa) :
    ((request s a mk ap ag).2 = .ok → chk (request s a mk ap ag).1.reqs = some o') ∧
    ((request s a mk ap ag).2 = .abrt → chk (request s a mk ap ag).1.reqs = some oa) ∧
    ((request s a mk ap ag).2 = .fatal → chk (request s a mk ap ag).1.reqs = some ofa) := by
  rcases request_reqs s a mk ap ag with ⟨hv, hr | hr | hr⟩ | ⟨hv, hr⟩ | ⟨hv, hr⟩
  · rw [hv, hr]; simp [chk_cons, hchk, h3]
  · rw [hv, hr]; simp [chk_cons, hchk, h1, h1']
  · rw [hv, hr]; simp [chk_cons, hchk, h2, h2']
  · rw [hv, hr]; simp [chk_cons, hchk, h4]
  · rw [hv, hr]; simp [chk_cons, hchk, h5]

theorem produce_ord (s : Sys) (p r : Nat) (h : OrdInv s) (hst : s.st = .inTxn) (hp : p ∈ s.parts) :
    OrdInv (produce s p r) := by
  obtain ⟨o, h1, h2⟩ := h
  have ho := h2 (by simp [hst])
  subst ho
  unfold produce
  cases ha : s.leaderAccepts p r with
  | none =>
    simp only
    refine ⟨ordOf s.toCore, ?_, fun _ => rfl⟩
    show chk (Req.produce p r .fatal :: s.reqs) = _
    have hp' : p ∈ s.toCore.parts := hp
    simp [chk_cons, h1, ordStep, ordOf, hp', Code.final]
  | some e' =>
    simp only
    have hp' : p ∈ s.toCore.parts := hp
    have hok := request_produce_ok s (.produce p r) (fun _ => e') id
    have hc := request_ok s .produce (.produce p r) (fun _ => e') id rfl hok
    have hord := (request_ord s .produce (.produce p r) (fun _ => e') id (ordOf s.toCore)
      { ordOf s.toCore with unacked := [r] } { ordOf s.toCore with unacked := [r] } (ordOf s.toCore)
      (ordOf s.toCore) (ordOf s.toCore) h1
      (by simp [ordStep, ordOf, hp', Code.final]) (by simp [ordStep, ordOf, hp', Code.final])
      (by simp [ordStep, ordOf, hp', Code.final]) (by simp [ordStep, ordOf, hp', Code.final])
      (by simp [ordStep, ordOf, hp', Code.final]) (by simp [ordStep, ordOf, hp', Code.final])
      (by simp [ordStep, ordOf, hp', Code.final])).1 hok
    generalize request s .produce (.produce p r) (fun _ => e') id = rq at hok hc hord
    obtain ⟨s1, v⟩ := rq
    simp only at hok hc hord
    refine ⟨ordOf s.toCore, hord, ?_⟩
    intro _
    show ordOf s.toCore = ordOf { s1.toCore with cur := r :: s1.toCore.cur }
    rw [hc]; rfl

theorem sendAccepted_ord (s : Sys) (p r : Nat) (h : OrdInv s) (hst : s.st = .inTxn) :
    OrdInv (sendAccepted s p r) := by
  unfold sendAccepted
  by_cases hp : p ∈ s.parts
  · simp only [hp, if_true]
    exact produce_ord s p r h hst hp
  · simp only [hp, if_false]
    obtain ⟨o, h1, h2⟩ := h
    have ho := h2 (by simp [hst])
    subst ho
    have hp' : p ∉ s.toCore.parts := hp
    have hok := request_ok s .addParts (.addParts p) (·.addParts p) (·.addParts p) (addParts_idem _ _)
    have hnok := request_nok s .addParts (.addParts p) (·.addParts p) (·.addParts p)
    have hord := request_ord s .addParts (.addParts p) (·.addParts p) (·.addParts p) (ordOf s.toCore)
      (ordOf s.toCore) (ordOf s.toCore) { ordOf s.toCore with reg := s.parts ++ [p] }
      (ordOf s.toCore) (ordOf s.toCore) h1
      (by simp [ordStep, ordOf]) (by simp [ordStep, ordOf, hp']) (by simp [ordStep, ordOf])
      (by simp [ordStep, ordOf, hp']) (by simp [ordStep, ordOf, hp']) (by simp [ordStep, ordOf])
      (by simp [ordStep, ordOf])
    generalize request s .addParts (.addParts p) (·.addParts p) (·.addParts p) = rq at hok hnok hord
    obtain ⟨s1, v⟩ := rq
    simp only at hok hnok hord
    cases v with
    | ok =>
      have hc := hok rfl
      simp only
      apply produce_ord
      · refine ⟨_, hord.1 rfl, ?_⟩
        intro _
        show _ = ordOf { s1.toCore with parts := s1.toCore.parts ++ [p] }
        rw [hc]; rfl
      · show s1.toCore.st = .inTxn
        rw [hc]; exact hst
      · show p ∈ s1.toCore.parts ++ [p]
        simp
    | abrt =>
      have hc := hnok (by simp)
      simp only
      refine ⟨_, hord.2.1 rfl, ?_⟩
      intro _
      show _ = ordOf { s1.toCore with st := .abortable }
      rw [hc]; rfl
    | fatal =>
      simp only
      refine ⟨_, hord.2.2 rfl, ?_⟩
      intro hne
      exact absurd rfl hne


theorem offsAccepted_ord (s : Sys) (o : Nat) (h : OrdInv s) (hst : s.st = .inTxn) :
    OrdInv (offsAccepted s o) := by
  unfold offsAccepted
  have hph1 : ∀ (s1 : Sys) (v : Verdict),
      (if s.grp then (s, Verdict.ok)
       else
        let (s1, v) := request s .addOffs .addOffs (·.addOffs) (·.addOffs)
        (if v = .ok then { s1 with grp := true } else s1, v)) = (s1, v) →
      (v = .ok → OrdInv s1 ∧ s1.st = .inTxn ∧ s1.grp = true) ∧
      (v ≠ .ok → chk s1.reqs = some (ordOf s.toCore) ∧ s1.toCore = s.toCore) := by
    intro s1 v heq
    obtain ⟨o0, h1, h2⟩ := h
    have ho := h2 (by simp [hst])
    subst ho
    by_cases hg : s.grp = true
    · simp only [hg, if_true, Prod.mk.injEq] at heq
      obtain ⟨rfl, rfl⟩ := heq
      exact ⟨fun _ => ⟨⟨_, h1, fun _ => rfl⟩, hst, hg⟩, fun hne => absurd rfl hne⟩
    · simp only [hg, Bool.false_eq_true, if_false] at heq
      have hok := request_ok s .addOffs .addOffs (·.addOffs) (·.addOffs) (addOffs_idem _)
      have hnok := request_nok s .addOffs .addOffs (·.addOffs) (·.addOffs)
      have hord := request_ord s .addOffs .addOffs (·.addOffs) (·.addOffs) (ordOf s.toCore)
        (ordOf s.toCore) (ordOf s.toCore) { ordOf s.toCore with grp := true }
        (ordOf s.toCore) (ordOf s.toCore) h1
        (by simp [ordStep, ordOf]) (by simp [ordStep, ordOf]) (by simp [ordStep, ordOf])
        (by simp [ordStep, ordOf]) (by simp [ordStep, ordOf]) (by simp [ordStep, ordOf])
        (by simp [ordStep, ordOf])
      generalize request s .addOffs .addOffs (·.addOffs) (·.addOffs) = rq at hok hnok hord heq
      obtain ⟨s0, v0⟩ := rq
      simp only [Prod.mk.injEq] at heq hok hnok hord
      obtain ⟨hs1, rfl⟩ := heq
      constructor
      · intro hv
        subst hv
        simp only [if_true] at hs1
        subst hs1
        have hc := hok rfl
        refine ⟨⟨_, hord.1 rfl, ?_⟩, ?_, rfl⟩
        · intro _
          show _ = ordOf { s0.toCore with grp := true }
          rw [hc]; rfl
        · show s0.toCore.st = .inTxn
          rw [hc]; exact hst
      · intro hv
        simp only [hv, if_false] at hs1
        subst hs1
        refine ⟨?_, hnok hv⟩
        cases v0 with
        | ok => exact absurd rfl hv
        | abrt => exact hord.2.1 rfl
        | fatal => exact hord.2.2 rfl
  generalize hq : (if s.grp then (s, Verdict.ok)
       else
        let (s1, v) := request s .addOffs .addOffs (·.addOffs) (·.addOffs)
        (if v = .ok then { s1 with grp := true } else s1, v)) = q
  obtain ⟨s1, v⟩ := q
  obtain ⟨h1ok, h1nok⟩ := hph1 s1 v hq
  simp only
  cases v with
  | abrt =>
    obtain ⟨hch, hc⟩ := h1nok (by simp)
    refine ⟨_, hch, ?_⟩
    intro _
    show _ = ordOf { s1.toCore with st := .abortable }
    rw [hc]; rfl
  | fatal =>
    obtain ⟨hch, hc⟩ := h1nok (by simp)
    exact ⟨_, hch, fun hne => absurd rfl hne⟩
  | ok =>
    obtain ⟨hi1, hst1, hg1⟩ := h1ok rfl
    simp only
    obtain ⟨o1, hc1, ho1⟩ := hi1
    have ho := ho1 (by simp [hst1])
    subst ho
    have hg1' : s1.toCore.grp = true := hg1
    have hok := request_ok s1 .offsCommit (.offsCommit o) (·.offsCommit o) (·.offsCommit o)
      (offsCommit_idem _ _)
    have hnok := request_nok s1 .offsCommit (.offsCommit o) (·.offsCommit o) (·.offsCommit o)
    have hord := request_ord s1 .offsCommit (.offsCommit o) (·.offsCommit o) (·.offsCommit o)
      (ordOf s1.toCore) (ordOf s1.toCore) (ordOf s1.toCore) (ordOf s1.toCore)
      (ordOf s1.toCore) (ordOf s1.toCore) hc1
      (by simp [ordStep, ordOf, hg1']) (by simp [ordStep, ordOf, hg1']) (by simp [ordStep, ordOf, hg1'])
      (by simp [ordStep, ordOf, hg1']) (by simp [ordStep, ordOf, hg1']) (by simp [ordStep, ordOf, hg1'])
      (by simp [ordStep, ordOf, hg1'])
    generalize request s1 .offsCommit (.offsCommit o) (·.offsCommit o) (·.offsCommit o) = rq
      at hok hnok hord
    obtain ⟨s2, v2⟩ := rq
    simp only at hok hnok hord
    cases v2 with
    | ok =>
      have hc := hok rfl
      simp only
      refine ⟨_, hord.1 rfl, ?_⟩
      intro _
      show _ = ordOf { s2.toCore with curOff := some o }
      rw [hc]; rfl
    | abrt =>
      have hc := hnok (by simp)
      simp only
      refine ⟨_, hord.2.1 rfl, ?_⟩
      intro _
      show _ = ordOf { s2.toCore with st := .abortable }
      rw [hc]; rfl
    | fatal =>
      simp only
      exact ⟨_, hord.2.2 rfl, fun hne => absurd rfl hne⟩

theorem doEnd_ord (s : Sys) (c : Bool) (h : OrdInv s) (hst : s.st = .inTxn ∨ s.st = .abortable) :
    OrdInv (doEnd s c) := by
  have hnf : s.st ≠ .fatal := by rcases hst with h1 | h1 <;> simp [h1]
  obtain ⟨o0, h1, h2⟩ := h
  have ho := h2 hnf
  subst ho
  unfold doEnd
  by_cases he : s.parts = [] ∧ s.grp = false
  · simp only [he, and_self, if_true]
    refine ⟨_, h1, ?_⟩
    intro _
    have h3 : s.toCore.parts = [] := he.1
    have h4 : s.toCore.grp = false := he.2
    simp [ordOf, Sys.complete, Sys.result, h3, h4]
  · simp only [he, if_false]
    cases hend : s.env.endTxn c with
    | none =>
      simp only
      refine ⟨{ ordOf s.toCore with ending := true }, ?_, fun hne => absurd rfl hne⟩
      show chk (Req.endTxn c .fatal :: s.reqs) = _
      simp [chk_cons, h1, ordStep, ordOf]
    | some e' =>
      simp only
      have hord := request_ord s .endTxn (.endTxn c) (fun _ => e')
        (fun e => match e.endTxn c with | some e2 => e2 | none => e) (ordOf s.toCore)
        { ordOf s.toCore with ending := true } { ordOf s.toCore with ending := true } {}
        { ordOf s.toCore with ending := true } { ordOf s.toCore with ending := true } h1
        (by simp [ordStep, ordOf]) (by simp [ordStep, ordOf]) (by simp [ordStep, ordOf])
        (by simp [ordStep, ordOf]) (by simp [ordStep, ordOf]) (by simp [ordStep, ordOf])
        (by simp [ordStep, ordOf])
      generalize request s .endTxn (.endTxn c) (fun _ => e')
        (fun e => match e.endTxn c with | some e2 => e2 | none => e) = rq at hord
      obtain ⟨s1, v⟩ := rq
      simp only at hord
      cases v with
      | ok =>
        simp only
        refine ⟨_, hord.1 rfl, ?_⟩
        intro _
        simp [ordOf, Sys.complete, Sys.result]
      | abrt =>
        simp only
        exact ⟨_, hord.2.1 rfl, fun hne => absurd rfl hne⟩
      | fatal =>
        simp only
        exact ⟨_, hord.2.2 rfl, fun hne => absurd rfl hne⟩

theorem step_ord (s : Sys) (c : Call) (h : OrdInv s) : OrdInv (step s c) := by
  have hres : ∀ r, OrdInv (s.result r) := fun r => ordInv_frame h rfl rfl rfl rfl
  have href : OrdInv s.refuse := by unfold Sys.refuse; exact hres _
  cases c with
  | begin =>
    simp only [step]
    by_cases hs : s.st = .ready
    · simp only [hs, if_true]
      obtain ⟨o, h1, h2⟩ := h
      refine ⟨o, h1, ?_⟩
      intro _
      rw [h2 (by simp [hs])]; rfl
    · simp only [hs, if_false]; exact href
  | send p =>
    simp only [step]
    by_cases hs : s.st = .inTxn
    · simp only [hs, if_true]
      unfold doSend
      exact sendAccepted_ord _ p _ (ordInv_frame h rfl rfl rfl rfl) hs
    · simp only [hs, if_false]; exact href
  | sendOffsets =>
    simp only [step]
    by_cases hs : s.st = .inTxn
    · simp only [hs, if_true]
      unfold doSendOffsets
      exact offsAccepted_ord _ _ (ordInv_frame h rfl rfl rfl rfl) hs
    · simp only [hs, if_false]; exact href
  | commit =>
    simp only [step]
    by_cases hs : s.st = .inTxn
    · simp only [hs, if_true]; exact doEnd_ord s true h (Or.inl hs)
    · simp only [hs, if_false]
      by_cases ha : s.st = .abortable
      · simp only [ha, if_true]; exact hres _
      · simp only [ha, if_false]; exact href
  | abort =>
    simp only [step]
    by_cases hs : s.st = .inTxn ∨ s.st = .abortable
    · simp only [hs, if_true]; exact doEnd_ord s false h hs
    · simp only [hs, if_false]; exact href
  | exitOk =>
    simp only [step]
    by_cases hs : s.st = .inTxn
    · simp only [hs, if_true]; exact doEnd_ord s true h (Or.inl hs)
    · simp only [hs, if_false]
      by_cases ha : s.st = .abortable
      · simp only [ha, if_true]; exact hres _
      · simp only [ha, if_false]; exact href
  | exitExc =>
    simp only [step]
    by_cases hf : s.st = .fatal
    · simp only [hf, if_true]; exact hres _
    · simp only [hf, if_false]
      by_cases hs : s.st = .inTxn ∨ s.st = .abortable
      · simp only [hs, if_true]; exact doEnd_ord s false h hs
      · simp only [hs, if_false]; exact href
  | restart =>
    simp only [step, doRestart]
    obtain ⟨o, h1, _⟩ := h
    refine ⟨{}, ?_, ?_⟩
    · show chk (Req.init :: s.reqs) = _
      simp [chk_cons, h1, ordStep]
    · intro _; rfl

theorem run_ord (cs : List Call) : ∀ (s : Sys), OrdInv s → OrdInv (run s cs) := by
  induction cs with
  | nil => intro s h; exact h
  | cons c cs ih => intro s h; exact ih _ (step_ord s c h)

theorem init_ord (f : Option Fault) : OrdInv (init f) :=
  ⟨{}, rfl, fun _ => rfl⟩


/-! ## faults: a fault fires at most once; only retriable faults never fail anything -/

/-- the scheduled fault (if any) lies behind the request counters: it can no longer fire -/
def Fired (s : Sys) : Prop := ∀ f, s.fault = some f → f.nth < s.cnt.get f.api

/-- only retriable kinds are scheduled -/
def Benign (s : Sys) : Prop := ∀ f, s.fault = some f → f.kind = .retr ∨ f.kind = .lost

theorem Cnt.get_bump_self (c : Cnt) (a : Api) : (c.bump a).get a = c.get a + 1 := by
  cases a <;> rfl

theorem Cnt.get_bump_le (c : Cnt) (a b : Api) : c.get b ≤ (c.bump a).get b := by
  cases a <;> cases b <;> simp [Cnt.get, Cnt.bump]

theorem request_cnt_le (s : Sys) (a : Api) (mk : Code → Req) (ap ag : Env → Env) (b : Api) :
    s.cnt.get b ≤ (request s a mk ap ag).1.cnt.get b := by
  unfold request fire
  have h1 := Cnt.get_bump_le s.cnt a b
  have h2 := Cnt.get_bump_le (s.cnt.bump a) a b
  cases hf : s.fault with
  | none => simpa using h1
  | some f =>
    simp only
    by_cases hc : f.api = a ∧ f.nth = s.cnt.get a ∧ applicable a f.kind = true
    · simp only [hc, and_self, if_true]
      cases hk : f.kind <;> simp <;> omega
    · simp only [hc, if_false]
      simpa using h1

/-- after a request whose verdict was not `ok`, the fault has fired -/
theorem request_nok_fired (s : Sys) (a : Api) (mk : Code → Req) (ap ag : Env → Env)
    (hv : (request s a mk ap ag).2 ≠ .ok) : Fired (request s a mk ap ag).1 := by
  revert hv
  unfold request fire Fired
  cases hf : s.fault with
  | none => simp
  | some f =>
    simp only
    by_cases hc : f.api = a ∧ f.nth = s.cnt.get a ∧ applicable a f.kind = true
    · simp only [hc, and_self, if_true]
      obtain ⟨h1, h2, _⟩ := hc
      cases hk : f.kind <;> simp [h1, h2, Cnt.get_bump_self]
    · simp only [hc, if_false]
      simp

theorem request_fired (s : Sys) (a : Api) (mk : Code → Req) (ap ag : Env → Env) (h : Fired s) :
    (request s a mk ap ag).2 = .ok ∧ (request s a mk ap ag).1.reqs = mk .ok :: s.reqs := by
  unfold request fire
  cases hf : s.fault with
  | none => simp
  | some f =>
    have := h f hf
    simp only
    by_cases hc : f.api = a ∧ f.nth = s.cnt.get a ∧ applicable a f.kind = true
    · obtain ⟨h1, h2, _⟩ := hc
      subst h1
      omega
    · simp only [hc, if_false]
      simp

theorem request_benign (s : Sys) (a : Api) (mk : Code → Req) (ap ag : Env → Env) (h : Benign s) :
    (request s a mk ap ag).2 = .ok := by
  unfold request fire
  cases hf : s.fault with
  | none => simp
  | some f =>
    simp only
    by_cases hc : f.api = a ∧ f.nth = s.cnt.get a ∧ applicable a f.kind = true
    · simp only [hc, and_self, if_true]
      rcases h f hf with hk | hk <;> simp [hk]
    · simp only [hc, if_false]


/-- the fault schedule is fixed and the request counters only grow -/
def Mono (s s' : Sys) : Prop := s'.fault = s.fault ∧ ∀ b, s.cnt.get b ≤ s'.cnt.get b

theorem Mono.refl (s : Sys) : Mono s s := ⟨rfl, fun _ => Nat.le_refl _⟩

theorem Mono.trans {a b c : Sys} (h1 : Mono a b) (h2 : Mono b c) : Mono a c :=
  ⟨h2.1.trans h1.1, fun x => Nat.le_trans (h1.2 x) (h2.2 x)⟩

theorem Mono.of_eq {s s' : Sys} (hf : s'.fault = s.fault) (hc : s'.cnt = s.cnt) : Mono s s' :=
  ⟨hf, fun b => by rw [hc]; exact Nat.le_refl _⟩

theorem request_mono (s : Sys) (a : Api) (mk : Code → Req) (ap ag : Env → Env) :
    Mono s (request s a mk ap ag).1 :=
  ⟨(request_frame s a mk ap ag).1, request_cnt_le s a mk ap ag⟩

/-- no fault will make a request fail from now on -/
def Quiet (s : Sys) : Prop :=
  ∀ f, s.fault = some f → f.kind = .retr ∨ f.kind = .lost ∨ f.nth < s.cnt.get f.api

theorem Quiet.of_fired {s : Sys} (h : Fired s) : Quiet s := fun f hf => Or.inr (Or.inr (h f hf))
theorem Quiet.of_benign {s : Sys} (h : Benign s) : Quiet s := fun f hf =>
  (h f hf).elim Or.inl (fun h2 => Or.inr (Or.inl h2))

theorem Quiet.mono {s s' : Sys} (h : Quiet s) (hm : Mono s s') : Quiet s' := by
  intro f hf
  rw [hm.1] at hf
  rcases h f hf with h1 | h1 | h1
  · exact Or.inl h1
  · exact Or.inr (Or.inl h1)
  · exact Or.inr (Or.inr (Nat.lt_of_lt_of_le h1 (hm.2 _)))

theorem Fired.mono {s s' : Sys} (h : Fired s) (hm : Mono s s') : Fired s' := by
  intro f hf
  rw [hm.1] at hf
  exact Nat.lt_of_lt_of_le (h f hf) (hm.2 _)

theorem request_quiet (s : Sys) (a : Api) (mk : Code → Req) (ap ag : Env → Env) (h : Quiet s) :
    (request s a mk ap ag).2 = .ok := by
  unfold request fire
  cases hf : s.fault with
  | none => simp
  | some f =>
    simp only
    by_cases hc : f.api = a ∧ f.nth = s.cnt.get a ∧ applicable a f.kind = true
    · simp only [hc, and_self, if_true]
      obtain ⟨h1, h2, _⟩ := hc
      rcases h f hf with hk | hk | hk
      · simp [hk]
      · simp [hk]
      · subst h1; omega
    · simp only [hc, if_false]

/-! ## the happy paths: what a call does when no request fails -/

theorem quiet_no_seqFault (s : Sys) (hq : Quiet s) : s.seqFault = false := by
  cases hs : s.seqFault with
  | false => rfl
  | true =>
    have hf : s.fault = some ⟨.produce, s.cnt.pr, .fatal⟩ := by
      simpa [Sys.seqFault] using hs
    rcases hq _ hf with h1 | h1 | h1
    · cases h1
    · cases h1
    · exact absurd h1 (Nat.lt_irrefl _)

theorem produce_happy (s : Sys) (p r : Nat) (hq : Quiet s) (hb : s.burnt = []) (h : Inv s.toCore)
    (hst : s.st = .inTxn) (hp : p ∈ s.parts) :
    ∃ e', s.env.append p r = some e' ∧
      (produce s p r).toCore = { s.toCore with env := e', cur := r :: s.cur } ∧
      (produce s p r).futs = (r, .ok) :: s.futs ∧ (produce s p r).res = s.res ∧
      (produce s p r).nOff = s.nOff ∧ Mono s (produce s p r) ∧ (produce s p r).burnt = [] := by
  obtain ⟨hpa, hga, hoa⟩ := h.agree (by simp [hst])
  have hpe : p ∈ s.env.parts := by
    have : s.toCore.parts = s.toCore.env.parts := hpa
    exact this ▸ hp
  have hon : s.env.ongoing = true := hoa.mpr (Or.inl (List.ne_nil_of_mem hp))
  have hap : s.env.append p r =
      some { s.env with logs := setLog s.env.logs p (s.env.logs p ++ [.data r]) } := by
    simp [Env.append, hon, hpe]
  have hla : s.leaderAccepts p r =
      some { s.env with logs := setLog s.env.logs p (s.env.logs p ++ [.data r]) } := by
    unfold Sys.leaderAccepts
    rw [quiet_no_seqFault s hq, hb]
    simp [hap]
  refine ⟨_, hap, ?_⟩
  unfold produce
  rw [hla]
  simp only
  have hok := request_produce_ok s (.produce p r)
    (fun _ => { s.env with logs := setLog s.env.logs p (s.env.logs p ++ [.data r]) }) id
  have hc := request_ok s .produce (.produce p r)
    (fun _ => { s.env with logs := setLog s.env.logs p (s.env.logs p ++ [.data r]) }) id rfl hok
  have hfr := request_frame s .produce (.produce p r)
    (fun _ => { s.env with logs := setLog s.env.logs p (s.env.logs p ++ [.data r]) }) id
  have hbu := request_burnt s .produce (.produce p r)
    (fun _ => { s.env with logs := setLog s.env.logs p (s.env.logs p ++ [.data r]) }) id
  have hm := request_mono s .produce (.produce p r)
    (fun _ => { s.env with logs := setLog s.env.logs p (s.env.logs p ++ [.data r]) }) id
  generalize request s .produce (.produce p r)
    (fun _ => { s.env with logs := setLog s.env.logs p (s.env.logs p ++ [.data r]) }) id = rq
    at hok hc hfr hm hbu
  obtain ⟨s1, v⟩ := rq
  simp only at hok hc hfr hm hbu
  refine ⟨?_, ?_, hfr.2.2.2, hfr.2.1, ?_, ?_⟩
  · show ({ s1.toCore with cur := r :: s1.toCore.cur } : Core) = _
    rw [hc]
  · show (r, FRes.ok) :: s1.futs = _
    rw [hfr.2.2.1]
  · exact hm
  · show s1.burnt = []
    rw [hbu, hb]

theorem sendAccepted_happy (s : Sys) (p r : Nat) (hq : Quiet s) (hb : s.burnt = []) (h : Inv s.toCore)
    (hst : s.st = .inTxn) :
    ∃ e' ps, (sendAccepted s p r).toCore = { s.toCore with env := e', parts := ps, cur := r :: s.cur } ∧
      p ∈ ps ∧ (sendAccepted s p r).futs = (r, .ok) :: s.futs ∧ (sendAccepted s p r).res = s.res ∧
      (sendAccepted s p r).nOff = s.nOff ∧ Mono s (sendAccepted s p r) ∧
      (sendAccepted s p r).burnt = [] := by
  unfold sendAccepted
  by_cases hp : p ∈ s.parts
  · simp only [hp, if_true]
    obtain ⟨e', _, hc, hf, hr, hn, hm, hbb⟩ := produce_happy s p r hq hb h hst hp
    exact ⟨e', s.parts, hc, hp, hf, hr, hn, hm, hbb⟩
  · simp only [hp, if_false]
    have hv := request_quiet s .addParts (.addParts p) (·.addParts p) (·.addParts p) hq
    have hok := request_ok s .addParts (.addParts p) (·.addParts p) (·.addParts p) (addParts_idem _ _) hv
    have hfr := request_frame s .addParts (.addParts p) (·.addParts p) (·.addParts p)
    have hbu := request_burnt s .addParts (.addParts p) (·.addParts p) (·.addParts p)
    have hm := request_mono s .addParts (.addParts p) (·.addParts p) (·.addParts p)
    generalize request s .addParts (.addParts p) (·.addParts p) (·.addParts p) = rq at hv hok hfr hm hbu
    obtain ⟨s1, v⟩ := rq
    simp only at hv hok hfr hm hbu
    subst hv
    simp only
    have h1 : Inv ({ s1 with parts := s1.parts ++ [p] }).toCore := by
      show Inv { s1.toCore with parts := s1.toCore.parts ++ [p] }
      rw [hok]
      exact Inv.addParts h p hst hp
    have hst1 : ({ s1 with parts := s1.parts ++ [p] } : Sys).st = .inTxn := by
      show s1.toCore.st = .inTxn
      rw [hok]; exact hst
    have hp1 : p ∈ ({ s1 with parts := s1.parts ++ [p] } : Sys).parts := by
      show p ∈ s1.toCore.parts ++ [p]
      simp
    have hq1 : Quiet ({ s1 with parts := s1.parts ++ [p] } : Sys) :=
      (hq.mono hm).mono (Mono.of_eq rfl rfl)
    have hb1 : ({ s1 with parts := s1.parts ++ [p] } : Sys).burnt = [] := by
      show s1.burnt = []
      rw [hbu, hb]
    obtain ⟨e', _, hc, hf, hr, hn, hm2, hbb⟩ := produce_happy _ p r hq1 hb1 h1 hst1 hp1
    refine ⟨e', s.parts ++ [p], ?_, by simp, ?_, ?_, ?_, ?_, hbb⟩
    · rw [hc]
      show ({ ({ s1.toCore with parts := s1.toCore.parts ++ [p] } : Core) with
              env := e', cur := r :: s1.toCore.cur } : Core) = _
      rw [hok]
    · rw [hf]; show (r, FRes.ok) :: s1.futs = _; rw [hfr.2.2.1]
    · rw [hr]; exact hfr.2.2.2
    · rw [hn]; exact hfr.2.1
    · exact Mono.trans hm (Mono.trans (Mono.of_eq rfl rfl) hm2)

theorem offsAccepted_happy (s : Sys) (o : Nat) (hq : Quiet s) (h : Inv s.toCore)
    (hst : s.st = .inTxn) :
    ∃ e', (offsAccepted s o).toCore = { s.toCore with env := e', grp := true, curOff := some o } ∧
      (offsAccepted s o).futs = s.futs ∧ (offsAccepted s o).res = .ok :: s.res ∧
      (offsAccepted s o).nOff = s.nOff ∧ Mono s (offsAccepted s o) ∧
      (offsAccepted s o).burnt = s.burnt := by
  unfold offsAccepted
  have hph1 : ∀ (s1 : Sys) (v : Verdict),
      (if s.grp then (s, Verdict.ok)
       else
        let (s1, v) := request s .addOffs .addOffs (·.addOffs) (·.addOffs)
        (if v = .ok then { s1 with grp := true } else s1, v)) = (s1, v) →
      v = .ok ∧ (∃ e1, s1.toCore = { s.toCore with env := e1, grp := true }) ∧ Inv s1.toCore ∧
        s1.futs = s.futs ∧ s1.res = s.res ∧ s1.nOff = s.nOff ∧ Mono s s1 ∧ s1.burnt = s.burnt := by
    intro s1 v heq
    by_cases hg : s.grp = true
    · simp only [hg, if_true, Prod.mk.injEq] at heq
      obtain ⟨rfl, rfl⟩ := heq
      refine ⟨rfl, ⟨s.env, ?_⟩, h, rfl, rfl, rfl, Mono.refl _, rfl⟩
      have : s.toCore.grp = true := hg
      cases hk : s.toCore with
      | mk st ps g e n cu co go ba gf =>
        rw [hk] at this
        simp only at this
        subst this
        rfl
    · simp only [hg, Bool.false_eq_true, if_false] at heq
      have hv := request_quiet s .addOffs .addOffs (·.addOffs) (·.addOffs) hq
      have hok := request_ok s .addOffs .addOffs (·.addOffs) (·.addOffs) (addOffs_idem _) hv
      have hfr := request_frame s .addOffs .addOffs (·.addOffs) (·.addOffs)
      have hbu := request_burnt s .addOffs .addOffs (·.addOffs) (·.addOffs)
      have hm := request_mono s .addOffs .addOffs (·.addOffs) (·.addOffs)
      generalize request s .addOffs .addOffs (·.addOffs) (·.addOffs) = rq at hv hok hfr hm heq hbu
      obtain ⟨s0, v0⟩ := rq
      simp only [Prod.mk.injEq] at heq hv hok hfr hm hbu
      subst hv
      simp only [if_true] at heq
      obtain ⟨rfl, rfl⟩ := heq
      refine ⟨rfl, ⟨s.env.addOffs, ?_⟩, ?_, hfr.2.2.1, hfr.2.2.2, hfr.2.1, ?_, hbu⟩
      · show ({ s0.toCore with grp := true } : Core) = _
        rw [hok]
      · show Inv { s0.toCore with grp := true }
        rw [hok]
        exact Inv.addOffs h hst
      · exact Mono.trans hm (Mono.of_eq rfl rfl)
  generalize hqq : (if s.grp then (s, Verdict.ok)
       else
        let (s1, v) := request s .addOffs .addOffs (·.addOffs) (·.addOffs)
        (if v = .ok then { s1 with grp := true } else s1, v)) = q
  obtain ⟨s1, v⟩ := q
  obtain ⟨hv, ⟨e1, hc1⟩, hi1, hf1, hr1, hn1, hm1, hb1⟩ := hph1 s1 v hqq
  subst hv
  simp only
  have hq1 : Quiet s1 := hq.mono hm1
  have hv2 := request_quiet s1 .offsCommit (.offsCommit o) (·.offsCommit o) (·.offsCommit o) hq1
  have hok := request_ok s1 .offsCommit (.offsCommit o) (·.offsCommit o) (·.offsCommit o)
    (offsCommit_idem _ _) hv2
  have hfr := request_frame s1 .offsCommit (.offsCommit o) (·.offsCommit o) (·.offsCommit o)
  have hbu := request_burnt s1 .offsCommit (.offsCommit o) (·.offsCommit o) (·.offsCommit o)
  have hm := request_mono s1 .offsCommit (.offsCommit o) (·.offsCommit o) (·.offsCommit o)
  generalize request s1 .offsCommit (.offsCommit o) (·.offsCommit o) (·.offsCommit o) = rq
    at hv2 hok hfr hm hbu
  obtain ⟨s2, v2⟩ := rq
  simp only at hv2 hok hfr hm hbu
  subst hv2
  simp only
  refine ⟨s1.env.offsCommit o, ?_, ?_, ?_, ?_, ?_, ?_⟩
  · show ({ s2.toCore with curOff := some o } : Core) = _
    rw [hok, hc1]
  · show s2.futs = _; rw [hfr.2.2.1, hf1]
  · show Res.ok :: s2.res = _; rw [hfr.2.2.2, hr1]
  · show s2.nOff = _; rw [hfr.2.1, hn1]
  · exact Mono.trans hm1 (Mono.trans hm (Mono.of_eq rfl rfl))
  · show s2.burnt = _; rw [hbu, hb1]

theorem doEnd_happy (s : Sys) (c : Bool) (hq : Quiet s) (h : Inv s.toCore)
    (hst : s.st = .inTxn ∨ s.st = .abortable) :
    ∃ e', (doEnd s c).toCore =
        { (({ s.toCore with env := e' } : Core).settle c) with st := .ready, parts := [], grp := false } ∧
      (e' = s.env ∨ e' = s.env.finish c) ∧
      (doEnd s c).futs = s.futs ∧ (doEnd s c).res = .ok :: s.res ∧
      (doEnd s c).nOff = s.nOff ∧ Mono s (doEnd s c) ∧ (doEnd s c).burnt = s.burnt := by
  have hnf : s.st ≠ .fatal := by rcases hst with h1 | h1 <;> simp [h1]
  unfold doEnd
  by_cases he : s.parts = [] ∧ s.grp = false
  · rw [if_pos he]
    refine ⟨s.env, ?_, Or.inl rfl, rfl, rfl, rfl, Mono.refl _, rfl⟩
    cases c <;> rfl
  · rw [if_neg he]
    obtain ⟨hpa, hga, hoa⟩ := h.agree hnf
    have hon : s.env.ongoing = true := by
      apply hoa.mpr
      by_cases hp : s.parts = []
      · right
        cases hg : s.grp with
        | true => rfl
        | false => exact absurd ⟨hp, hg⟩ he
      · exact Or.inl hp
    have hend : s.env.endTxn c = some (s.env.finish c) := by simp [Env.endTxn, hon]
    rw [hend]
    simp only
    have hag : (fun e => match e.endTxn c with | some e2 => e2 | none => e)
        ((fun _ => s.env.finish c) s.env) = (fun _ => s.env.finish c) s.env := by
      simp only [endTxn_again _ _ _ hend]
    have hv := request_quiet s .endTxn (.endTxn c) (fun _ => s.env.finish c)
      (fun e => match e.endTxn c with | some e2 => e2 | none => e) hq
    have hok := request_ok s .endTxn (.endTxn c) (fun _ => s.env.finish c)
      (fun e => match e.endTxn c with | some e2 => e2 | none => e) hag hv
    have hfr := request_frame s .endTxn (.endTxn c) (fun _ => s.env.finish c)
      (fun e => match e.endTxn c with | some e2 => e2 | none => e)
    have hm := request_mono s .endTxn (.endTxn c) (fun _ => s.env.finish c)
      (fun e => match e.endTxn c with | some e2 => e2 | none => e)
    have hbu := request_burnt s .endTxn (.endTxn c) (fun _ => s.env.finish c)
      (fun e => match e.endTxn c with | some e2 => e2 | none => e)
    generalize request s .endTxn (.endTxn c) (fun _ => s.env.finish c)
      (fun e => match e.endTxn c with | some e2 => e2 | none => e) = rq at hv hok hfr hm hbu
    obtain ⟨s1, v⟩ := rq
    simp only at hv hok hfr hm hbu
    subst hv
    simp only
    refine ⟨s.env.finish c, ?_, Or.inr rfl, ?_, ?_, ?_, ?_, ?_⟩
    · show ({ (s1.toCore.settle c) with st := .ready, parts := [], grp := false } : Core) = _
      rw [hok]
    · show s1.futs = _; exact hfr.2.2.1
    · show Res.ok :: s1.res = _; rw [hfr.2.2.2]
    · show s1.nOff = _; exact hfr.2.1
    · exact Mono.trans hm (Mono.of_eq rfl rfl)
    · show s1.burnt = _; exact hbu


/-! ## an abortable error means the fault has fired -/

theorem request_st (s : Sys) (a : Api) (mk : Code → Req) (ap ag : Env → Env) :
    (request s a mk ap ag).1.st = s.st := by
  unfold request fire
  cases hf : s.fault with
  | none => simp
  | some f =>
    simp only
    by_cases hc : f.api = a ∧ f.nth = s.cnt.get a ∧ applicable a f.kind = true
    · simp only [hc, and_self, if_true]
      cases hk : f.kind <;> simp
    · simp only [hc, if_false]

theorem produce_st (s : Sys) (p r : Nat) : (produce s p r).st = s.st := by
  unfold produce
  cases ha : s.leaderAccepts p r with
  | none => rfl
  | some e' =>
    simp only
    have := request_st s .produce (.produce p r) (fun _ => e') id
    generalize request s .produce (.produce p r) (fun _ => e') id = rq at this
    obtain ⟨s1, v⟩ := rq
    exact this

theorem fired_frame {s s' : Sys} (h : Fired s) (hf : s'.fault = s.fault) (hc : s'.cnt = s.cnt) :
    Fired s' := h.mono (Mono.of_eq hf hc)

theorem sendAccepted_ab (s : Sys) (p r : Nat) (hst : s.st = .inTxn)
    (hab : (sendAccepted s p r).st = .abortable) : Fired (sendAccepted s p r) := by
  revert hab
  unfold sendAccepted
  by_cases hp : p ∈ s.parts
  · simp only [hp, if_true]
    intro hab
    rw [produce_st, hst] at hab
    cases hab
  · simp only [hp, if_false]
    have hst1 := request_st s .addParts (.addParts p) (·.addParts p) (·.addParts p)
    have hfi := request_nok_fired s .addParts (.addParts p) (·.addParts p) (·.addParts p)
    generalize request s .addParts (.addParts p) (·.addParts p) (·.addParts p) = rq at hst1 hfi
    obtain ⟨s1, v⟩ := rq
    simp only at hst1 hfi
    cases v with
    | ok =>
      simp only
      intro hab
      rw [produce_st] at hab
      have : ({ s1 with parts := s1.parts ++ [p] } : Sys).st = s1.st := rfl
      rw [this, hst1, hst] at hab
      cases hab
    | abrt =>
      simp only
      intro _
      exact fired_frame (hfi (by simp)) rfl rfl
    | fatal =>
      simp only
      intro hab
      cases hab

theorem offsAccepted_ab (s : Sys) (o : Nat) (hst : s.st = .inTxn)
    (hab : (offsAccepted s o).st = .abortable) : Fired (offsAccepted s o) := by
  revert hab
  unfold offsAccepted
  have hph1 : ∀ (s1 : Sys) (v : Verdict),
      (if s.grp then (s, Verdict.ok)
       else
        let (s1, v) := request s .addOffs .addOffs (·.addOffs) (·.addOffs)
        (if v = .ok then { s1 with grp := true } else s1, v)) = (s1, v) →
      s1.st = .inTxn ∧ (v ≠ .ok → Fired s1) := by
    intro s1 v heq
    by_cases hg : s.grp = true
    · simp only [hg, if_true, Prod.mk.injEq] at heq
      obtain ⟨rfl, rfl⟩ := heq
      exact ⟨hst, fun hne => absurd rfl hne⟩
    · simp only [hg, Bool.false_eq_true, if_false] at heq
      have hst1 := request_st s .addOffs .addOffs (·.addOffs) (·.addOffs)
      have hfi := request_nok_fired s .addOffs .addOffs (·.addOffs) (·.addOffs)
      generalize request s .addOffs .addOffs (·.addOffs) (·.addOffs) = rq at hst1 hfi heq
      obtain ⟨s0, v0⟩ := rq
      simp only [Prod.mk.injEq] at heq hst1 hfi
      obtain ⟨hs1, rfl⟩ := heq
      by_cases hv : v0 = .ok
      · simp only [hv, if_true] at hs1
        subst hs1
        exact ⟨by show s0.st = _; rw [hst1]; exact hst, fun hne => absurd hv hne⟩
      · simp only [hv, if_false] at hs1
        subst hs1
        exact ⟨by rw [hst1]; exact hst, fun _ => hfi hv⟩
  generalize hqq : (if s.grp then (s, Verdict.ok)
       else
        let (s1, v) := request s .addOffs .addOffs (·.addOffs) (·.addOffs)
        (if v = .ok then { s1 with grp := true } else s1, v)) = q
  obtain ⟨s1, v⟩ := q
  obtain ⟨hs1, hf1⟩ := hph1 s1 v hqq
  simp only
  cases v with
  | abrt => intro _; exact fired_frame (hf1 (by simp)) rfl rfl
  | fatal => intro hab; cases hab
  | ok =>
    simp only
    have hst2 := request_st s1 .offsCommit (.offsCommit o) (·.offsCommit o) (·.offsCommit o)
    have hfi := request_nok_fired s1 .offsCommit (.offsCommit o) (·.offsCommit o) (·.offsCommit o)
    generalize request s1 .offsCommit (.offsCommit o) (·.offsCommit o) (·.offsCommit o) = rq
      at hst2 hfi
    obtain ⟨s2, v2⟩ := rq
    simp only at hst2 hfi
    cases v2 with
    | ok =>
      simp only
      intro hab
      have : (({ s2 with curOff := some o } : Sys).result .ok).st = s2.st := rfl
      rw [this, hst2, hs1] at hab
      cases hab
    | abrt => simp only; intro _; exact fired_frame (hfi (by simp)) rfl rfl
    | fatal => simp only; intro hab; cases hab

theorem doEnd_st (s : Sys) (c : Bool) : (doEnd s c).st = .ready ∨ (doEnd s c).st = .fatal := by
  unfold doEnd
  by_cases he : s.parts = [] ∧ s.grp = false
  · rw [if_pos he]; exact Or.inl rfl
  · rw [if_neg he]
    cases hend : s.env.endTxn c with
    | none => exact Or.inr rfl
    | some e' =>
      simp only
      generalize request s .endTxn (.endTxn c) (fun _ => e')
        (fun e => match e.endTxn c with | some e2 => e2 | none => e) = rq
      obtain ⟨s1, v⟩ := rq
      cases v
      · exact Or.inl rfl
      · exact Or.inr rfl
      · exact Or.inr rfl

/-- `st = abortable` only after the scheduled fault fired -/
def AbInv (s : Sys) : Prop := s.st = .abortable → Fired s

theorem step_ab (s : Sys) (c : Call) (h : AbInv s) : AbInv (step s c) := by
  have hres : ∀ r, AbInv (s.result r) := fun r hab => fired_frame (h hab) rfl rfl
  have href : AbInv s.refuse := by unfold Sys.refuse; exact hres _
  have hend : ∀ b, AbInv (doEnd s b) := by
    intro b hab
    rcases doEnd_st s b with h1 | h1 <;> rw [h1] at hab <;> cases hab
  cases c with
  | begin =>
    simp only [step]
    by_cases hs : s.st = .ready
    · simp only [hs, if_true]; intro hab; cases hab
    · simp only [hs, if_false]; exact href
  | send p =>
    simp only [step]
    by_cases hs : s.st = .inTxn
    · simp only [hs, if_true]
      intro hab
      exact sendAccepted_ab _ p _ hs hab
    · simp only [hs, if_false]; exact href
  | sendOffsets =>
    simp only [step]
    by_cases hs : s.st = .inTxn
    · simp only [hs, if_true]
      intro hab
      exact offsAccepted_ab _ _ hs hab
    · simp only [hs, if_false]; exact href
  | commit =>
    simp only [step]
    by_cases hs : s.st = .inTxn
    · simp only [hs, if_true]; exact hend _
    · simp only [hs, if_false]
      by_cases ha : s.st = .abortable
      · simp only [ha, if_true]; exact hres _
      · simp only [ha, if_false]; exact href
  | abort =>
    simp only [step]
    by_cases hs : s.st = .inTxn ∨ s.st = .abortable
    · simp only [hs, if_true]; exact hend _
    · simp only [hs, if_false]; exact href
  | exitOk =>
    simp only [step]
    by_cases hs : s.st = .inTxn
    · simp only [hs, if_true]; exact hend _
    · simp only [hs, if_false]
      by_cases ha : s.st = .abortable
      · simp only [ha, if_true]; exact hres _
      · simp only [ha, if_false]; exact href
  | exitExc =>
    simp only [step]
    by_cases hf : s.st = .fatal
    · simp only [hf, if_true]; exact hres _
    · simp only [hf, if_false]
      by_cases hs : s.st = .inTxn ∨ s.st = .abortable
      · simp only [hs, if_true]; exact hend _
      · simp only [hs, if_false]; exact href
  | restart =>
    simp only [step, doRestart]
    intro hab
    cases hab

theorem run_ab (cs : List Call) : ∀ (s : Sys), AbInv s → AbInv (run s cs) := by
  induction cs with
  | nil => intro s h; exact h
  | cons c cs ih => intro s h; exact ih _ (step_ab s c h)


/-! ## send futures: every accepted record gets an outcome -/

theorem request_nRec (s : Sys) (a : Api) (mk : Code → Req) (ap ag : Env → Env) :
    (request s a mk ap ag).1.nRec = s.nRec := by
  unfold request fire
  cases hf : s.fault with
  | none => simp
  | some f =>
    simp only
    by_cases hc : f.api = a ∧ f.nth = s.cnt.get a ∧ applicable a f.kind = true
    · simp only [hc, and_self, if_true]
      cases hk : f.kind <;> simp
    · simp only [hc, if_false]

theorem produce_futs (s : Sys) (p r : Nat) :
    (∃ o, (produce s p r).futs = (r, o) :: s.futs) ∧ (produce s p r).nRec = s.nRec := by
  unfold produce
  cases ha : s.leaderAccepts p r with
  | none => exact ⟨⟨_, rfl⟩, rfl⟩
  | some e' =>
    simp only
    have h1 := request_frame s .produce (.produce p r) (fun _ => e') id
    have h2 := request_nRec s .produce (.produce p r) (fun _ => e') id
    generalize request s .produce (.produce p r) (fun _ => e') id = rq at h1 h2
    obtain ⟨s1, v⟩ := rq
    simp only at h1 h2
    refine ⟨⟨.ok, ?_⟩, h2⟩
    show (r, FRes.ok) :: s1.futs = _
    rw [h1.2.2.1]

theorem sendAccepted_futs (s : Sys) (p r : Nat) :
    (∃ o, (sendAccepted s p r).futs = (r, o) :: s.futs ∧
          ((sendAccepted s p r).st = .fatal → s.st ≠ .fatal → o = .fatal)) ∧
    (sendAccepted s p r).nRec = s.nRec := by
  unfold sendAccepted
  by_cases hp : p ∈ s.parts
  · simp only [hp, if_true]
    obtain ⟨⟨o, ho⟩, hn⟩ := produce_futs s p r
    refine ⟨⟨o, ho, ?_⟩, hn⟩
    intro hf hnf
    rw [produce_st] at hf
    exact absurd hf hnf
  · simp only [hp, if_false]
    have h1 := request_frame s .addParts (.addParts p) (·.addParts p) (·.addParts p)
    have h2 := request_nRec s .addParts (.addParts p) (·.addParts p) (·.addParts p)
    have h3 := request_st s .addParts (.addParts p) (·.addParts p) (·.addParts p)
    generalize request s .addParts (.addParts p) (·.addParts p) (·.addParts p) = rq at h1 h2 h3
    obtain ⟨s1, v⟩ := rq
    simp only at h1 h2 h3
    cases v with
    | ok =>
      simp only
      obtain ⟨⟨o, ho⟩, hn⟩ := produce_futs { s1 with parts := s1.parts ++ [p] } p r
      refine ⟨⟨o, ?_, ?_⟩, ?_⟩
      · rw [ho]; show (r, o) :: s1.futs = _; rw [h1.2.2.1]
      · intro hf hnf
        rw [produce_st] at hf
        have : ({ s1 with parts := s1.parts ++ [p] } : Sys).st = s1.st := rfl
        rw [this, h3] at hf
        exact absurd hf hnf
      · rw [hn]; exact h2
    | abrt =>
      simp only
      refine ⟨⟨.abrt, ?_, ?_⟩, h2⟩
      · show (r, FRes.abrt) :: s1.futs = _; rw [h1.2.2.1]
      · intro hf; cases hf
    | fatal =>
      simp only
      refine ⟨⟨.fatal, ?_, fun _ _ => rfl⟩, h2⟩
      show (r, FRes.fatal) :: s1.futs = _; rw [h1.2.2.1]

theorem offsAccepted_futs (s : Sys) (o : Nat) :
    (offsAccepted s o).futs = s.futs ∧ (offsAccepted s o).nRec = s.nRec := by
  unfold offsAccepted
  have hph1 : ∀ (s1 : Sys) (v : Verdict),
      (if s.grp then (s, Verdict.ok)
       else
        let (s1, v) := request s .addOffs .addOffs (·.addOffs) (·.addOffs)
        (if v = .ok then { s1 with grp := true } else s1, v)) = (s1, v) →
      s1.futs = s.futs ∧ s1.nRec = s.nRec := by
    intro s1 v heq
    by_cases hg : s.grp = true
    · simp only [hg, if_true, Prod.mk.injEq] at heq
      obtain ⟨rfl, rfl⟩ := heq
      exact ⟨rfl, rfl⟩
    · simp only [hg, Bool.false_eq_true, if_false] at heq
      have h1 := request_frame s .addOffs .addOffs (·.addOffs) (·.addOffs)
      have h2 := request_nRec s .addOffs .addOffs (·.addOffs) (·.addOffs)
      generalize request s .addOffs .addOffs (·.addOffs) (·.addOffs) = rq at h1 h2 heq
      obtain ⟨s0, v0⟩ := rq
      simp only [Prod.mk.injEq] at heq h1 h2
      obtain ⟨hs1, rfl⟩ := heq
      by_cases hv : v0 = .ok
      · simp only [hv, if_true] at hs1
        subst hs1
        exact ⟨h1.2.2.1, h2⟩
      · simp only [hv, if_false] at hs1
        subst hs1
        exact ⟨h1.2.2.1, h2⟩
  generalize hqq : (if s.grp then (s, Verdict.ok)
       else
        let (s1, v) := request s .addOffs .addOffs (·.addOffs) (·.addOffs)
        (if v = .ok then { s1 with grp := true } else s1, v)) = q
  obtain ⟨s1, v⟩ := q
  obtain ⟨hf1, hn1⟩ := hph1 s1 v hqq
  simp only
  cases v with
  | abrt => exact ⟨hf1, hn1⟩
  | fatal => exact ⟨hf1, hn1⟩
  | ok =>
    simp only
    have h1 := request_frame s1 .offsCommit (.offsCommit o) (·.offsCommit o) (·.offsCommit o)
    have h2 := request_nRec s1 .offsCommit (.offsCommit o) (·.offsCommit o) (·.offsCommit o)
    generalize request s1 .offsCommit (.offsCommit o) (·.offsCommit o) (·.offsCommit o) = rq at h1 h2
    obtain ⟨s2, v2⟩ := rq
    simp only at h1 h2
    cases v2 <;> exact ⟨h1.2.2.1.trans hf1, h2.trans hn1⟩

theorem doEnd_futs (s : Sys) (c : Bool) : (doEnd s c).futs = s.futs ∧ (doEnd s c).nRec = s.nRec := by
  unfold doEnd
  by_cases he : s.parts = [] ∧ s.grp = false
  · rw [if_pos he]
    exact ⟨rfl, by cases c <;> rfl⟩
  · rw [if_neg he]
    cases hend : s.env.endTxn c with
    | none => exact ⟨rfl, rfl⟩
    | some e' =>
      simp only
      have h1 := request_frame s .endTxn (.endTxn c) (fun _ => e')
        (fun e => match e.endTxn c with | some e2 => e2 | none => e)
      have h2 := request_nRec s .endTxn (.endTxn c) (fun _ => e')
        (fun e => match e.endTxn c with | some e2 => e2 | none => e)
      generalize request s .endTxn (.endTxn c) (fun _ => e')
        (fun e => match e.endTxn c with | some e2 => e2 | none => e) = rq at h1 h2
      obtain ⟨s1, v⟩ := rq
      simp only at h1 h2
      cases v
      · refine ⟨h1.2.2.1, ?_⟩
        show (s1.toCore.settle c).nRec = _
        rw [settle_nRec]; exact h2
      · exact ⟨h1.2.2.1, h2⟩
      · exact ⟨h1.2.2.1, h2⟩

/-- no send future is left pending at a quiescent point -/
def FutInv (s : Sys) : Prop := ∀ r, r < s.nRec → ∃ o, (r, o) ∈ s.futs

theorem futInv_frame {s s' : Sys} (h : FutInv s) (hf : s'.futs = s.futs) (hn : s'.nRec = s.nRec) :
    FutInv s' := by
  intro r hr
  rw [hn] at hr
  rw [hf]; exact h r hr

theorem step_fut (s : Sys) (c : Call) (h : FutInv s) : FutInv (step s c) := by
  have hres : ∀ r, FutInv (s.result r) := fun r => futInv_frame h rfl rfl
  have href : FutInv s.refuse := by unfold Sys.refuse; exact hres _
  have hend : ∀ b, FutInv (doEnd s b) := fun b =>
    futInv_frame h (doEnd_futs s b).1 (doEnd_futs s b).2
  cases c with
  | begin =>
    simp only [step]
    by_cases hs : s.st = .ready
    · simp only [hs, if_true]; exact futInv_frame h rfl rfl
    · simp only [hs, if_false]; exact href
  | send p =>
    simp only [step]
    by_cases hs : s.st = .inTxn
    · simp only [hs, if_true]
      unfold doSend
      obtain ⟨⟨o, ho, _⟩, hn⟩ := sendAccepted_futs ({ s with nRec := s.nRec + 1 }.result .ok) p s.nRec
      intro r hr
      rw [hn] at hr
      rw [ho]
      have hr' : r < s.nRec + 1 := hr
      by_cases hrr : r = s.nRec
      · subst hrr; exact ⟨o, List.mem_cons_self⟩
      · obtain ⟨o', ho'⟩ := h r (by omega)
        exact ⟨o', List.mem_cons_of_mem _ ho'⟩
    · simp only [hs, if_false]; exact href
  | sendOffsets =>
    simp only [step]
    by_cases hs : s.st = .inTxn
    · simp only [hs, if_true]
      unfold doSendOffsets
      exact futInv_frame h (offsAccepted_futs _ _).1 (offsAccepted_futs _ _).2
    · simp only [hs, if_false]; exact href
  | commit =>
    simp only [step]
    by_cases hs : s.st = .inTxn
    · simp only [hs, if_true]; exact hend _
    · simp only [hs, if_false]
      by_cases ha : s.st = .abortable
      · simp only [ha, if_true]; exact hres _
      · simp only [ha, if_false]; exact href
  | abort =>
    simp only [step]
    by_cases hs : s.st = .inTxn ∨ s.st = .abortable
    · simp only [hs, if_true]; exact hend _
    · simp only [hs, if_false]; exact href
  | exitOk =>
    simp only [step]
    by_cases hs : s.st = .inTxn
    · simp only [hs, if_true]; exact hend _
    · simp only [hs, if_false]
      by_cases ha : s.st = .abortable
      · simp only [ha, if_true]; exact hres _
      · simp only [ha, if_false]; exact href
  | exitExc =>
    simp only [step]
    by_cases hf : s.st = .fatal
    · simp only [hf, if_true]; exact hres _
    · simp only [hf, if_false]
      by_cases hs : s.st = .inTxn ∨ s.st = .abortable
      · simp only [hs, if_true]; exact hend _
      · simp only [hs, if_false]; exact href
  | restart =>
    simp only [step, doRestart]
    exact futInv_frame h rfl (by show (s.toCore.settle false).nRec = _; rw [settle_nRec])

theorem run_fut (cs : List Call) : ∀ (s : Sys), FutInv s → FutInv (run s cs) := by
  induction cs with
  | nil => intro s h; exact h
  | cons c cs ih => intro s h; exact ih _ (step_fut s c h)


/-! ## retriable faults alone never fail anything -/

/-- no call has raised an error (other than refusing an out-of-order call), no send has failed -/
structure Smooth (s : Sys) : Prop where
  st_ok : s.st = .ready ∨ s.st = .inTxn
  res_ok : ∀ r, r ∈ s.res → r = .ok ∨ r = .refused
  futs_ok : ∀ x, x ∈ s.futs → x.2 = .ok
  not_burnt : s.burnt = []

theorem step_smooth (s : Sys) (c : Call) (hq : Quiet s) (hi : Inv s.toCore) (hb : Smooth s) :
    Smooth (step s c) ∧ Mono s (step s c) := by
  have hnf : s.st ≠ .fatal := by rcases hb.st_ok with h | h <;> simp [h]
  have hna : s.st ≠ .abortable := by rcases hb.st_ok with h | h <;> simp [h]
  have href : Smooth s.refuse ∧ Mono s s.refuse := by
    unfold Sys.refuse
    simp only [hnf, if_false]
    refine ⟨⟨hb.st_ok, ?_, hb.futs_ok, hb.not_burnt⟩, Mono.of_eq rfl rfl⟩
    intro r hr
    rcases List.mem_cons.mp hr with rfl | hr
    · exact Or.inr rfl
    · exact hb.res_ok r hr
  have hend : ∀ b, s.st = .inTxn → Smooth (doEnd s b) ∧ Mono s (doEnd s b) := by
    intro b hs
    obtain ⟨e', hc, _, hf, hr, _, hm, hbu⟩ := doEnd_happy s b hq hi (Or.inl hs)
    refine ⟨⟨?_, ?_, ?_, ?_⟩, hm⟩
    · left
      show (doEnd s b).toCore.st = .ready
      rw [hc]
    · intro r hr'
      rw [hr] at hr'
      rcases List.mem_cons.mp hr' with rfl | hr'
      · exact Or.inl rfl
      · exact hb.res_ok r hr'
    · rw [hf]; exact hb.futs_ok
    · rw [hbu]; exact hb.not_burnt
  cases c with
  | begin =>
    simp only [step]
    by_cases hs : s.st = .ready
    · simp only [hs, if_true]
      refine ⟨⟨Or.inr rfl, ?_, hb.futs_ok, hb.not_burnt⟩, Mono.of_eq rfl rfl⟩
      intro r hr
      rcases List.mem_cons.mp hr with rfl | hr
      · exact Or.inl rfl
      · exact hb.res_ok r hr
    · simp only [hs, if_false]; exact href
  | send p =>
    simp only [step]
    by_cases hs : s.st = .inTxn
    · simp only [hs, if_true]
      unfold doSend
      obtain ⟨e', ps, hc, _, hf, hr, _, hm, hbu⟩ :=
        sendAccepted_happy ({ s with nRec := s.nRec + 1 }.result .ok) p s.nRec
          (hq.mono (Mono.of_eq rfl rfl)) hb.not_burnt (Inv.accept hi) hs
      refine ⟨⟨?_, ?_, ?_, hbu⟩, Mono.trans (Mono.of_eq rfl rfl) hm⟩
      · right
        show (sendAccepted _ p s.nRec).toCore.st = .inTxn
        rw [hc]; exact hs
      · intro r hr'
        rw [hr] at hr'
        rcases List.mem_cons.mp hr' with rfl | hr'
        · exact Or.inl rfl
        · exact hb.res_ok r hr'
      · intro x hx
        rw [hf] at hx
        rcases List.mem_cons.mp hx with rfl | hx
        · rfl
        · exact hb.futs_ok x hx
    · simp only [hs, if_false]; exact href
  | sendOffsets =>
    simp only [step]
    by_cases hs : s.st = .inTxn
    · simp only [hs, if_true]
      unfold doSendOffsets
      obtain ⟨e', hc, hf, hr, _, hm, hbu⟩ :=
        offsAccepted_happy { s with nOff := s.nOff + 1 } (100 + s.nOff)
          (hq.mono (Mono.of_eq rfl rfl)) hi hs
      refine ⟨⟨?_, ?_, ?_, ?_⟩, Mono.trans (Mono.of_eq rfl rfl) hm⟩
      · right
        show (offsAccepted _ _).toCore.st = .inTxn
        rw [hc]; exact hs
      · intro r hr'
        rw [hr] at hr'
        rcases List.mem_cons.mp hr' with rfl | hr'
        · exact Or.inl rfl
        · exact hb.res_ok r hr'
      · rw [hf]; exact hb.futs_ok
      · rw [hbu]; exact hb.not_burnt
    · simp only [hs, if_false]; exact href
  | commit =>
    simp only [step]
    by_cases hs : s.st = .inTxn
    · simp only [hs, if_true]; exact hend _ hs
    · simp only [hs, hna, if_false]; exact href
  | abort =>
    simp only [step]
    by_cases hs : s.st = .inTxn
    · simp only [hs, true_or, if_true]; exact hend _ hs
    · simp only [hs, hna, or_self, if_false]; exact href
  | exitOk =>
    simp only [step]
    by_cases hs : s.st = .inTxn
    · simp only [hs, if_true]; exact hend _ hs
    · simp only [hs, hna, if_false]; exact href
  | exitExc =>
    simp only [step]
    simp only [hnf, if_false]
    by_cases hs : s.st = .inTxn
    · simp only [hs, true_or, if_true]; exact hend _ hs
    · simp only [hs, hna, or_self, if_false]; exact href
  | restart =>
    simp only [step, doRestart]
    refine ⟨⟨Or.inl rfl, ?_, hb.futs_ok, rfl⟩, Mono.of_eq rfl rfl⟩
    intro r hr
    rcases List.mem_cons.mp hr with rfl | hr
    · exact Or.inl rfl
    · exact hb.res_ok r hr

theorem run_smooth (cs : List Call) : ∀ (s : Sys), Quiet s → Inv s.toCore → Smooth s →
    Smooth (run s cs) := by
  induction cs with
  | nil => intro s _ _ h; exact h
  | cons c cs ih =>
    intro s hq hi hb
    obtain ⟨h1, h2⟩ := step_smooth s c hq hi hb
    exact ih _ (hq.mono h2) (step_inv s c hi) h1


/-! ## the happy paths, call by call -/

theorem end_happy (s : Sys) (c : Bool) (hq : Quiet s) (hi : Inv s.toCore)
    (hst : s.st = .inTxn ∨ s.st = .abortable) :
    (doEnd s c).st = .ready ∧ (doEnd s c).res = .ok :: s.res ∧ (doEnd s c).futs = s.futs ∧
    (doEnd s c).nRec = s.nRec ∧
    (doEnd s c).good = (if c then s.cur ++ s.good else s.good) ∧
    (doEnd s c).bad = (if c then s.bad else s.cur ++ s.bad) ∧
    (doEnd s c).env.ongoing = false ∧ Inv (doEnd s c).toCore ∧ Quiet (doEnd s c) ∧
    (doEnd s c).burnt = s.burnt := by
  obtain ⟨e', hc, _, hf, hr, _, hm, hbu⟩ := doEnd_happy s c hq hi hst
  have hi' := doEnd_inv s c hi hst
  have hst' : (doEnd s c).st = .ready := by
    show (doEnd s c).toCore.st = .ready
    rw [hc]
  refine ⟨hst', hr, hf, ?_, ?_, ?_, ?_, hi', hq.mono hm, hbu⟩
  · show (doEnd s c).toCore.nRec = _
    rw [hc]; show (Core.settle _ c).nRec = _; rw [settle_nRec]
  · show (doEnd s c).toCore.good = _
    rw [hc]; show (Core.settle _ c).good = _; rw [settle_good]
  · show (doEnd s c).toCore.bad = _
    rw [hc]; show (Core.settle _ c).bad = _; rw [settle_bad]
  · obtain ⟨hpa, hga, hoa⟩ := hi'.agree (by rw [show (doEnd s c).toCore.st = (doEnd s c).st from rfl, hst']; simp)
    obtain ⟨h1, h2, _, _⟩ := hi'.ready_clean hst'
    cases ho : (doEnd s c).env.ongoing with
    | false => rfl
    | true =>
      rcases hoa.mp ho with h3 | h3
      · exact absurd h1 h3
      · rw [h2] at h3; cases h3

theorem send_happy (s : Sys) (p : Nat) (hq : Quiet s) (hb : s.burnt = []) (hi : Inv s.toCore)
    (hst : s.st = .inTxn) :
    (step s (.send p)).st = .inTxn ∧ (step s (.send p)).res = .ok :: s.res ∧
    (step s (.send p)).futs = (s.nRec, .ok) :: s.futs ∧ (step s (.send p)).nRec = s.nRec + 1 ∧
    (step s (.send p)).cur = s.nRec :: s.cur ∧ (step s (.send p)).good = s.good ∧
    (step s (.send p)).bad = s.bad ∧ Inv (step s (.send p)).toCore ∧ Quiet (step s (.send p)) ∧
    (step s (.send p)).burnt = [] := by
  have hi' := step_inv s (.send p) hi
  have hdef : step s (.send p) = sendAccepted ({ s with nRec := s.nRec + 1 }.result .ok) p s.nRec := by
    simp [step, hst, doSend]
  obtain ⟨e', ps, hc, _, hf, hr, _, hm, hbu⟩ :=
    sendAccepted_happy ({ s with nRec := s.nRec + 1 }.result .ok) p s.nRec
      (hq.mono (Mono.of_eq rfl rfl)) hb (Inv.accept hi) hst
  rw [← hdef] at hc hf hr hm hbu
  refine ⟨?_, hr, hf, ?_, ?_, ?_, ?_, hi', (hq.mono (Mono.of_eq rfl rfl)).mono hm, hbu⟩
  · show (step s (.send p)).toCore.st = _; rw [hc]; exact hst
  · show (step s (.send p)).toCore.nRec = _; rw [hc]; rfl
  · show (step s (.send p)).toCore.cur = _; rw [hc]; rfl
  · show (step s (.send p)).toCore.good = _; rw [hc]; rfl
  · show (step s (.send p)).toCore.bad = _; rw [hc]; rfl


theorem step_commit_inTxn (s : Sys) (h : s.st = .inTxn) : step s .commit = doEnd s true := by
  simp [step, h]

theorem step_abort_live (s : Sys) (h : s.st = .inTxn ∨ s.st = .abortable) :
    step s .abort = doEnd s false := by
  simp [step, h]

theorem step_begin_ready (s : Sys) (h : s.st = .ready) :
    step s .begin = { s with st := .inTxn }.result .ok := by
  simp [step, h]

/-- a whole new transaction `begin · send p · commit` from a ready producer when nothing fails -/
theorem new_txn_happy (s : Sys) (p : Nat) (hq : Quiet s) (hb : s.burnt = []) (hi : Inv s.toCore)
    (hs : s.st = .ready) :
    (run s [.begin, .send p, .commit]).st = .ready ∧
    (run s [.begin, .send p, .commit]).res = .ok :: .ok :: .ok :: s.res ∧
    (run s [.begin, .send p, .commit]).futs = (s.nRec, .ok) :: s.futs ∧
    s.nRec ∈ (run s [.begin, .send p, .commit]).good ∧
    (run s [.begin, .send p, .commit]).bad = s.bad ∧
    Inv (run s [.begin, .send p, .commit]).toCore := by
  have hrun : run s [.begin, .send p, .commit] = step (step (step s .begin) (.send p)) .commit := rfl
  rw [hrun]
  have h2def := step_begin_ready s hs
  have hi2 : Inv (step s .begin).toCore := step_inv s .begin hi
  have hq2 : Quiet (step s .begin) := by rw [h2def]; exact hq.mono (Mono.of_eq rfl rfl)
  have hs2 : (step s .begin).st = .inTxn := by rw [h2def]; rfl
  have hr2 : (step s .begin).res = .ok :: s.res := by rw [h2def]; rfl
  have hn2 : (step s .begin).nRec = s.nRec := by rw [h2def]; rfl
  have hb2 : (step s .begin).bad = s.bad := by rw [h2def]; rfl
  have hf2 : (step s .begin).futs = s.futs := by rw [h2def]; rfl
  have hbu2 : (step s .begin).burnt = [] := by rw [h2def]; exact hb
  obtain ⟨hs3, hr3, hf3, _, hc3, _, hb3, hi3, hq3, _⟩ := send_happy (step s .begin) p hq2 hbu2 hi2 hs2
  have h4def := step_commit_inTxn (step (step s .begin) (.send p)) hs3
  obtain ⟨hs4, hr4, hf4, _, hg4, hb4, _, hi4, _, _⟩ :=
    end_happy (step (step s .begin) (.send p)) true hq3 hi3 (Or.inl hs3)
  rw [← h4def] at hs4 hr4 hf4 hg4 hb4 hi4
  refine ⟨hs4, ?_, ?_, ?_, ?_, hi4⟩
  · rw [hr4, hr3, hr2]
  · rw [hf4, hf3, hf2, hn2]
  · rw [hg4]
    simp only [if_true, List.mem_append]
    left
    rw [hc3, hn2]
    exact List.mem_cons_self
  · rw [hb4]
    simp only [if_true]
    rw [hb3, hb2]


/-! ## which fault is behind an abortable state / a burnt partition -/

theorem request_abrt_kind (s : Sys) (a : Api) (mk : Code → Req) (ap ag : Env → Env)
    (hv : (request s a mk ap ag).2 = .abrt) : ∃ f, s.fault = some f ∧ f.kind = .abrt := by
  revert hv
  unfold request fire
  cases hf : s.fault with
  | none => simp
  | some f =>
    simp only
    by_cases hc : f.api = a ∧ f.nth = s.cnt.get a ∧ applicable a f.kind = true
    · simp only [hc, and_self, if_true]
      cases hk : f.kind <;> simp [hk]
    · simp only [hc, if_false]
      simp

/-- the abortable state is caused by an authorization fault, a burnt partition by a fencing /
    sequence fault at a Produce (there is one fault per run: never both) -/
structure KInv (s : Sys) : Prop where
  ab_kind : s.st = .abortable → ∃ f, s.fault = some f ∧ f.kind = .abrt
  burnt_kind : s.burnt ≠ [] → ∃ f, s.fault = some f ∧ f.kind = .fatal

theorem KInv.burnt_nil_of_abortable {s : Sys} (h : KInv s) (hst : s.st = .abortable) : s.burnt = [] := by
  cases hb : s.burnt with
  | nil => rfl
  | cons a l =>
    obtain ⟨f, hf, hk⟩ := h.ab_kind hst
    obtain ⟨g, hg, hk'⟩ := h.burnt_kind (by simp [hb])
    rw [hf] at hg
    cases hg
    rw [hk] at hk'
    cases hk'

theorem produce_k (s : Sys) (p r : Nat) (hi : Inv s.toCore) (hst : s.st = .inTxn) (hp : p ∈ s.parts)
    (hk : s.burnt ≠ [] → ∃ f, s.fault = some f ∧ f.kind = .fatal) :
    (produce s p r).fault = s.fault ∧
    ((produce s p r).burnt ≠ [] → ∃ f, s.fault = some f ∧ f.kind = .fatal) := by
  unfold produce
  cases ha : s.leaderAccepts p r with
  | none =>
    simp only
    refine ⟨rfl, ?_⟩
    intro _
    unfold Sys.leaderAccepts at ha
    by_cases hc : s.seqFault = true ∨ p ∈ s.burnt
    · rcases hc with hc | hc
      · exact ⟨_, by simpa [Sys.seqFault] using hc, rfl⟩
      · exact hk (List.ne_nil_of_mem hc)
    · rw [if_neg hc] at ha
      -- the leader refuses a registered partition: impossible
      obtain ⟨hpa, _, hoa⟩ := hi.agree (by simp [hst])
      have hpe : p ∈ s.env.parts := by
        have : s.toCore.parts = s.toCore.env.parts := hpa
        exact this ▸ hp
      have hon : s.env.ongoing = true := hoa.mpr (Or.inl (List.ne_nil_of_mem hp))
      simp [Env.append, hon, hpe] at ha
  | some e' =>
    simp only
    have h1 := request_frame s .produce (.produce p r) (fun _ => e') id
    have h2 := request_burnt s .produce (.produce p r) (fun _ => e') id
    generalize request s .produce (.produce p r) (fun _ => e') id = rq at h1 h2
    obtain ⟨s1, v⟩ := rq
    simp only at h1 h2
    refine ⟨h1.1, ?_⟩
    intro hb
    apply hk
    intro hn
    apply hb
    show s1.burnt = []
    rw [h2]; exact hn

theorem sendAccepted_k (s : Sys) (p r : Nat) (hi : Inv s.toCore) (hst : s.st = .inTxn) (hk : KInv s) :
    KInv (sendAccepted s p r) ∧ (sendAccepted s p r).fault = s.fault := by
  unfold sendAccepted
  by_cases hp : p ∈ s.parts
  · simp only [hp, if_true]
    obtain ⟨hf, hb⟩ := produce_k s p r hi hst hp hk.burnt_kind
    refine ⟨⟨?_, ?_⟩, hf⟩
    · intro hab; rw [produce_st, hst] at hab; cases hab
    · intro hbn; rw [hf]; exact hb hbn
  · simp only [hp, if_false]
    have hok := request_ok s .addParts (.addParts p) (·.addParts p) (·.addParts p) (addParts_idem _ _)
    have hfr := request_frame s .addParts (.addParts p) (·.addParts p) (·.addParts p)
    have hbu := request_burnt s .addParts (.addParts p) (·.addParts p) (·.addParts p)
    have hab := request_abrt_kind s .addParts (.addParts p) (·.addParts p) (·.addParts p)
    generalize request s .addParts (.addParts p) (·.addParts p) (·.addParts p) = rq at hok hfr hbu hab
    obtain ⟨s1, v⟩ := rq
    simp only at hok hfr hbu hab
    cases v with
    | ok =>
      have hc := hok rfl
      simp only
      have h1 : Inv ({ s1 with parts := s1.parts ++ [p] }).toCore := by
        show Inv { s1.toCore with parts := s1.toCore.parts ++ [p] }
        rw [hc]
        exact Inv.addParts hi p hst hp
      have hst1 : ({ s1 with parts := s1.parts ++ [p] } : Sys).st = .inTxn := by
        show s1.toCore.st = .inTxn
        rw [hc]; exact hst
      have hk1 : ({ s1 with parts := s1.parts ++ [p] } : Sys).burnt ≠ [] →
          ∃ f, ({ s1 with parts := s1.parts ++ [p] } : Sys).fault = some f ∧ f.kind = .fatal := by
        intro hb
        have hb' : s.burnt ≠ [] := by rw [← hbu]; exact hb
        obtain ⟨f, hf, hkk⟩ := hk.burnt_kind hb'
        exact ⟨f, by show s1.fault = some f; rw [hfr.1]; exact hf, hkk⟩
      obtain ⟨hf, hb⟩ := produce_k { s1 with parts := s1.parts ++ [p] } p r h1 hst1
        (by show p ∈ s1.parts ++ [p]; simp) hk1
      have hff : (produce { s1 with parts := s1.parts ++ [p] } p r).fault = s.fault := by
        rw [hf]; exact hfr.1
      refine ⟨⟨?_, ?_⟩, hff⟩
      · intro hab'; rw [produce_st, hst1] at hab'; cases hab'
      · intro hbn
        rw [hff]
        obtain ⟨f, hf', hkk⟩ := hb hbn
        exact ⟨f, by rw [← hfr.1]; exact hf', hkk⟩
    | abrt =>
      simp only
      have hff : (s1.toAbortable.fut r .abrt).fault = s.fault := hfr.1
      refine ⟨⟨?_, ?_⟩, hff⟩
      · intro _; rw [hff]; exact hab rfl
      · intro hbn
        rw [hff]
        apply hk.burnt_kind
        intro hn
        apply hbn
        show s1.burnt = []
        rw [hbu]; exact hn
    | fatal =>
      simp only
      have hff : (s1.toFatal.fut r .fatal).fault = s.fault := hfr.1
      refine ⟨⟨?_, ?_⟩, hff⟩
      · intro hab'; cases hab'
      · intro hbn
        rw [hff]
        apply hk.burnt_kind
        intro hn
        apply hbn
        show s1.burnt = []
        rw [hbu]; exact hn

theorem offsAccepted_k (s : Sys) (o : Nat) (hst : s.st = .inTxn) (hk : KInv s) :
    KInv (offsAccepted s o) ∧ (offsAccepted s o).fault = s.fault := by
  unfold offsAccepted
  have hph1 : ∀ (s1 : Sys) (v : Verdict),
      (if s.grp then (s, Verdict.ok)
       else
        let (s1, v) := request s .addOffs .addOffs (·.addOffs) (·.addOffs)
        (if v = .ok then { s1 with grp := true } else s1, v)) = (s1, v) →
      s1.st = .inTxn ∧ s1.fault = s.fault ∧ s1.burnt = s.burnt ∧
      (v = .abrt → ∃ f, s.fault = some f ∧ f.kind = .abrt) := by
    intro s1 v heq
    by_cases hg : s.grp = true
    · simp only [hg, if_true, Prod.mk.injEq] at heq
      obtain ⟨rfl, rfl⟩ := heq
      exact ⟨hst, rfl, rfl, fun h => by cases h⟩
    · simp only [hg, Bool.false_eq_true, if_false] at heq
      have hst1 := request_st s .addOffs .addOffs (·.addOffs) (·.addOffs)
      have hfr := request_frame s .addOffs .addOffs (·.addOffs) (·.addOffs)
      have hbu := request_burnt s .addOffs .addOffs (·.addOffs) (·.addOffs)
      have hab := request_abrt_kind s .addOffs .addOffs (·.addOffs) (·.addOffs)
      generalize request s .addOffs .addOffs (·.addOffs) (·.addOffs) = rq at hst1 hfr hbu hab heq
      obtain ⟨s0, v0⟩ := rq
      simp only [Prod.mk.injEq] at heq hst1 hfr hbu hab
      obtain ⟨hs1, rfl⟩ := heq
      by_cases hv : v0 = .ok
      · simp only [hv, if_true] at hs1
        subst hs1
        exact ⟨by show s0.st = _; rw [hst1]; exact hst, hfr.1, hbu, fun h => by rw [hv] at h; cases h⟩
      · simp only [hv, if_false] at hs1
        subst hs1
        exact ⟨by rw [hst1]; exact hst, hfr.1, hbu, hab⟩
  generalize hqq : (if s.grp then (s, Verdict.ok)
       else
        let (s1, v) := request s .addOffs .addOffs (·.addOffs) (·.addOffs)
        (if v = .ok then { s1 with grp := true } else s1, v)) = q
  obtain ⟨s1, v⟩ := q
  obtain ⟨hs1, hf1, hb1, hab1⟩ := hph1 s1 v hqq
  have hbk : ∀ (t : Sys), t.fault = s.fault → t.burnt = s.burnt → t.burnt ≠ [] →
      ∃ f, t.fault = some f ∧ f.kind = .fatal := by
    intro t htf htb hbn
    rw [htf]
    apply hk.burnt_kind
    rw [← htb]; exact hbn
  simp only
  cases v with
  | abrt =>
    refine ⟨⟨?_, hbk _ hf1 hb1⟩, hf1⟩
    intro _
    show ∃ f, s1.fault = some f ∧ f.kind = .abrt
    rw [hf1]; exact hab1 rfl
  | fatal =>
    refine ⟨⟨?_, hbk _ hf1 hb1⟩, hf1⟩
    intro hab; cases hab
  | ok =>
    simp only
    have hst2 := request_st s1 .offsCommit (.offsCommit o) (·.offsCommit o) (·.offsCommit o)
    have hfr := request_frame s1 .offsCommit (.offsCommit o) (·.offsCommit o) (·.offsCommit o)
    have hbu := request_burnt s1 .offsCommit (.offsCommit o) (·.offsCommit o) (·.offsCommit o)
    have hab := request_abrt_kind s1 .offsCommit (.offsCommit o) (·.offsCommit o) (·.offsCommit o)
    generalize request s1 .offsCommit (.offsCommit o) (·.offsCommit o) (·.offsCommit o) = rq
      at hst2 hfr hbu hab
    obtain ⟨s2, v2⟩ := rq
    simp only at hst2 hfr hbu hab
    have hf2 : s2.fault = s.fault := hfr.1.trans hf1
    have hb2 : s2.burnt = s.burnt := hbu.trans hb1
    cases v2 with
    | ok =>
      simp only
      refine ⟨⟨?_, hbk _ hf2 hb2⟩, hf2⟩
      intro hab'
      have : (({ s2 with curOff := some o } : Sys).result .ok).st = s2.st := rfl
      rw [this, hst2, hs1] at hab'
      cases hab'
    | abrt =>
      simp only
      refine ⟨⟨?_, hbk _ hf2 hb2⟩, hf2⟩
      intro _
      show ∃ f, s2.fault = some f ∧ f.kind = .abrt
      rw [hf2, ← hf1]; exact hab rfl
    | fatal =>
      simp only
      refine ⟨⟨?_, hbk _ hf2 hb2⟩, hf2⟩
      intro hab'; cases hab'

theorem doEnd_k (s : Sys) (c : Bool) (hk : KInv s) :
    KInv (doEnd s c) ∧ (doEnd s c).fault = s.fault := by
  have hkey : (doEnd s c).fault = s.fault ∧ (doEnd s c).burnt = s.burnt := by
    unfold doEnd
    by_cases he : s.parts = [] ∧ s.grp = false
    · rw [if_pos he]; exact ⟨rfl, rfl⟩
    · rw [if_neg he]
      cases hend : s.env.endTxn c with
      | none => exact ⟨rfl, rfl⟩
      | some e' =>
        simp only
        have h1 := request_frame s .endTxn (.endTxn c) (fun _ => e')
          (fun e => match e.endTxn c with | some e2 => e2 | none => e)
        have h2 := request_burnt s .endTxn (.endTxn c) (fun _ => e')
          (fun e => match e.endTxn c with | some e2 => e2 | none => e)
        generalize request s .endTxn (.endTxn c) (fun _ => e')
          (fun e => match e.endTxn c with | some e2 => e2 | none => e) = rq at h1 h2
        obtain ⟨s1, v⟩ := rq
        simp only at h1 h2
        cases v <;> exact ⟨h1.1, h2⟩
  refine ⟨⟨?_, ?_⟩, hkey.1⟩
  · intro hab
    rcases doEnd_st s c with h1 | h1 <;> rw [h1] at hab <;> cases hab
  · intro hbn
    rw [hkey.1]
    apply hk.burnt_kind
    rw [← hkey.2]; exact hbn

theorem step_k (s : Sys) (c : Call) (hi : Inv s.toCore) (hk : KInv s) :
    KInv (step s c) ∧ (step s c).fault = s.fault := by
  have hres : ∀ r, KInv (s.result r) ∧ (s.result r).fault = s.fault := fun r => ⟨⟨hk.ab_kind, hk.burnt_kind⟩, rfl⟩
  have href : KInv s.refuse ∧ s.refuse.fault = s.fault := by unfold Sys.refuse; exact hres _
  cases c with
  | begin =>
    simp only [step]
    by_cases hs : s.st = .ready
    · simp only [hs, if_true]
      refine ⟨⟨?_, hk.burnt_kind⟩, rfl⟩
      intro hab; cases hab
    · simp only [hs, if_false]; exact href
  | send p =>
    simp only [step]
    by_cases hs : s.st = .inTxn
    · simp only [hs, if_true]
      unfold doSend
      refine sendAccepted_k _ p _ (Inv.accept hi) hs ⟨?_, hk.burnt_kind⟩
      intro hab
      have : ({ s with nRec := s.nRec + 1 }.result .ok).st = s.st := rfl
      rw [this, hs] at hab
      cases hab
    · simp only [hs, if_false]; exact href
  | sendOffsets =>
    simp only [step]
    by_cases hs : s.st = .inTxn
    · simp only [hs, if_true]
      unfold doSendOffsets
      exact offsAccepted_k _ _ hs ⟨hk.ab_kind, hk.burnt_kind⟩
    · simp only [hs, if_false]; exact href
  | commit =>
    simp only [step]
    by_cases hs : s.st = .inTxn
    · simp only [hs, if_true]; exact doEnd_k s true hk
    · simp only [hs, if_false]
      by_cases ha : s.st = .abortable
      · simp only [ha, if_true]; exact hres _
      · simp only [ha, if_false]; exact href
  | abort =>
    simp only [step]
    by_cases hs : s.st = .inTxn ∨ s.st = .abortable
    · simp only [hs, if_true]; exact doEnd_k s false hk
    · simp only [hs, if_false]; exact href
  | exitOk =>
    simp only [step]
    by_cases hs : s.st = .inTxn
    · simp only [hs, if_true]; exact doEnd_k s true hk
    · simp only [hs, if_false]
      by_cases ha : s.st = .abortable
      · simp only [ha, if_true]; exact hres _
      · simp only [ha, if_false]; exact href
  | exitExc =>
    simp only [step]
    by_cases hf : s.st = .fatal
    · simp only [hf, if_true]; exact hres _
    · simp only [hf, if_false]
      by_cases hs : s.st = .inTxn ∨ s.st = .abortable
      · simp only [hs, if_true]; exact doEnd_k s false hk
      · simp only [hs, if_false]; exact href
  | restart =>
    simp only [step, doRestart]
    refine ⟨⟨?_, fun hb => absurd rfl hb⟩, rfl⟩
    intro hab; cases hab

theorem run_k (cs : List Call) : ∀ (s : Sys), Inv s.toCore → KInv s → KInv (run s cs) := by
  induction cs with
  | nil => intro s _ h; exact h
  | cons c cs ih =>
    intro s hi hk
    exact ih _ (step_inv s c hi) (step_k s c hi hk).1

/-! ## reachable states -/

/-- everything a program can drive the producer into: a fresh producer, any fault, any calls -/
def Reachable (s : Sys) : Prop := ∃ f cs, s = run (init f) cs

theorem reachable_inv {s : Sys} (h : Reachable s) :
    Inv s.toCore ∧ OrdInv s ∧ AbInv s ∧ FutInv s := by
  obtain ⟨f, cs, rfl⟩ := h
  refine ⟨run_inv cs _ init_inv, run_ord cs _ (init_ord f), run_ab cs _ ?_, run_fut cs _ ?_⟩
  · intro hab; cases hab
  · intro r hr; exact absurd hr (Nat.not_lt_zero r)

theorem reachable_kinv {s : Sys} (h : Reachable s) : KInv s := by
  obtain ⟨f, cs, rfl⟩ := h
  refine run_k cs _ init_inv ⟨?_, ?_⟩
  · intro hab; cases hab
  · intro hb; exact absurd rfl hb

end AkVerif.Txn
