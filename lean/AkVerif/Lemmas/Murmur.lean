import AkVerif.Model.Murmur
/-! bridging lemmas: masked `Nat` arithmetic (Python) = `BitVec 32` arithmetic (Java) -/
namespace AkVerif.Murmur

theorem mask32_eq (x : Nat) : mask32 x = x % 2^32 := by
  unfold mask32
  have : (0xFFFFFFFF : Nat) = 2^32 - 1 := by decide
  rw [this, Nat.and_two_pow_sub_one_eq_mod]

theorem mask_mul (a : BitVec 32) : mask32 (a.toNat * M) = (a * MB).toNat := by
  rw [mask32_eq, BitVec.toNat_mul]; simp [M]

theorem mask_xor_shr (a : BitVec 32) (r : Nat) :
    mask32 (a.toNat ^^^ ((a.toNat % 0x100000000) >>> r)) = (a ^^^ (a >>> r)).toNat := by
  rw [mask32_eq, BitVec.toNat_xor, BitVec.toNat_ushiftRight]
  have h : a.toNat % 0x100000000 = a.toNat := Nat.mod_eq_of_lt (by have := a.isLt; omega)
  rw [h]
  apply Nat.mod_eq_of_lt
  apply Nat.xor_lt_two_pow a.isLt
  exact Nat.lt_of_le_of_lt (Nat.shiftRight_le _ _) a.isLt

theorem mask_xor (a b : BitVec 32) : mask32 (a.toNat ^^^ b.toNat) = (a ^^^ b).toNat := by
  rw [mask32_eq, BitVec.toNat_xor]
  exact Nat.mod_eq_of_lt (Nat.xor_lt_two_pow a.isLt b.isLt)

theorem bz_toNat (b : BitVec 8) (s : Nat) (hs : s ≤ 24) :
    (bz b s).toNat = (b.toNat &&& 0xFF) <<< s := by
  unfold bz
  have hb := b.isLt
  have h255 : b.toNat &&& 0xFF = b.toNat := by
    have : (0xFF : Nat) = 2^8 - 1 := by decide
    rw [this, Nat.and_two_pow_sub_one_eq_mod]; exact Nat.mod_eq_of_lt hb
  rw [h255, BitVec.toNat_shiftLeft, BitVec.toNat_setWidth]
  have : b.toNat % 2^32 = b.toNat := Nat.mod_eq_of_lt (by omega)
  rw [this, Nat.shiftLeft_eq]
  apply Nat.mod_eq_of_lt
  have : (2:Nat)^s ≤ 2^24 := Nat.pow_le_pow_right (by decide) hs
  calc b.toNat * 2^s < 2^8 * 2^s := by
        apply Nat.mul_lt_mul_of_pos_right hb (Nat.pow_pos (by decide))
    _ ≤ 2^8 * 2^24 := Nat.mul_le_mul_left _ this
    _ = 2^32 := by decide

theorem bz_lt (b : BitVec 8) (s : Nat) (_hs : s ≤ 24) :
    (b.toNat &&& 0xFF) <<< s < 2^(8+s) := by
  have hb := b.isLt
  have h255 : b.toNat &&& 0xFF = b.toNat := by
    have : (0xFF : Nat) = 2^8 - 1 := by decide
    rw [this, Nat.and_two_pow_sub_one_eq_mod]; exact Nat.mod_eq_of_lt hb
  rw [h255, Nat.shiftLeft_eq, Nat.pow_add]
  exact Nat.mul_lt_mul_of_pos_right hb (Nat.pow_pos (by decide))

theorem k_eq (b0 b1 b2 b3 : BitVec 8) :
    mask32 ((b0.toNat &&& 0xFF) + ((b1.toNat &&& 0xFF) <<< 8) + ((b2.toNat &&& 0xFF) <<< 16)
      + ((b3.toNat &&& 0xFF) <<< 24)) = (bz b0 0 + bz b1 8 + bz b2 16 + bz b3 24).toNat := by
  have e0 := bz_toNat b0 0 (by omega); have e1 := bz_toNat b1 8 (by omega)
  have e2 := bz_toNat b2 16 (by omega); have e3 := bz_toNat b3 24 (by omega)
  have l0 := bz_lt b0 0 (by omega); have l1 := bz_lt b1 8 (by omega)
  have l2 := bz_lt b2 16 (by omega); have l3 := bz_lt b3 24 (by omega)
  simp only [Nat.shiftLeft_zero] at e0 l0
  rw [mask32_eq]
  simp only [BitVec.toNat_add, e0, e1, e2, e3]
  simp only [Nat.reduceAdd, Nat.reducePow] at l0 l1 l2 l3 ⊢
  generalize (b0.toNat &&& 255) = a0 at *
  generalize (b1.toNat &&& 255) <<< 8 = a1 at *
  generalize (b2.toNat &&& 255) <<< 16 = a2 at *
  generalize (b3.toNat &&& 255) <<< 24 = a3 at *
  omega

theorem pyMix_eq (h : BitVec 32) (b0 b1 b2 b3 : BitVec 8) :
    pyMix h.toNat b0.toNat b1.toNat b2.toNat b3.toNat = (jMix h b0 b1 b2 b3).toNat := by
  unfold pyMix jMix
  simp only [k_eq, mask_mul, mask_xor_shr, mask_xor]

theorem loop_eq (d : List (BitVec 8)) (h : BitVec 32) :
    pyLoop h.toNat (d.map (·.toNat)) = ((jLoop h d).1.toNat, (jLoop h d).2.map (·.toNat)) := by
  fun_induction jLoop h d with
  | case1 h b0 b1 b2 b3 rest ih =>
    simp only [List.map_cons, pyLoop, pyMix_eq]
    exact ih
  | case2 h tail hne =>
    match tail, hne with
    | [], _ => simp [pyLoop]
    | [a], _ => simp [pyLoop]
    | [a, b], _ => simp [pyLoop]
    | [a, b, c], _ => simp [pyLoop]
    | a :: b :: c :: e :: r, hne => exact absurd rfl (hne a b c e r)

theorem bz0 (a : BitVec 8) : (bz a 0).toNat = (a.toNat &&& 0xFF) := by
  have := bz_toNat a 0 (by omega); simpa using this

theorem tail_eq (h : BitVec 32) (t : List (BitVec 8)) :
    pyTail h.toNat (t.map (·.toNat)) = (jTail h t).toNat := by
  match t with
  | [] => simp [pyTail, jTail]
  | [a] =>
    simp only [List.map_cons, List.map_nil, pyTail, jTail]
    rw [← bz0 a, mask_xor, mask_mul]
  | [a, b] =>
    simp only [List.map_cons, List.map_nil, pyTail, jTail]
    rw [← bz0 a, ← bz_toNat b 8 (by omega), mask_xor, mask_xor, mask_mul]
  | [a, b, c] =>
    simp only [List.map_cons, List.map_nil, pyTail, jTail]
    rw [← bz0 a, ← bz_toNat b 8 (by omega), ← bz_toNat c 16 (by omega), mask_xor, mask_xor,
      mask_xor, mask_mul]
  | a :: b :: c :: e :: r => simp [pyTail, jTail]

theorem final_eq (h : BitVec 32) : pyFinal h.toNat = (jFinal h).toNat := by
  unfold pyFinal jFinal
  simp only [mask_xor_shr, mask_mul]

theorem toPositive_eq (h : BitVec 32) : h.toNat &&& 0x7FFFFFFF = (jToPositive h).toNat := by
  unfold jToPositive
  rw [BitVec.toNat_and]; rfl

end AkVerif.Murmur
