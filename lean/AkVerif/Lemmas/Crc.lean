import AkVerif.Model.Crc
/-! the table-driven CRC of `_crc32c.py` computes the bit-at-a-time definition -/
namespace AkVerif.Crc
open AkVerif.Wire

theorem step_xor (poly a b : Nat) : step poly (a ^^^ b) = step poly a ^^^ step poly b := by
  unfold step
  rw [Nat.shiftRight_xor_distrib]
  by_cases ha : a % 2 = 1 <;> by_cases hb : b % 2 = 1 <;>
    simp only [Nat.xor_mod_two_eq_one, ha, hb, iff_self, not_true_eq_false, if_false, if_true,
      Nat.xor_zero, iff_false, not_false_eq_true, false_iff, true_iff, iff_true]
  · have : poly ^^^ poly = 0 := Nat.xor_self poly
    calc a >>> 1 ^^^ b >>> 1 = a >>> 1 ^^^ b >>> 1 ^^^ (poly ^^^ poly) := by rw [this, Nat.xor_zero]
      _ = a >>> 1 ^^^ poly ^^^ (b >>> 1 ^^^ poly) := by ac_rfl
  · ac_rfl
  · ac_rfl

theorem step_zero (poly : Nat) : step poly 0 = 0 := by simp [step]

theorem stepN_xor (poly : Nat) (n : Nat) : ∀ a b, stepN poly n (a ^^^ b) = stepN poly n a ^^^ stepN poly n b := by
  induction n with
  | zero => intro a b; rfl
  | succ n ih => intro a b; simp only [stepN, step_xor, ih]

/-- eight steps on `x` = eight steps on its low byte, xor the rest shifted down -/
theorem stepN_split (poly : Nat) (k : Nat) : ∀ x, stepN poly k x = stepN poly k (x % 2 ^ k) ^^^ (x >>> k) := by
  induction k with
  | zero => intro x; simp [stepN, Nat.mod_one]
  | succ k ih =>
    intro x
    have hy2 : x % 2 ^ (k + 1) % 2 = x % 2 := by
      rw [Nat.pow_succ, Nat.mul_comm, Nat.mod_mul_right_mod]
    have hyd : (x % 2 ^ (k + 1)) >>> 1 = (x >>> 1) % 2 ^ k := by
      simp only [Nat.shiftRight_eq_div_pow, Nat.pow_one]
      rw [Nat.pow_succ, Nat.mul_comm, Nat.mod_mul_right_div_self]
    have hs : x >>> 1 >>> k = x >>> (k + 1) := by
      rw [← Nat.shiftRight_add, Nat.add_comm]
    simp only [stepN]
    conv => lhs; unfold step
    conv => rhs; unfold step
    rw [hy2, hyd, stepN_xor, stepN_xor, ih (x >>> 1), hs]
    ac_rfl

theorem step_lt (poly c : Nat) (hp : poly < 2 ^ 32) (hc : c < 2 ^ 32) : step poly c < 2 ^ 32 := by
  unfold step
  apply Nat.xor_lt_two_pow
  · rw [Nat.shiftRight_eq_div_pow]; exact Nat.lt_of_le_of_lt (Nat.div_le_self _ _) hc
  · split
    · exact hp
    · decide

theorem stepN_lt (poly : Nat) (hp : poly < 2 ^ 32) (n : Nat) : ∀ c, c < 2 ^ 32 → stepN poly n c < 2 ^ 32 := by
  induction n with
  | zero => intro c hc; exact hc
  | succ n ih => intro c hc; exact ih _ (step_lt poly c hp hc)

theorem mkTable_get (poly i : Nat) (h : i < 256) : (mkTable poly)[i]? = some (stepN poly 8 i) := by
  unfold mkTable
  simp [h]

/-- one byte of `crc_update` = one byte of the bitwise algorithm -/
theorem table_byte (poly c b : Nat) (hp : poly < 2 ^ 32) (hc : c < 2 ^ 32) (hb : b < 256) :
    (mkTable poly)[(c ^^^ b) &&& 0xFF]? = some (stepN poly 8 ((c ^^^ b) % 256)) ∧
    (stepN poly 8 ((c ^^^ b) % 256) ^^^ (c >>> 8)) &&& 0xFFFFFFFF = byteStep poly c b := by
  have hand : (c ^^^ b) &&& 0xFF = (c ^^^ b) % 256 := Nat.and_two_pow_sub_one_eq_mod _ 8
  constructor
  · rw [hand]; exact mkTable_get poly _ (Nat.mod_lt _ (by decide))
  · have hsh : (c ^^^ b) >>> 8 = c >>> 8 := by
      rw [Nat.shiftRight_xor_distrib]
      have : b >>> 8 = 0 := by rw [Nat.shiftRight_eq_div_pow]; exact Nat.div_eq_of_lt hb
      rw [this, Nat.xor_zero]
    have hsplit := stepN_split poly 8 (c ^^^ b)
    rw [hsh] at hsplit
    have hcb : c ^^^ b < 2 ^ 32 := Nat.xor_lt_two_pow hc (Nat.lt_of_lt_of_le hb (by decide))
    have hlt : byteStep poly c b < 2 ^ 32 := stepN_lt poly hp 8 _ hcb
    unfold byteStep at hlt ⊢
    rw [← hsplit]
    have := Nat.and_two_pow_sub_one_eq_mod (stepN poly 8 (c ^^^ b)) 32
    simp only [Nat.reducePow, Nat.reduceSub] at this
    rw [this]
    exact Nat.mod_eq_of_lt hlt

theorem tableLoop_eq (poly : Nat) (hp : poly < 2 ^ 32) (bs : Bytes) (hb : ∀ b ∈ bs, b < 256) :
    ∀ c, c < 2 ^ 32 → tableLoop (mkTable poly) c bs = some (update poly c bs) := by
  induction bs with
  | nil => intro c _; rfl
  | cons b rest ih =>
    intro c hc
    have hb0 := hb b (by simp)
    obtain ⟨h1, h2⟩ := table_byte poly c b hp hc hb0
    simp only [tableLoop, h1, h2, update, List.foldl_cons]
    have hlt : byteStep poly c b < 2 ^ 32 :=
      stepN_lt poly hp 8 _ (Nat.xor_lt_two_pow hc (Nat.lt_of_lt_of_le hb0 (by decide)))
    exact ih (fun y hy => hb y (by simp [hy])) _ hlt

theorem update_lt (poly : Nat) (hp : poly < 2 ^ 32) (bs : Bytes) (hb : ∀ b ∈ bs, b < 256) :
    ∀ c, c < 2 ^ 32 → update poly c bs < 2 ^ 32 := by
  induction bs with
  | nil => intro c hc; exact hc
  | cons b rest ih =>
    intro c hc
    have hb0 := hb b (by simp)
    simp only [update, List.foldl_cons]
    exact ih (fun y hy => hb y (by simp [hy])) _
      (stepN_lt poly hp 8 _ (Nat.xor_lt_two_pow hc (Nat.lt_of_lt_of_le hb0 (by decide))))

/-- `_crc32c.crc(data)` with the generated table is CRC-32C as defined bit by bit -/
theorem crcTableDriven_eq (bs : Bytes) (hb : ∀ b ∈ bs, b < 256) :
    crcTableDriven (mkTable castagnoli) bs = some (crc32c bs) := by
  unfold crcTableDriven crc32c
  have h0 : (0 ^^^ 0xFFFFFFFF : Nat) = 0xFFFFFFFF := by decide
  rw [h0, tableLoop_eq castagnoli (by decide) bs hb _ (by decide)]
  simp only
  have := Nat.and_two_pow_sub_one_eq_mod (update castagnoli 0xFFFFFFFF bs ^^^ 0xFFFFFFFF) 32
  simp only [Nat.reducePow, Nat.reduceSub] at this
  rw [this]

end AkVerif.Crc
