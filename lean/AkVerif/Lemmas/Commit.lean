import AkVerif.Model.Commit
import AkVerif.Lemmas.GroupTrace
/-! invariants of the C04 acceptor (`Model/Commit.lean`), indexed by the history that led to a state -/
namespace AkVerif.Group.Commit
open AkVerif.Group

theorem step_some {P : Params} {s s' : St} {e : Ev} (h : step P s e = some s') :
    guard P s e = true ∧ s' = post P s e := by
  unfold step at h
  split at h
  · rename_i hg; simp at h; exact ⟨hg, h.symm⟩
  · simp at h

theorem noVis_spec {P : Params} {p a b : Nat} (h : noVis P p a b = true) {k : Nat} (h1 : a ≤ k)
    (h2 : k < b) : P.vis p k = false := by
  unfold noVis at h
  have := List.all_eq_true.1 h (k - a) (by simp [List.mem_range]; omega)
  have e : a + (k - a) = k := by omega
  rw [e] at this
  simpa using this

/-- every visible record of `p` from the log start up to (excluding) `x` has been handed to the
    application by some member of the group -/
def Safe (P : Params) (s : St) (p x : Nat) : Prop :=
  ∀ k, P.logStart p ≤ k → k < x → P.vis p k = true → ∃ m', s.dl m' p k = true

/-- `[st, q)` is an interval `m` itself consumed: every visible record in it was handed out by `m` -/
def Mine (P : Params) (s : St) (m p st q : Nat) : Prop :=
  st ≤ q ∧ ∀ k, st ≤ k → k < q → P.vis p k = true → s.dl m p k = true

def Offered (m p st : Nat) : Ev → Prop := fun e => ∃ src, e = .offer m p st src

/-- where the running epoch of `m` on `p` starts: at the committed offset the coordinator answered
    in this epoch, or at the reset position after the coordinator answered "no committed offset"
    in this epoch -/
def StartedAt (m p st : Nat) (pre : List Ev) : Prop :=
  Since (· = .offer m p st .committed) (epochB m) pre ∨
  (Since (· = .offer m p st .reset) (epochB m) pre ∧ Since (· = .noOffset m p) (epochB m) pre)

theorem StartedAt.snoc {m p st : Nat} {pre : List Ev} {e : Ev} (h : StartedAt m p st pre)
    (hb : epochB m e = false) : StartedAt m p st (pre ++ [e]) := by
  rcases h with h | ⟨h1, h2⟩
  · exact Or.inl (h.snoc hb)
  · exact Or.inr ⟨h1.snoc hb, h2.snoc hb⟩

theorem StartedAt.offered {m p st : Nat} {pre : List Ev} (h : StartedAt m p st pre) :
    ∃ src, .offer m p st src ∈ pre := by
  rcases h with h | ⟨h, _⟩
  · obtain ⟨x, hx, rfl⟩ := h.mem; exact ⟨_, hx⟩
  · obtain ⟨x, hx, rfl⟩ := h.mem; exact ⟨_, hx⟩

theorem StartedAt.since {m p st : Nat} {pre : List Ev} (h : StartedAt m p st pre) :
    Since (Offered m p st) (epochB m) pre := by
  rcases h with h | ⟨h, _⟩
  · obtain ⟨a, x, b, h1, rfl, h3⟩ := h; exact ⟨a, _, b, h1, ⟨_, rfl⟩, h3⟩
  · obtain ⟨a, x, b, h1, rfl, h3⟩ := h; exact ⟨a, _, b, h1, ⟨_, rfl⟩, h3⟩

structure Inv (P : Params) (pre : List Ev) (s : St) : Prop where
  cur : ∀ m p st q, (s.ps m p).cur = some (st, q) →
    Mine P s m p st q ∧ Safe P s p q ∧ StartedAt m p st pre
  hist : ∀ m p st q, (st, q) ∈ (s.ps m p).hist →
    Mine P s m p st q ∧ Safe P s p q ∧ ∃ src, .offer m p st src ∈ pre
  cand : ∀ m p v, (s.ps m p).cand = some v → Safe P s p v ∧ StartedAt m p v pre
  store : ∀ p c, s.store p = some c → Safe P s p c ∧ ∃ m', .commit m' p c true ∈ pre
  dl : ∀ m p k, s.dl m p k = true → .deliver m p k ∈ pre
  resetOK : ∀ m p, (s.ps m p).resetOK = true → Since (· = .noOffset m p) (epochB m) pre

theorem inv_init (P : Params) : Inv P [] St.init := by
  constructor <;> intros <;> simp_all [St.init]

theorem Safe.down {P : Params} {s : St} {p x y : Nat} (h : Safe P s p x) (hy : y ≤ x) : Safe P s p y :=
  fun k h1 h2 h3 => h k h1 (by omega) h3

theorem Safe.skip {P : Params} {s : St} {p x y : Nat} (h : Safe P s p x) (hv : noVis P p x y = true) :
    Safe P s p y := by
  intro k h1 h2 h3
  by_cases hk : k < x
  · exact h k h1 hk h3
  · have := noVis_spec hv (by omega) h2
    rw [this] at h3; cases h3

theorem Mine.skip {P : Params} {s : St} {m p st x y : Nat} (h : Mine P s m p st x) (hxy : x ≤ y)
    (hv : noVis P p x y = true) : Mine P s m p st y := by
  refine ⟨by have := h.1; omega, ?_⟩
  intro k h1 h2 h3
  by_cases hk : k < x
  · exact h.2 k h1 hk h3
  · have := noVis_spec hv (by omega) h2
    rw [this] at h3; cases h3

/-- the epoch `bound` works on is consumed by `m`, safe, and starts at an offer of this epoch -/
theorem bound_ok {P : Params} {pre : List Ev} {s : St} (I : Inv P pre s) {m p st q : Nat}
    (h : bound (s.ps m p) = some (st, q)) :
    Mine P s m p st q ∧ Safe P s p q ∧ StartedAt m p st pre := by
  unfold bound at h
  split at h
  · rename_i e he
    cases h
    exact I.cur m p st q he
  · split at h
    · cases hc : (s.ps m p).cand with
      | none => simp [hc] at h
      | some v =>
        simp [hc] at h
        obtain ⟨rfl, rfl⟩ := h
        obtain ⟨h1, h2⟩ := I.cand m p v hc
        exact ⟨⟨Nat.le_refl _, fun k a b => by omega⟩, h1, h2⟩
    · cases h

/-- a value `covered` by an epoch that is consumed by `m` and safe -/
theorem covered_ok {P : Params} {s : St} {m p c st q : Nat} (h1 : Mine P s m p st q)
    (h2 : Safe P s p q) (hc : covered P p c (st, q) = true) : Safe P s p c ∧ Mine P s m p st c := by
  simp [covered] at hc
  by_cases hle : c ≤ q
  · exact ⟨h2.down hle, ⟨hc.1, fun k a b d => h1.2 k a (by omega) d⟩⟩
  · rcases hc.2 with h' | hv
    · exact absurd h' hle
    · exact ⟨h2.skip hv, h1.skip (by omega) hv⟩

/-- whatever value passes the commit guard: below it, from the start of one of `m`'s epochs on
    `p`, everything visible was handed out by `m`; and below it everything visible was handed out
    by the group -/
theorem commit_guard_ok {P : Params} {pre : List Ev} {s : St} (I : Inv P pre s) {m p c : Nat} {ok : Bool}
    (hg : guard P s (.commit m p c ok) = true) :
    Safe P s p c ∧ ∃ st, (∃ src, .offer m p st src ∈ pre) ∧ Mine P s m p st c := by
  simp only [guard, Bool.or_eq_true] at hg
  rcases hg with hg | hg
  · obtain ⟨⟨st, q⟩, hin, hc⟩ := List.any_eq_true.1 hg
    obtain ⟨h1, h2, h3⟩ := I.hist m p st q hin
    obtain ⟨k1, k2⟩ := covered_ok h1 h2 hc
    exact ⟨k1, st, h3, k2⟩
  · split at hg
    · rename_i e hb
      obtain ⟨st, q⟩ := e
      obtain ⟨h1, h2, h3⟩ := bound_ok I hb
      obtain ⟨src, hx⟩ := h3.offered
      obtain ⟨k1, k2⟩ := covered_ok h1 h2 hg
      exact ⟨k1, st, ⟨src, hx⟩, k2⟩
    · cases hg

/-! ## monotonicity: the delivered set only grows -/

theorem dl_mono (P : Params) (s : St) (e : Ev) (m p k : Nat) (h : s.dl m p k = true) :
    (post P s e).dl m p k = true := by
  cases e <;> simp [post, h]

theorem Safe.mono {P : Params} {s : St} {e : Ev} {p x : Nat} (h : Safe P s p x) :
    Safe P (post P s e) p x := by
  intro k h1 h2 h3
  obtain ⟨m', hm⟩ := h k h1 h2 h3
  exact ⟨m', dl_mono P s e m' p k hm⟩

theorem Mine.mono {P : Params} {s : St} {e : Ev} {m p st q : Nat} (h : Mine P s m p st q) :
    Mine P (post P s e) m p st q :=
  ⟨h.1, fun k a b c => dl_mono P s e m p k (h.2 k a b c)⟩

theorem epochB_other {e : Ev} (h1 : ∀ m g t, e ≠ .asgS m g t) (h2 : ∀ m, e ≠ .sub m) (m : Nat) :
    epochB m e = false := by
  cases e <;> simp_all [epochB, isAsg, isSub]

theorem updPS_resetOK (P : Params) (x : PS) (e : Ev) (h : (updPS P x e).resetOK = true) :
    x.resetOK = true ∨ ∃ m p, e = .noOffset m p := by
  cases e <;> simp only [updPS] at h
  case offer m p v src => split at h <;> simp_all
  case noOffset m p => exact Or.inr ⟨m, p, rfl⟩
  case deliver m p o => split at h <;> simp_all
  case commit m p c ok =>
    split at h
    · exact Or.inl h
    · split at h <;> simp_all
  all_goals exact Or.inl h

theorem resetOK_step {P : Params} {pre : List Ev} {s : St} {e : Ev} (I : Inv P pre s) (m p : Nat)
    (h : ((post P s e).ps m p).resetOK = true) :
    Since (· = .noOffset m p) (epochB m) (pre ++ [e]) := by
  have keep : (s.ps m p).resetOK = true → epochB m e = false →
      Since (· = .noOffset m p) (epochB m) (pre ++ [e]) := fun h0 hb => (I.resetOK m p h0).snoc hb
  have single : ∀ m0 p0, (post P s e).ps m p = (if m = m0 ∧ p = p0 then updPS P (s.ps m0 p0) e else s.ps m p) →
      epochB m e = false → (∀ m1 p1, e = .noOffset m1 p1 → m1 = m0 ∧ p1 = p0) →
      Since (· = .noOffset m p) (epochB m) (pre ++ [e]) := by
    intro m0 p0 hp hb hno
    rw [hp] at h
    split at h
    · rename_i hc; obtain ⟨rfl, rfl⟩ := hc
      rcases updPS_resetOK P _ e h with h0 | ⟨m1, p1, rfl⟩
      · exact keep h0 hb
      · obtain ⟨rfl, rfl⟩ := hno m1 p1 rfl
        exact Since.new pre rfl
    · exact keep h hb
  cases e
  case asgS m0 g tps =>
    simp only [post] at h
    split at h
    · simp [close] at h
    · rename_i hm; exact keep h (by simp [epochB, isAsg, isSub]; exact fun x => hm x.symm)
  case sub m0 =>
    simp only [post] at h
    split at h
    · simp [close] at h
    · rename_i hm; exact keep h (by simp [epochB, isAsg, isSub]; exact fun x => hm x.symm)
  case offer m0 p0 v src =>
    exact single m0 p0 (by simp [post]) (by simp [epochB, isAsg, isSub]) (by intro _ _ h'; cases h')
  case noOffset m0 p0 =>
    exact single m0 p0 (by simp [post]) (by simp [epochB, isAsg, isSub])
      (by intro _ _ h'; cases h'; exact ⟨rfl, rfl⟩)
  case deliver m0 p0 o =>
    exact single m0 p0 (by simp [post]) (by simp [epochB, isAsg, isSub]) (by intro _ _ h'; cases h')
  case commit m0 p0 c ok =>
    exact single m0 p0 (by simp [post]) (by simp [epochB, isAsg, isSub]) (by intro _ _ h'; cases h')
  all_goals exact keep (by simpa [post] using h) (by simp [epochB, isAsg, isSub])

/-- an event that changes no `ps`, `store`, `dl` and ends no epoch -/
theorem inv_noop {P : Params} {pre : List Ev} {s : St} {e : Ev} (I : Inv P pre s)
    (hb : ∀ m, epochB m e = false) : Inv P (pre ++ [e]) s := by
  refine ⟨?_, ?_, ?_, ?_, ?_, fun m p h => (I.resetOK m p h).snoc (hb m)⟩
  · intro m p st q h
    obtain ⟨h1, h2, h3⟩ := I.cur m p st q h
    exact ⟨h1, h2, h3.snoc (hb m)⟩
  · intro m p st q h
    obtain ⟨h1, h2, src, h3⟩ := I.hist m p st q h
    exact ⟨h1, h2, src, List.mem_append_left _ h3⟩
  · intro m p v h
    obtain ⟨h1, h2⟩ := I.cand m p v h
    exact ⟨h1, h2.snoc (hb m)⟩
  · intro p c h
    obtain ⟨h1, m', h2⟩ := I.store p c h
    exact ⟨h1, m', List.mem_append_left _ h2⟩
  · intro m p k h
    exact List.mem_append_left _ (I.dl m p k h)

/-- closing the epochs of `m0` (adoption or subscription change) -/
theorem inv_close {P : Params} {pre : List Ev} {s : St} {e : Ev} (I : Inv P pre s) (m0 : Nat)
    (f : Nat → Bool) (hb : ∀ m, m ≠ m0 → epochB m e = false) :
    Inv P (pre ++ [e])
      { s with ps := fun m' p' => if m' = m0 then close (s.ps m0 p') (f p') else s.ps m' p' } := by
  refine ⟨?_, ?_, ?_, ?_, ?_, ?_⟩
  · intro m p st q h
    by_cases hm : m = m0
    · subst hm; simp [close] at h
    · simp [hm] at h
      obtain ⟨h1, h2, h3⟩ := I.cur m p st q h
      exact ⟨h1, h2, h3.snoc (hb m hm)⟩
  · intro m p st q h
    by_cases hm : m = m0
    · subst hm
      simp only [if_true, close] at h
      have old : (st, q) ∈ (s.ps m p).hist →
          Mine P s m p st q ∧ Safe P s p q ∧ ∃ src, Ev.offer m p st src ∈ pre ++ [e] := fun h0 => by
        obtain ⟨h1, h2, src, h3⟩ := I.hist m p st q h0
        exact ⟨h1, h2, src, List.mem_append_left _ h3⟩
      cases hcur : (s.ps m p).cur with
      | none =>
        simp only [hcur] at h
        cases hcand : (s.ps m p).cand with
        | none => simp only [hcand] at h; exact old h
        | some v =>
          simp only [hcand, List.mem_cons] at h
          rcases h with heq | h
          · cases heq
            obtain ⟨h1, h2⟩ := I.cand m p st hcand
            obtain ⟨src, hx⟩ := h2.offered
            exact ⟨⟨Nat.le_refl _, fun k a b => by omega⟩, h1, src, List.mem_append_left _ hx⟩
          · exact old h
      | some e0 =>
        simp [hcur] at h
        rcases h with rfl | h
        · obtain ⟨h1, h2, h3⟩ := I.cur m p st q hcur
          obtain ⟨src, hx⟩ := h3.offered
          exact ⟨h1, h2, src, List.mem_append_left _ hx⟩
        · exact old h
    · simp [hm] at h
      obtain ⟨h1, h2, src, h3⟩ := I.hist m p st q h
      exact ⟨h1, h2, src, List.mem_append_left _ h3⟩
  · intro m p v h
    by_cases hm : m = m0
    · subst hm; simp [close] at h
    · simp [hm] at h
      obtain ⟨h1, h2⟩ := I.cand m p v h
      exact ⟨h1, h2.snoc (hb m hm)⟩
  · intro p c h
    obtain ⟨h1, m', h2⟩ := I.store p c h
    exact ⟨h1, m', List.mem_append_left _ h2⟩
  · intro m p k h
    exact List.mem_append_left _ (I.dl m p k h)
  · intro m p h
    by_cases hm : m = m0
    · subst hm; simp [close] at h
    · simp [hm] at h
      exact (I.resetOK m p h).snoc (hb m hm)

theorem inv_offer {P : Params} {pre : List Ev} {s : St} {m0 p0 v : Nat} {src : Src} (I : Inv P pre s)
    (hg : guard P s (.offer m0 p0 v src) = true) :
    Inv P (pre ++ [.offer m0 p0 v src]) (post P s (.offer m0 p0 v src)) := by
  have hb : ∀ m, epochB m (.offer m0 p0 v src) = false := fun m => by simp [epochB, isAsg, isSub]
  have hsafe : Safe P s p0 v := by
    simp only [guard] at hg
    cases src with
    | committed => simp at hg; exact (I.store p0 v hg).1
    | reset =>
      simp at hg
      obtain ⟨rfl, _⟩ := hg
      intro k h1 h2; omega
  have hcur : ∀ x : PS, (updPS P x (.offer m0 p0 v src)).cur = x.cur := by
    intro x; simp only [updPS]; split <;> rfl
  have hhist : ∀ x : PS, (updPS P x (.offer m0 p0 v src)).hist = x.hist := by
    intro x; simp only [updPS]; split <;> rfl
  refine ⟨?_, ?_, ?_, ?_, ?_, resetOK_step I⟩
  · intro m p st q h
    have h' : (s.ps m p).cur = some (st, q) := by
      simp only [post] at h
      split at h
      · rename_i hc; obtain ⟨rfl, rfl⟩ := hc; rw [hcur] at h; exact h
      · exact h
    obtain ⟨h1, h2, h3⟩ := I.cur m p st q h'
    exact ⟨h1, h2, h3.snoc (hb m)⟩
  · intro m p st q h
    have h' : (st, q) ∈ (s.ps m p).hist := by
      simp only [post] at h
      split at h
      · rename_i hc; obtain ⟨rfl, rfl⟩ := hc; rw [hhist] at h; exact h
      · exact h
    obtain ⟨h1, h2, src', h3⟩ := I.hist m p st q h'
    exact ⟨h1, h2, src', List.mem_append_left _ h3⟩
  · intro m p w h
    simp only [post] at h
    split at h
    · rename_i hc; obtain ⟨rfl, rfl⟩ := hc
      simp only [updPS] at h
      split at h
      · rename_i hown
        simp at h; subst h
        refine ⟨hsafe, ?_⟩
        cases src with
        | committed => exact Or.inl (Since.new pre rfl)
        | reset =>
          simp only [guard] at hg
          simp at hg hown
          rcases hg.2 with (hno | hno) | hok
          · simp [hown.1] at hno
          · simp [hown.2] at hno
          · exact Or.inr ⟨Since.new pre rfl, (I.resetOK m p hok).snoc (hb m)⟩
      · obtain ⟨h1, h2⟩ := I.cand m p w h
        exact ⟨h1, h2.snoc (hb m)⟩
    · obtain ⟨h1, h2⟩ := I.cand m p w h
      exact ⟨h1, h2.snoc (hb m)⟩
  · intro p c h
    obtain ⟨h1, m', h2⟩ := I.store p c h
    exact ⟨h1, m', List.mem_append_left _ h2⟩
  · intro m p k h
    exact List.mem_append_left _ (I.dl m p k h)

theorem inv_deliver {P : Params} {pre : List Ev} {s : St} {m0 p0 o : Nat} (I : Inv P pre s)
    (hg : guard P s (.deliver m0 p0 o) = true) :
    Inv P (pre ++ [.deliver m0 p0 o]) (post P s (.deliver m0 p0 o)) := by
  have hb : ∀ m, epochB m (.deliver m0 p0 o) = false := fun m => by simp [epochB, isAsg, isSub]
  simp only [guard, Bool.and_eq_true] at hg
  obtain ⟨_, hg⟩ := hg
  split at hg
  · rename_i st q hbd
    simp at hg
    obtain ⟨hqo, hv⟩ := hg
    obtain ⟨b1, b2, b3⟩ := bound_ok I hbd
    have hnew : (post P s (.deliver m0 p0 o)).dl m0 p0 o = true := by simp [post]
    have hps : (post P s (.deliver m0 p0 o)).ps m0 p0
        = { s.ps m0 p0 with cur := some (st, o + 1), cand := none } := by
      simp [post, updPS, hbd]
    have hother : ∀ m p, ¬(m = m0 ∧ p = p0) → (post P s (.deliver m0 p0 o)).ps m p = s.ps m p := by
      intro m p hne; simp [post, hne]
    refine ⟨?_, ?_, ?_, ?_, ?_, resetOK_step I⟩
    · intro m p st' q' h
      by_cases hmp : m = m0 ∧ p = p0
      · obtain ⟨rfl, rfl⟩ := hmp
        rw [hps] at h; simp at h
        obtain ⟨rfl, rfl⟩ := h
        refine ⟨⟨by have := b1.1; omega, ?_⟩, ?_, b3.snoc (hb m)⟩
        · intro k h1 h2 h3
          by_cases hk : k < q
          · exact dl_mono P s _ m p k (b1.2 k h1 hk h3)
          · by_cases hko : k = o
            · subst hko; exact hnew
            · have := noVis_spec hv (by omega : q ≤ k) (by omega)
              rw [this] at h3; cases h3
        · intro k h1 h2 h3
          by_cases hk : k < q
          · obtain ⟨m', hm'⟩ := b2 k h1 hk h3
            exact ⟨m', dl_mono P s _ m' p k hm'⟩
          · by_cases hko : k = o
            · subst hko; exact ⟨m, hnew⟩
            · have := noVis_spec hv (by omega : q ≤ k) (by omega)
              rw [this] at h3; cases h3
      · rw [hother m p hmp] at h
        obtain ⟨h1, h2, h3⟩ := I.cur m p st' q' h
        exact ⟨h1.mono, h2.mono, h3.snoc (hb m)⟩
    · intro m p st' q' h
      have h' : (st', q') ∈ (s.ps m p).hist := by
        by_cases hmp : m = m0 ∧ p = p0
        · obtain ⟨rfl, rfl⟩ := hmp; rw [hps] at h; exact h
        · rw [hother m p hmp] at h; exact h
      obtain ⟨h1, h2, src', h3⟩ := I.hist m p st' q' h'
      exact ⟨h1.mono, h2.mono, src', List.mem_append_left _ h3⟩
    · intro m p w h
      by_cases hmp : m = m0 ∧ p = p0
      · obtain ⟨rfl, rfl⟩ := hmp; rw [hps] at h; simp at h
      · rw [hother m p hmp] at h
        obtain ⟨h1, h2⟩ := I.cand m p w h
        exact ⟨h1.mono, h2.snoc (hb m)⟩
    · intro p c h
      have h' : s.store p = some c := by simpa [post] using h
      obtain ⟨h1, m', h2⟩ := I.store p c h'
      exact ⟨h1.mono, m', List.mem_append_left _ h2⟩
    · intro m p k h
      simp [post] at h
      rcases h with ⟨⟨rfl, rfl⟩, rfl⟩ | h
      · simp
      · exact List.mem_append_left _ (I.dl m p k h)
  · cases hg

theorem inv_commit {P : Params} {pre : List Ev} {s : St} {m0 p0 c : Nat} {ok : Bool} (I : Inv P pre s)
    (hg : guard P s (.commit m0 p0 c ok) = true) :
    Inv P (pre ++ [.commit m0 p0 c ok]) (post P s (.commit m0 p0 c ok)) := by
  have hb : ∀ m, epochB m (.commit m0 p0 c ok) = false := fun m => by simp [epochB, isAsg, isSub]
  obtain ⟨gsafe, _⟩ := commit_guard_ok I hg
  have hdl : (post P s (.commit m0 p0 c ok)).dl = s.dl := by simp [post]
  have safe_eq : ∀ p x, Safe P s p x → Safe P (post P s (.commit m0 p0 c ok)) p x := by
    intro p x h; unfold Safe; rw [hdl]; exact h
  have mine_eq : ∀ m p a b, Mine P s m p a b → Mine P (post P s (.commit m0 p0 c ok)) m p a b := by
    intro m p a b h; unfold Mine; rw [hdl]; exact h
  have hother : ∀ m p, ¬(m = m0 ∧ p = p0) → (post P s (.commit m0 p0 c ok)).ps m p = s.ps m p := by
    intro m p hne; simp [post, hne]
  have hself : (post P s (.commit m0 p0 c ok)).ps m0 p0 = updPS P (s.ps m0 p0) (.commit m0 p0 c ok) := by
    simp [post]
  have hhist : (updPS P (s.ps m0 p0) (.commit m0 p0 c ok)).hist = (s.ps m0 p0).hist := by
    simp only [updPS]; split
    · rfl
    · split <;> rfl
  refine ⟨?_, ?_, ?_, ?_, ?_, resetOK_step I⟩
  · intro m p st q h
    by_cases hmp : m = m0 ∧ p = p0
    · obtain ⟨rfl, rfl⟩ := hmp
      rw [hself] at h
      simp only [updPS] at h
      split at h
      · obtain ⟨h1, h2, h3⟩ := I.cur m p st q h
        exact ⟨mine_eq _ _ _ _ h1, safe_eq _ _ h2, h3.snoc (hb m)⟩
      · rename_i hnc
        split at h
        · rename_i st0 q0 hbd
          simp at h
          obtain ⟨rfl, rfl⟩ := h
          obtain ⟨b1, b2, b3⟩ := bound_ok I hbd
          by_cases hle : c ≤ q0
          · simp only [hle, if_true]
            exact ⟨mine_eq _ _ _ _ b1, safe_eq _ _ b2, b3.snoc (hb m)⟩
          · simp only [hle, if_false]
            simp only [guard, Bool.or_eq_true] at hg
            rcases hg with hg | hg
            · exact absurd hg hnc
            · rw [hbd] at hg
              simp [covered] at hg
              rcases hg.2 with h' | hv
              · exact absurd h' hle
              · exact ⟨mine_eq _ _ _ _ (b1.skip (by omega) hv), safe_eq _ _ (b2.skip hv), b3.snoc (hb m)⟩
        · obtain ⟨h1, h2, h3⟩ := I.cur m p st q h
          exact ⟨mine_eq _ _ _ _ h1, safe_eq _ _ h2, h3.snoc (hb m)⟩
    · rw [hother m p hmp] at h
      obtain ⟨h1, h2, h3⟩ := I.cur m p st q h
      exact ⟨mine_eq _ _ _ _ h1, safe_eq _ _ h2, h3.snoc (hb m)⟩
  · intro m p st q h
    have h' : (st, q) ∈ (s.ps m p).hist := by
      by_cases hmp : m = m0 ∧ p = p0
      · obtain ⟨rfl, rfl⟩ := hmp; rw [hself, hhist] at h; exact h
      · rw [hother m p hmp] at h; exact h
    obtain ⟨h1, h2, src', h3⟩ := I.hist m p st q h'
    exact ⟨mine_eq _ _ _ _ h1, safe_eq _ _ h2, src', List.mem_append_left _ h3⟩
  · intro m p w h
    have h' : (s.ps m p).cand = some w := by
      by_cases hmp : m = m0 ∧ p = p0
      · obtain ⟨rfl, rfl⟩ := hmp
        rw [hself] at h
        simp only [updPS] at h
        split at h
        · exact h
        · split at h
          · simp at h
          · exact h
      · rw [hother m p hmp] at h; exact h
    obtain ⟨h1, h2⟩ := I.cand m p w h'
    exact ⟨safe_eq _ _ h1, h2.snoc (hb m)⟩
  · intro p c' h
    simp only [post] at h
    split at h
    · rename_i hc
      obtain ⟨hok, rfl⟩ := hc
      simp at h; subst h
      exact ⟨safe_eq _ _ gsafe, m0, by simp [hok]⟩
    · obtain ⟨h1, m', h2⟩ := I.store p c' h
      exact ⟨safe_eq _ _ h1, m', List.mem_append_left _ h2⟩
  · intro m p k h
    rw [hdl] at h
    exact List.mem_append_left _ (I.dl m p k h)

theorem inv_noOffset {P : Params} {pre : List Ev} {s : St} {m0 p0 : Nat} (I : Inv P pre s) :
    Inv P (pre ++ [.noOffset m0 p0]) (post P s (.noOffset m0 p0)) := by
  have hb : ∀ m, epochB m (.noOffset m0 p0) = false := fun m => by simp [epochB, isAsg, isSub]
  have hps : ∀ m p, ((post P s (.noOffset m0 p0)).ps m p).cur = (s.ps m p).cur ∧
      ((post P s (.noOffset m0 p0)).ps m p).hist = (s.ps m p).hist ∧
      ((post P s (.noOffset m0 p0)).ps m p).cand = (s.ps m p).cand := by
    intro m p
    simp only [post]
    split
    · rename_i hc; obtain ⟨rfl, rfl⟩ := hc
      simp only [updPS]; split <;> simp
    · simp
  refine ⟨?_, ?_, ?_, ?_, ?_, resetOK_step I⟩
  · intro m p st q h
    rw [(hps m p).1] at h
    obtain ⟨h1, h2, h3⟩ := I.cur m p st q h
    exact ⟨h1, h2, h3.snoc (hb m)⟩
  · intro m p st q h
    rw [(hps m p).2.1] at h
    obtain ⟨h1, h2, src', h3⟩ := I.hist m p st q h
    exact ⟨h1, h2, src', List.mem_append_left _ h3⟩
  · intro m p w h
    rw [(hps m p).2.2] at h
    obtain ⟨h1, h2⟩ := I.cand m p w h
    exact ⟨h1, h2.snoc (hb m)⟩
  · intro p c h
    obtain ⟨h1, m', h2⟩ := I.store p c h
    exact ⟨h1, m', List.mem_append_left _ h2⟩
  · intro m p k h
    exact List.mem_append_left _ (I.dl m p k h)

/-- every accepted event preserves the invariant -/
theorem inv_step {P : Params} {pre : List Ev} {s s' : St} {e : Ev} (I : Inv P pre s)
    (h : step P s e = some s') : Inv P (pre ++ [e]) s' := by
  obtain ⟨hg, rfl⟩ := step_some h
  cases e
  case asgS m g tps =>
    exact inv_close I m (fun p => tps.contains p)
      (fun m' hm => by simp [epochB, isAsg, isSub]; exact fun h => hm h.symm)
  case sub m =>
    exact inv_close I m (fun _ => false)
      (fun m' hm => by simp [epochB, isAsg, isSub]; exact fun h => hm h.symm)
  case offer m p v src => exact inv_offer I hg
  case noOffset m p => exact inv_noOffset I
  case deliver m p o => exact inv_deliver I hg
  case commit m p c ok => exact inv_commit I hg
  all_goals exact inv_noop I (fun m => by simp [epochB, isAsg, isSub])

theorem inv_reach {P : Params} {pre : List Ev} {s : St} (h : Reach (step P) St.init pre s) :
    Inv P pre s := by
  induction h with
  | nil => exact inv_init P
  | snoc _ hs ih => exact inv_step ih hs


/-! ## from an accepted history to the invariant -/

theorem reach_of_accepts {P : Params} {pre : List Ev} {e : Ev} {post : List Ev}
    (h : accepts P (pre ++ e :: post) = true) :
    ∃ s, Inv P pre s ∧ guard P s e = true := by
  obtain ⟨s, s', r, hs, _⟩ := accepted_split (step P) St.init pre e post h
  exact ⟨s, inv_reach r, (step_some hs).1⟩


end AkVerif.Group.Commit
