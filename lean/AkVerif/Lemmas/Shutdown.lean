import AkVerif.Model.Shutdown
/-! helper lemmas for the shutdown model (C19) -/
namespace AkVerif.Shutdown

theorem clamp_le (cfg : Cfg) (a : Attempt) : clamp cfg a ≤ sendMax cfg := by
  unfold clamp; omega

theorem oneReq_le (cfg : Cfg) (s : Script) : (oneReq cfg s).1 ≤ sendMax cfg := by
  cases s with
  | nil => simp [oneReq]
  | cons a rest => simpa [oneReq] using clamp_le cfg a

/-- while closing `commit_offsets` makes exactly one request -/
theorem commitLoop_closing (cfg : Cfg) (s : Script) :
    (commitLoop cfg true s).1 ≤ sendMax cfg ∧ (commitLoop cfg true s).2.1 = 1 := by
  cases s with
  | nil => simp [commitLoop]
  | cons a rest =>
    have := clamp_le cfg a
    unfold commitLoop
    cases a.ans <;> simp <;> exact this

theorem commitLoopOld_retriables (cfg : Cfg) (d : Nat) :
    ∀ n : Nat, (commitLoopOld cfg (List.replicate n ⟨Ans.retriable, d⟩)).1 ≥ n * cfg.backoff ∧
               (commitLoopOld cfg (List.replicate n ⟨Ans.retriable, d⟩)).2.1 = n + 1
  | 0 => by simp [commitLoopOld]
  | n + 1 => by
    obtain ⟨h1, h2⟩ := commitLoopOld_retriables cfg d n
    simp only [List.replicate_succ, commitLoopOld]
    refine ⟨?_, by simp [h2]⟩
    have : (n + 1) * cfg.backoff = n * cfg.backoff + cfg.backoff := by
      rw [Nat.add_mul]; simp
    omega

theorem lookupTail_le (cfg : Cfg) (b : Bool) (s : Script) :
    (lookupTail cfg b s).1 ≤ (1 + cfg.nodes) * sendMax cfg + cfg.backoff := by
  have h := oneReq_le cfg s
  have : (1 + cfg.nodes) * sendMax cfg = sendMax cfg + cfg.nodes * sendMax cfg := by
    rw [Nat.add_mul]; simp
  unfold lookupTail
  cases b with
  | false => simp
  | true =>
    simp only [if_true]
    split <;> simp only <;> omega

theorem optCommit_le (cfg : Cfg) (on : Bool) (s : Script) : (optCommit cfg on s).1 ≤ sendMax cfg := by
  unfold optCommit
  cases on with
  | false => simp
  | true => simpa using (commitLoop_closing cfg s).1

theorem rejoinTail_le (cfg : Cfg) (fl : Flags) :
    ∀ (n : Nat) (s : Script),
      (rejoinTail cfg fl n s).1 ≤ (n + 1 + cfg.nodes) * sendMax cfg + cfg.backoff
  | 0, s => by
    have h := oneReq_le cfg s
    have : (0 + 1 + cfg.nodes) * sendMax cfg = sendMax cfg + cfg.nodes * sendMax cfg := by
      rw [Nat.add_mul]; simp
    unfold rejoinTail
    simp only
    split <;> split <;> omega
  | n + 1, s => by
    have h := oneReq_le cfg s
    have e : (n + 1 + 1 + cfg.nodes) * sendMax cfg = sendMax cfg + (n + 1 + cfg.nodes) * sendMax cfg := by
      rw [show n + 1 + 1 + cfg.nodes = 1 + (n + 1 + cfg.nodes) by omega, Nat.add_mul]; simp
    unfold rejoinTail
    rcases hq : oneReq cfg s with ⟨t, ok, r⟩
    rw [hq] at h
    simp only at h ⊢
    cases ok with
    | true =>
      have ih := rejoinTail_le cfg fl n r
      simp only [if_true]
      omega
    | false =>
      simp only [Bool.false_eq_true, if_false]
      omega

/-- every position, every state of the member, every environment -/
theorem consumerStop_le (cfg : Cfg) (pos : Pos) (fl : Flags) (s : Script) :
    consumerStop cfg pos fl s ≤ consumerBound cfg := by
  have hc := fun on s => optCommit_le cfg on s
  have hr := fun n s => rejoinTail_le cfg fl n s
  have hl := fun b s => lookupTail_le cfg b s
  have ho := fun s => oneReq_le cfg s
  have e1 : (1 + cfg.nodes) * sendMax cfg = sendMax cfg + cfg.nodes * sendMax cfg := by
    rw [Nat.add_mul]; simp
  have e2 : (2 + 1 + cfg.nodes) * sendMax cfg = 3 * sendMax cfg + cfg.nodes * sendMax cfg := by
    rw [Nat.add_mul]
  have e0 : (0 + 1 + cfg.nodes) * sendMax cfg = sendMax cfg + cfg.nodes * sendMax cfg := by
    rw [Nat.add_mul]; simp
  have e3 : (8 + 2 * cfg.nodes) * sendMax cfg = 8 * sendMax cfg + 2 * (cfg.nodes * sendMax cfg) := by
    rw [Nat.add_mul, Nat.mul_assoc]
  unfold consumerStop consumerBound
  rw [e3]
  cases pos
  case idle =>
    simp only
    have h4 := hc fl.autoCommit s
    have h5 := ho (optCommit cfg fl.autoCommit s).2
    split <;> omega
  case lookup =>
    simp only
    have h1 := hl true s
    generalize lookupTail cfg true s = p1 at h1 ⊢
    obtain ⟨t1, s1⟩ := p1
    simp only at h1 ⊢
    cases fl.needRejoin with
    | true =>
      simp only [if_true]
      have ha := hc fl.autoCommit s1
      generalize optCommit cfg fl.autoCommit s1 = pa at ha ⊢
      obtain ⟨ta, sa⟩ := pa
      have hb := hr 2 sa
      generalize rejoinTail cfg fl 2 sa = pb at hb ⊢
      obtain ⟨tb, sb⟩ := pb
      have h3 := hc fl.autoCommit sb
      generalize optCommit cfg fl.autoCommit sb = p3 at h3 ⊢
      obtain ⟨t3, s3⟩ := p3
      have h4 := hc fl.autoCommit s3
      generalize optCommit cfg fl.autoCommit s3 = p4 at h4 ⊢
      obtain ⟨t4, s4⟩ := p4
      have h5 := ho s4
      simp only at ha hb h3 h4 ⊢
      split <;> omega
    | false =>
      simp only [Bool.false_eq_true, if_false]
      have h3 := hc fl.autoCommit s1
      generalize optCommit cfg fl.autoCommit s1 = p3 at h3 ⊢
      obtain ⟨t3, s3⟩ := p3
      have h4 := hc fl.autoCommit s3
      generalize optCommit cfg fl.autoCommit s3 = p4 at h4 ⊢
      obtain ⟨t4, s4⟩ := p4
      have h5 := ho s4
      simp only at h3 h4 ⊢
      split <;> omega
  case lookupSleep =>
    simp only
    cases fl.needRejoin with
    | true =>
      simp only [if_true]
      have ha := hc fl.autoCommit s
      generalize optCommit cfg fl.autoCommit s = pa at ha ⊢
      obtain ⟨ta, sa⟩ := pa
      have hb := hr 2 sa
      generalize rejoinTail cfg fl 2 sa = pb at hb ⊢
      obtain ⟨tb, sb⟩ := pb
      have h3 := hc fl.autoCommit sb
      generalize optCommit cfg fl.autoCommit sb = p3 at h3 ⊢
      obtain ⟨t3, s3⟩ := p3
      have h4 := hc fl.autoCommit s3
      generalize optCommit cfg fl.autoCommit s3 = p4 at h4 ⊢
      obtain ⟨t4, s4⟩ := p4
      have h5 := ho s4
      simp only at ha hb h3 h4 ⊢
      split <;> omega
    | false =>
      simp only [Bool.false_eq_true, if_false]
      have h3 := hc fl.autoCommit s
      generalize optCommit cfg fl.autoCommit s = p3 at h3 ⊢
      obtain ⟨t3, s3⟩ := p3
      have h4 := hc fl.autoCommit s3
      generalize optCommit cfg fl.autoCommit s3 = p4 at h4 ⊢
      obtain ⟨t4, s4⟩ := p4
      have h5 := ho s4
      simp only at h3 h4 ⊢
      split <;> omega
  case prepare =>
    simp only
    have ha := hc fl.autoCommit s
    generalize optCommit cfg fl.autoCommit s = pa at ha ⊢
    obtain ⟨ta, sa⟩ := pa
    have hb := hr 2 sa
    generalize rejoinTail cfg fl 2 sa = pb at hb ⊢
    obtain ⟨tb, sb⟩ := pb
    have h3 := hc fl.autoCommit sb
    generalize optCommit cfg fl.autoCommit sb = p3 at h3 ⊢
    obtain ⟨t3, s3⟩ := p3
    have h4 := hc fl.autoCommit s3
    generalize optCommit cfg fl.autoCommit s3 = p4 at h4 ⊢
    obtain ⟨t4, s4⟩ := p4
    have h5 := ho s4
    simp only at ha hb h3 h4 ⊢
    split <;> omega
  case joining =>
    simp only
    have hb := hr 2 s
    generalize rejoinTail cfg fl 2 s = pb at hb ⊢
    obtain ⟨tb, sb⟩ := pb
    have h3 := hc fl.autoCommit sb
    generalize optCommit cfg fl.autoCommit sb = p3 at h3 ⊢
    obtain ⟨t3, s3⟩ := p3
    have h4 := hc fl.autoCommit s3
    generalize optCommit cfg fl.autoCommit s3 = p4 at h4 ⊢
    obtain ⟨t4, s4⟩ := p4
    have h5 := ho s4
    simp only at hb h3 h4 ⊢
    split <;> omega
  case syncing =>
    simp only
    have hb := hr 0 s
    generalize rejoinTail cfg fl 0 s = pb at hb ⊢
    obtain ⟨tb, sb⟩ := pb
    have h3 := hc fl.autoCommit sb
    generalize optCommit cfg fl.autoCommit sb = p3 at h3 ⊢
    obtain ⟨t3, s3⟩ := p3
    have h4 := hc fl.autoCommit s3
    generalize optCommit cfg fl.autoCommit s3 = p4 at h4 ⊢
    obtain ⟨t4, s4⟩ := p4
    have h5 := ho s4
    simp only at hb h3 h4 ⊢
    split <;> omega
  case rejoinSleep =>
    simp only
    have h4 := hc fl.autoCommit s
    generalize optCommit cfg fl.autoCommit s = p4 at h4 ⊢
    obtain ⟨t4, s4⟩ := p4
    have h5 := ho s4
    simp only at h4 ⊢
    split <;> omega
  case committing =>
    simp only
    have h3 := hc fl.autoCommit s
    generalize optCommit cfg fl.autoCommit s = p3 at h3 ⊢
    obtain ⟨t3, s3⟩ := p3
    have h4 := hc fl.autoCommit s3
    generalize optCommit cfg fl.autoCommit s3 = p4 at h4 ⊢
    obtain ⟨t4, s4⟩ := p4
    have h5 := ho s4
    simp only at h3 h4 ⊢
    split <;> omega
  case errorWait =>
    simp only
    have h4 := hc fl.autoCommit s
    generalize optCommit cfg fl.autoCommit s = p4 at h4 ⊢
    obtain ⟨t4, s4⟩ := p4
    have h5 := ho s4
    simp only at h4 ⊢
    split <;> omega

/-! ### producer -/

/-- time by which every batch of a plain producer is resolved, counted from `stop()` -/
def flushBound (cfg : Cfg) : Nat := cfg.req + sendMax cfg + cfg.backoff

theorem flushBatch_le (cfg : Cfg) :
    ∀ (s : Script) (age : Nat), age ≤ flushBound cfg →
      age + flushBatch cfg false age s ≤ flushBound cfg
  | [], age, h => by simpa [flushBatch] using h
  | a :: rest, age, h => by
    have hcl := clamp_le cfg a
    unfold flushBatch
    by_cases hexp : cfg.req < age
    · simp [hexp, h]
    · simp only [Bool.not_false, hexp, decide_false, Bool.and_false, Bool.false_eq_true, if_false]
      cases a.ans with
      | retriable =>
        simp only
        have hage : age + clamp cfg a + cfg.backoff ≤ flushBound cfg := by
          unfold flushBound; omega
        have ih := flushBatch_le cfg rest (age + clamp cfg a + cfg.backoff) hage
        omega
      | ok => simp only; unfold flushBound; omega
      | fatal => simp only; unfold flushBound; omega

theorem flushQueue_le (cfg : Cfg) :
    ∀ (q : List Script) (now : Nat), now ≤ flushBound cfg →
      now + flushQueue cfg false now q ≤ flushBound cfg
  | [], now, h => by simpa [flushQueue] using h
  | b :: bs, now, h => by
    have h1 := flushBatch_le cfg b now h
    have h2 := flushQueue_le cfg bs (now + flushBatch cfg false now b) h1
    unfold flushQueue
    simp only
    omega

theorem flushAll_le (cfg : Cfg) (parts : List (List Script)) :
    flushAll cfg false parts ≤ flushBound cfg := by
  unfold flushAll
  have key : ∀ (ps : List (List Script)) (acc : Nat), acc ≤ flushBound cfg →
      ps.foldl (fun acc q => max acc (flushQueue cfg false 0 q)) acc ≤ flushBound cfg := by
    intro ps
    induction ps with
    | nil => intro acc h; simpa using h
    | cons q qs ih =>
      intro acc h
      simp only [List.foldl_cons]
      apply ih
      have := flushQueue_le cfg q 0 (Nat.zero_le _)
      omega
  exact key parts 0 (Nat.zero_le _)

theorem producerStop_le (cfg : Cfg) (parts : List (List Script)) :
    producerStop cfg false parts ≤ producerBound cfg := by
  have := flushAll_le cfg parts
  unfold producerStop producerBound
  unfold flushBound at this
  omega

/-- a batch of an idempotent producer whose requests keep failing retriably is retried for ever -/
theorem flushBatch_idem_retriables (cfg : Cfg) :
    ∀ (n age : Nat), flushBatch cfg true age (List.replicate n ⟨Ans.retriable, 0⟩) = n * cfg.backoff
  | 0, _ => by simp [flushBatch]
  | n + 1, age => by
    simp only [List.replicate_succ, flushBatch, Bool.not_true, Bool.false_and, Bool.false_eq_true,
      if_false]
    rw [flushBatch_idem_retriables cfg n]
    simp [clamp, Nat.add_mul]
    omega

/-! ### resources -/

theorem consumerRelease_clean (alive : List Res) :
    ∀ r ∈ consumerRelease alive, consumerRes r = false := by
  intro r hr
  simp only [consumerRelease, List.mem_filter] at hr
  obtain ⟨⟨⟨_, h1⟩, h2⟩, h3⟩ := hr
  cases r <;> simp_all [consumerRes, isConn]

theorem producerRelease_clean (alive : List Res) :
    ∀ r ∈ producerRelease alive, producerRes r = false := by
  intro r hr
  simp only [producerRelease, List.mem_filter] at hr
  obtain ⟨⟨_, h1⟩, h2⟩ := hr
  cases r <;> simp_all [producerRes, isConn]

end AkVerif.Shutdown
