import AkVerif.Model.Producer
import AkVerif.Model.Util
/-! line protocol for the producer acceptor (C01, C02) and the batch-resolution model (C02) -/
namespace AkVerif.ProducerIO
open AkVerif.Producer AkVerif.Done AkVerif.Util

def colon (s : String) : List String := s.splitOn ":"

def bool? : String → Option Bool
  | "T" => some true
  | "F" => some false
  | _ => none

def optInt? (s : String) : Option (Option Int) :=
  if s == "n" then some none else s.toInt?.map some

def parseRes : List String → Option Res
  | ["O", off, ts, tt] => do some (.ok (← off.toInt?) (← ts.toInt?) (← tt.toNat?))
  | ["N"] => some .noMeta
  | ["F"] => some .fail
  | _ => none

def parseKind (s : String) : Option AKind :=
  match s.toList with
  | ['A'] => some .append
  | ['D'] => some .dup
  | 'E' :: c => (String.ofList c).toInt?.map .err
  | _ => none

def parseEv (s : String) : Option Ev :=
  match colon s with
  | ["a", t, i, u] => do some (.acc (← t.toNat?) (← i.toNat?) (← u.toInt?))
  | ["s", p, e, q, ids] => do some (.send (← p.toInt?) (← e.toInt?) (← q.toInt?) (← parseNatList ids))
  | ["p", q, n, k, off, ats] => do
    some (.apply (← q.toInt?) (← n.toNat?) (← parseKind k) (← off.toInt?) (← ats.toInt?))
  | ["d", "F", fs] => do some (.done (.fields (← parseIntList fs)))
  | ["d", "X"] => some (.done .exc)
  | ["d", "N"] => some (.done .noack)
  | "r" :: id :: rest => do some (.resolved (← id.toNat?) (← parseRes rest))
  | ["w", k] => k.toNat?.map .waitCall
  | ["v", k] => k.toNat?.map .waitRet
  | ["m", off] => off.toInt?.map .marker
  | _ => none

def parseCfg (flags pid epoch seq0 ver : String) : Option Cfg :=
  match flags.toList with
  | [i, a, f] => do
    some { idem := ← bool? (String.ofList [i]), acks0 := ← bool? (String.ofList [a]),
           wrapFix := ← bool? (String.ofList [f]), pid := ← pid.toInt?, epoch := ← epoch.toInt?,
           seq0 := ← seq0.toInt?, version := ← ver.toNat? }
  | _ => none

def showGuard : Guard → String
  | .singleFlight => "single-flight" | .retryIdentical => "retry-identical"
  | .freshPrefix => "fresh-prefix" | .emptyBatch => "empty-batch" | .stamp => "stamp"
  | .noackWithAcks => "noack-with-acks" | .dupSeqReply => "sequence-reused"
  | .resolveOnce => "resolve-once" | .wrongResult => "wrong-result"
  | .unexpectedFailure => "unexpected-failure" | .flushEarly => "flush-early"
  | .sentWhileClosed => "sent-while-closed"

def showEnv : EnvTrouble → String
  | .taskOrder => "task-order" | .ghostApply => "ghost-apply" | .appliedTwice => "applied-twice"
  | .brokerDecision => "broker-decision" | .replyLayout => "reply-layout"
  | .replyMismatch => "reply-mismatch" | .replyWithoutApply => "reply-without-apply"
  | .applyAcks0 => "apply-acks0" | .badWaitId => "bad-wait-id" | .doneIdle => "done-idle"
  | .offsetNegative => "offset-negative"

def showRej : Rej → String
  | .client g => "client:" ++ showGuard g
  | .env t => "env:" ++ showEnv t

def showLogRec (r : LogRec) : String := s!"{r.id}:{r.ts}:{r.tt}"

def showPhase : Phase → String
  | .idle => "idle" | .flying _ => "flying" | .retryWait => "retry-wait"

def showState (s : St) : String :=
  "ok log=" ++ (if s.br.log.isEmpty then "-" else ",".intercalate (s.br.log.map showLogRec)) ++
  " next=" ++ toString s.nextSeq ++ " fatal=" ++ toString s.fatal ++ " gaveUp=" ++ toString s.gaveUp ++
  " seqErrs=" ++ toString s.seqErrs ++ " unres=" ++ showList s.unres ++ " pending=" ++
  toString s.pending.length ++ " phase=" ++ showPhase s.phase ++ " due=" ++ toString s.due.length

def parseLogRec (s : String) : Option LogRec :=
  match colon s with
  | [i, t, k] => do some { id := ← i.toNat?, ts := ← t.toInt?, tt := ← k.toNat? }
  | _ => none

def parseLog (s : String) : Option (List LogRec) :=
  if s == "-" then some [] else (s.splitOn ",").mapM parseLogRec

def parseBatches (s : String) : Option (List (List Nat)) :=
  if s == "-" then some [] else (s.splitOn "|").mapM parseNatList

def handleC01 : List String → Option String
  | ["run", flags, pid, epoch, seq0, ver, evs] => do
    let c ← parseCfg flags pid epoch seq0 ver
    let tr ← if evs == "-" then some [] else (evs.splitOn ";").mapM parseEv
    match runAt c (St.init c) tr 0 with
    | .ok s => some (showState s)
    | .error (i, r) => some s!"rej {i} {showRej r}"
  | ["incr", f, c, n] => do some (toString (incr (← bool? f) (← c.toInt?) (← n.toNat?)))
  | ["holdsIdem", nAcc, log, acked] => do
    some (toString (holdsIdem (← nAcc.toNat?) (← parseNatList log) (← parseNatList acked)))
  | ["holdsPlain", nAcc, bs, acked] => do
    some (toString (holdsPlain (← nAcc.toNat?) (← parseBatches bs) (← parseNatList acked)))
  | ["holdsSeq", seqs, codes] => do
    some (toString (holdsSeq (← parseIntList seqs) (← parseIntList codes)))
  | _ => none

/-! C02: batch resolution -/

def parsePair (s : String) : Option (Int × Int) :=
  match colon s with
  | [a, b] => do some (← a.toInt?, ← b.toInt?)
  | _ => none

def parseOp (s : String) : Option Op :=
  match colon s with
  | ["D", b, t, l] => do some (.done (← b.toInt?) (← t.toInt?) (← optInt? l))
  | ["N"] => some .noack
  | ["F", e] => e.toNat?.map .failure
  | ["C", i] => i.toNat?.map .cancel
  | ["B"] => some .cancelBatch
  | _ => none

def showOptInt : Option Int → String
  | none => "n"
  | some i => toString i

def showResult : Option Result → String
  | none => "pending"
  | some (.md m) => s!"md:{m.off}:{m.ts}:{m.tt}:{showOptInt m.logStart}"
  | some .noMeta => "none"
  | some (.error e) => s!"err:{e}"
  | some .cancelled => "cancelled"

def showVerdict : Verdict → String
  | .done => "done" | .retry => "retry" | .fail => "fail"

def handleC02 : List String → Option String
  | ["batch", variant, recs, ops] => do
    let rs ← if recs == "-" then some [] else (recs.splitOn ",").mapM parsePair
    let os ← if ops == "-" then some [] else (ops.splitOn ";").mapM parseOp
    let os := if variant == "carried" then
        os.map (fun o => match o with | .done b t l => .doneCarried b t l | x => x)
      else os
    let b := (BatchSt.fresh rs).run os
    some (showResult b.bfut ++ " " ++ (if b.futs.isEmpty then "-" else ",".intercalate (b.futs.map showResult)))
  | ["info", v, fs] => do
    match decodeInfo (← v.toNat?) (← parseIntList fs) with
    | none => some "none"
    | some i => some s!"{i.partition} {i.code} {i.off} {i.ts} {showOptInt i.logStart}"
  | ["verdict", idem, expired, code] => do
    some (showVerdict (verdict (← bool? idem) (← bool? expired) (← code.toInt?)))
  | ["retriable", code] => do some (toString (retriable (← code.toInt?)))
  | ["holdsCoord", log, id, r] => do
    some (toString (holdsCoord (← parseLog log) (← id.toNat?) (← parseRes (colon r))))
  | ["holdsCoords", log, rs] => do
    -- rs: comma-separated `id/off/ts/tt`; answers `true` or `false:<id>` for the first failing future
    let lg ← parseLog log
    let items ← if rs == "-" then some [] else (rs.splitOn ",").mapM (fun x =>
      match x.splitOn "/" with
      | [i, o, t, k] => do some ((← i.toNat?), Res.ok (← o.toInt?) (← t.toInt?) (← k.toNat?))
      | _ => none)
    match items.find? (fun (i, r) => !holdsCoord lg i r) with
    | none => some "true"
    | some (i, _) => some s!"false:{i}"
  | _ => none

end AkVerif.ProducerIO
