import AkVerif.Model.Wire
/-! text syntax of wire types and values for the line protocol (driver glue, not part of any theorem) -/
namespace AkVerif.WireIO
open AkVerif.Wire AkVerif.Util

partial def parseTy : List Char → Option (Ty × List Char)
  | 'i' :: '8' :: r => some (.int8, r)
  | 'i' :: '1' :: '6' :: r => some (.int16, r)
  | 'i' :: '3' :: '2' :: r => some (.int32, r)
  | 'i' :: '6' :: '4' :: r => some (.int64, r)
  | 'u' :: '3' :: '2' :: r => some (.uint32, r)
  | 'u' :: 'v' :: r => some (.uvarint, r)
  | 'f' :: '6' :: '4' :: r => some (.float64, r)
  | 'v' :: '3' :: '2' :: r => some (.varint32, r)
  | 'v' :: '6' :: '4' :: r => some (.varint64, r)
  | 't' :: 'g' :: r => some (.tagged, r)
  | 'c' :: 's' :: r => some (.cstring, r)
  | 'c' :: 'y' :: r => some (.cbytes, r)
  | 'b' :: r => some (.bool, r)
  | 's' :: r => some (.string, r)
  | 'y' :: r => some (.bytes, r)
  | 'A' :: r => do let (t, r) ← parseTy r; some (.array t, r)
  | 'C' :: r => do let (t, r) ← parseTy r; some (.carray t, r)
  | 'S' :: '(' :: ')' :: r => some (.struct [], r)
  | 'S' :: '(' :: r =>
    let rec go (acc : List Ty) (r : List Char) : Option (Ty × List Char) := do
      let (t, r) ← parseTy r
      match r with
      | ',' :: r => go (t :: acc) r
      | ')' :: r => some (.struct (t :: acc).reverse, r)
      | _ => none
    go [] r
  | _ => none

def takeWhile (p : Char → Bool) : List Char → List Char × List Char
  | [] => ([], [])
  | c :: r => if p c then let (a, b) := takeWhile p r; (c :: a, b) else ([], c :: r)

def parseIntC (cs : List Char) : Option (Int × List Char) :=
  let (neg, cs) := match cs with | '-' :: r => (true, r) | _ => (false, cs)
  let (ds, r) := takeWhile Char.isDigit cs
  if ds.isEmpty then none else
  let n := ds.foldl (fun acc d => acc * 10 + (d.toNat - '0'.toNat)) 0
  some (if neg then -(n : Int) else (n : Int), r)

def parseHexC (cs : List Char) : Option (Bytes × List Char) :=
  let (hs, r) := takeWhile (fun c => (hexDigit c).isSome) cs
  (parseHexAux hs []).map (·, r)

partial def parseTaggedItems (acc : List (Nat × Bytes)) (cs : List Char) :
    Option (List (Nat × Bytes) × List Char) :=
  match cs with
  | '}' :: r => some (acc.reverse, r)
  | _ => do
    let (k, r) ← parseIntC cs
    match r with
    | ':' :: r =>
      let (v, r) ← parseHexC r
      match r with
      | ',' :: r => parseTaggedItems ((k.toNat, v) :: acc) r
      | '}' :: r => some (((k.toNat, v) :: acc).reverse, r)
      | _ => none
    | _ => none

mutual
partial def parseVal (t : Ty) (cs : List Char) : Option (Val × List Char) :=
  match t with
  | .bool => match cs with
    | 'T' :: r => some (.bool true, r)
    | 'F' :: r => some (.bool false, r)
    | _ => none
  | .string | .bytes | .cstring | .cbytes => match cs with
    | 'N' :: r => some (.bytes none, r)
    | 'x' :: r => do let (b, r) ← parseHexC r; some (.bytes (some b), r)
    | _ => none
  | .tagged => match cs with
    | 'g' :: '{' :: r => do let (fs, r) ← parseTaggedItems [] r; some (.tagged fs, r)
    | _ => none
  | .array e | .carray e => match cs with
    | 'N' :: r => some (.list none, r)
    | '[' :: ']' :: r => some (.list (some []), r)
    | '[' :: r => do
      let (vs, r) ← parseSeq (fun _ => e) 0 [] r ']'
      some (.list (some vs), r)
    | _ => none
  | .struct ts => match cs with
    | '(' :: ')' :: r => if ts.isEmpty then some (.tuple [], r) else none
    | '(' :: r => do
      let (vs, r) ← parseSeq (fun i => ts.getD i .int8) 0 [] r ')'
      if vs.length = ts.length then some (.tuple vs, r) else none
    | _ => none
  | _ => do let (i, r) ← parseIntC cs; some (.int i, r)
partial def parseSeq (tyAt : Nat → Ty) (i : Nat) (acc : List Val) (cs : List Char) (close : Char) :
    Option (List Val × List Char) := do
  let (v, r) ← parseVal (tyAt i) cs
  match r with
  | ',' :: r => parseSeq tyAt (i + 1) (v :: acc) r close
  | c :: r => if c == close then some ((v :: acc).reverse, r) else none
  | [] => none
end

partial def showVal : Val → String
  | .int i => toString i
  | .bool b => if b then "T" else "F"
  | .bytes none => "N"
  | .bytes (some b) => "x" ++ (if b.isEmpty then "" else toHex b)
  | .tagged fs => "g{" ++ ",".intercalate (fs.map fun (k, v) =>
      s!"{k}:" ++ (if v.isEmpty then "" else toHex v)) ++ "}"
  | .list none => "N"
  | .list (some vs) => "[" ++ ",".intercalate (vs.map showVal) ++ "]"
  | .tuple vs => "(" ++ ",".intercalate (vs.map showVal) ++ ")"

def showPrepared : Prepared → String
  | .version v => s!"v{v}"
  | .unknownApi => "incompatible"
  | .noCommonVersion => "not-implemented"

def handle : List String → Option String
  | ["enc", ty, val] => do
    let (t, r) ← parseTy ty.toList
    if !r.isEmpty then none else
    let (v, r) ← parseVal t val.toList
    if !r.isEmpty then none else
    match encode t v with
    | some bs => some (toHex bs)
    | none => some "raise"
  | ["dec", ty, hex] => do
    let (t, r) ← parseTy ty.toList
    if !r.isEmpty then none else
    let bs ← parseHex hex
    match decode t bs with
    | some (v, rest) => some (showVal v ++ " " ++ toString rest.length)
    | none => some "raise"
  | ["prepare", classes, allow, range] => do
    let cls ← parseNatList classes
    let rg ← if range == "none" then some none else
      match range.splitOn ":" with
      | [a, b] => do some (some ((← a.toNat?), (← b.toNat?)))
      | _ => none
    some (showPrepared (prepare cls (allow == "T") rg))
  | _ => none

end AkVerif.WireIO
