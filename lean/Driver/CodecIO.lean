import AkVerif.Model.Split
import AkVerif.Gen.Layouts
/-! line protocol for the record codec models (C09); driver glue, not part of any theorem -/
namespace AkVerif.CodecIO
open AkVerif.Util AkVerif.Wire AkVerif.Varint AkVerif.Crc AkVerif.V2

/-- `~` null, `-` empty, else hex -/
def parseOptBytes (s : String) : Option (Option Bytes) :=
  if s == "~" then some none else (parseHex s).map some

def showOptBytes : Option Bytes → String
  | none => "~"
  | some b => toHex b

def parseHdr (s : String) : Option (Bytes × Option Bytes) :=
  match s.splitOn "=" with
  | [k, v] => do
    let k ← parseHex k
    let v ← parseOptBytes v
    some (k, v)
  | _ => none

def parseHdrs (s : String) : Option (List (Bytes × Option Bytes)) :=
  if s == "-" then some [] else (s.splitOn "|").mapM parseHdr

def showHdrs (hs : List (Bytes × Option Bytes)) : String :=
  if hs.isEmpty then "-" else "|".intercalate (hs.map fun (k, v) => toHex k ++ "=" ++ showOptBytes v)

def parseRec (s : String) : Option Rec :=
  match s.splitOn ":" with
  | [o, t, k, v, h] => do
    let offset ← o.toInt?
    let ts ← t.toInt?
    let key ← parseOptBytes k
    let value ← parseOptBytes v
    let headers ← parseHdrs h
    some { offset, ts, key, value, headers }
  | _ => none

def parseRecs (s : String) : Option (List Rec) :=
  if s == "-" then some [] else (s.splitOn ";").mapM parseRec

def showRec (r : Rec) : String :=
  s!"{r.offset}:{r.ts}:{showOptBytes r.key}:{showOptBytes r.value}:{showHdrs r.headers}"

def showRecs (rs : List Rec) : String :=
  if rs.isEmpty then "-" else ";".intercalate (rs.map showRec)

def parseBool (s : String) : Option Bool :=
  if s == "1" then some true else if s == "0" then some false else none

/-- compression oracle: the one call the implementation made -/
def oracle (cin cout : Bytes) : Codec :=
  { compress := fun _ x => if x == cin then cout else [],
    decompress := fun _ y => if y == cin then some cout else none }

def showMeta : Option Meta → String
  | none => "N"
  | some m => s!"{m.offset}/{m.size}/{m.ts}"

def showHeader (h : Header) : String :=
  let b (x : Bool) : Nat := if x then 1 else 0
  s!"{h.baseOffset},{h.length},{h.leaderEpoch},{h.magic},{h.crc},{h.attrs},{h.lastOffsetDelta},{h.firstTs},{h.maxTs},{h.pid},{h.epoch},{h.seq},{h.count}" ++
  s!"|{h.baseOffset + h.lastOffsetDelta + 1},{h.codec},{b h.logAppend},{b h.transactional},{b h.control}"

def pyTrace (c : BCfg) : PyB → List Rec → List String
  | _, [] => []
  | s, r :: rs =>
    let sib := pySizeInBytes s r
    let (m, s1) := pyAppend c s r
    s!"{sib}/{showMeta m}/{pySize s1}" :: pyTrace c s1 rs

def cyTrace (c : BCfg) : CyB → List Rec → List String
  | _, [] => []
  | s, r :: rs =>
    let sib := cySizeInBytes s r
    let (m, s1) := cyAppend c s r
    s!"{sib}/{showMeta m}/{cySize s1}" :: cyTrace c s1 rs

def showTrace (xs : List String) : String := if xs.isEmpty then "-" else ",".intercalate xs

open AkVerif.Legacy in
def parseIn (s : String) : Option In :=
  match s.splitOn ":" with
  | [o, t, k, v] => do
    let offset ← o.toInt?
    let ts ← t.toInt?
    let key ← parseOptBytes k
    let value ← parseOptBytes v
    some { offset, ts, key, value }
  | _ => none

open AkVerif.Legacy in
def parseIns (s : String) : Option (List In) :=
  if s == "-" then some [] else (s.splitOn ";").mapM parseIn

open AkVerif.Legacy in
def showOut (o : Out) : String :=
  let ts := match o.ts with | none => "N" | some t => toString t
  let tt := match o.tsType with | none => "N" | some t => toString t
  s!"{o.offset}:{ts}:{tt}:{showOptBytes o.key}:{showOptBytes o.value}:{o.crc}"

open AkVerif.Legacy in
def showOuts (os : List Out) : String := if os.isEmpty then "-" else ";".intercalate (os.map showOut)

open AkVerif.Legacy in
def lTrace (c : LCfg) : Bytes → List In → List String
  | _, [] => []
  | buf, r :: rs =>
    let (m, b1) := lAppend c buf r
    let ms := match m with
      | none => "N"
      | some m => s!"{m.offset}/{m.crc}/{m.size}/{m.ts}"
    s!"{sizeInBytes c.magic r.key r.value}/{ms}/{b1.length}" :: lTrace c b1 rs

open AkVerif.Split in
def showSplit (r : List (Nat × Bytes) × Stop) : String :=
  let st := match r.2 with | .done => "done" | .corrupt => "corrupt" | .outOfFuel => "fuel"
  st ++ "|" ++ (if r.1.isEmpty then "-" else ",".intercalate (r.1.map fun (m, b) => s!"{m}:{b.length}"))

def showDec : Option (Int × Bytes) → Nat → String
  | none, _ => "err"
  | some (v, r), n => s!"{v},{n - r.length}"

def handle : List String → Option String
  | ["venc", i] => do
    let i ← i.toInt?
    some s!"{toHex (encodeVarintPy i)} {toHex (encodeVarintCy i)} {sizeOfVarintPy i} {sizeOfVarintCy i}"
  | ["vdec", h] => do
    let b ← parseHex h
    some s!"{showDec (decodeVarintPy b) b.length} {showDec (decodeVarintCy b) b.length}"
  | ["crc32c", h] => do
    let b ← parseHex h
    let t := match crcTableDriven Layouts.pyCrcTable b with | none => "err" | some c => toString c
    some s!"{crc32c b} {t}"
  | ["crc32", h] => do
    let b ← parseHex h
    some s!"{crc32 b}"
  | ["v2build", impl, codec, txn, pid, epoch, seq, bsz, recs, cin, cout] => do
    let c : BCfg := { codec := ← codec.toNat?, transactional := ← parseBool txn, pid := ← pid.toInt?,
                      epoch := ← epoch.toInt?, seq := ← seq.toInt?, batchSize := ← bsz.toInt? }
    let recs ← parseRecs recs
    let C := oracle (← parseHex cin) (← parseHex cout)
    if impl == "py" then
      let (_, s) := pyRun c {} recs
      let (bytes, s2) := pyBuild C c s
      some s!"{showTrace (pyTrace c {} recs)} {toHex bytes} {pySize s2}"
    else if impl == "cy" then
      let (_, s) := cyRun c {} recs
      let (bytes, s2) := cyBuild C c s
      some s!"{showTrace (cyTrace c {} recs)} {toHex bytes} {cySize s2}"
    else none
  | ["v2inner", recs] => do
    let recs ← parseRecs recs
    some (toHex (encRecords (firstTsOf recs) 0 recs))
  | ["v2spec", base, le, codec, la, at_, txn, ctl, pid, epoch, seq, recs, cin, cout] => do
    let c : Cfg := { baseOffset := ← base.toInt?, leaderEpoch := ← le.toInt?, codec := ← codec.toNat?,
                     logAppend := ← parseBool la, appendTime := ← at_.toInt?,
                     transactional := ← parseBool txn, control := ← parseBool ctl, pid := ← pid.toInt?,
                     epoch := ← epoch.toInt?, seq := ← seq.toInt? }
    let recs ← parseRecs recs
    let C := oracle (← parseHex cin) (← parseHex cout)
    some (toHex (specBuild C c recs))
  | ["v2read", impl, h, zin, zout] => do
    let b ← parseHex h
    let C := oracle (← parseHex zin) (← parseHex zout)
    let r ← (if impl == "spec" then some (specRead C b) else if impl == "py" then some (pyRead C b)
             else if impl == "cy" then some (cyRead C b) else none)
    let crc := match V2.validateCrc b with | none => "err" | some true => "crc-ok" | some false => "crc-bad"
    match r with
    | none => some s!"err {crc}"
    | some (hd, rs) => some s!"ok {showHeader hd} {showRecs rs} {crc}"
  | ["v2ok", h, base, le, codec, la, at_, txn, ctl, pid, epoch, seq, recs] => do
    let b ← parseHex h
    let c : Cfg := { baseOffset := ← base.toInt?, leaderEpoch := ← le.toInt?, codec := ← codec.toNat?,
                     logAppend := ← parseBool la, appendTime := ← at_.toInt?,
                     transactional := ← parseBool txn, control := ← parseBool ctl, pid := ← pid.toInt?,
                     epoch := ← epoch.toInt?, seq := ← seq.toInt? }
    let recs ← parseRecs recs
    some (toString (headerOK b c recs))
  | ["v2sizeof", k, v, hs] => do
    let k ← parseOptBytes k
    let v ← parseOptBytes v
    let hs ← parseHdrs hs
    some s!"{pySizeOf k v hs} {cySizeOf k v hs} {estimateSize (pySizeOf k v hs)} {estimateSize (cySizeOf k v hs)}"
  | ["lbuild", magic, codec, bsz, ins, cin, cout] => do
    let c : Legacy.LCfg := { magic := ← magic.toNat?, codec := ← codec.toNat?, batchSize := ← bsz.toInt? }
    let ins ← parseIns ins
    let C := oracle (← parseHex cin) (← parseHex cout)
    let (_, buf) := Legacy.lRun c [] ins
    let out := Legacy.lBuild C c buf
    some s!"{showTrace (lTrace c [] ins)} {toHex out} {out.length}"
  | ["lset", magic, attrs, ins] => do
    let ins ← parseIns ins
    some (toHex (Legacy.specSet (← magic.toNat?) (← attrs.toNat?) ins))
  | ["lwrap", magic, codec, la, wo, wt, ins, cin, cout] => do
    let ins ← parseIns ins
    let C := oracle (← parseHex cin) (← parseHex cout)
    some (toHex (Legacy.specWrapper C (← magic.toNat?) (← codec.toNat?) (← parseBool la) (← wo.toInt?)
      (← wt.toInt?) ins))
  | ["lread", impl, magic, h, zin, zout] => do
    let b ← parseHex h
    let magic ← magic.toNat?
    let C := oracle (← parseHex zin) (← parseHex zout)
    let r ← (if impl == "spec" then some (Legacy.specReadBatch C magic b)
             else if impl == "py" then some (Legacy.pyReadBatch C magic b)
             else if impl == "cy" then some (Legacy.cyReadBatch C magic b) else none)
    let crc := match Legacy.validateCrc b with | none => "err" | some true => "crc-ok" | some false => "crc-bad"
    match r with
    | none => some s!"err {crc}"
    | some os => some s!"ok {showOuts os} {crc}"
  | ["split", impl, h, cuts] => do
    let b ← parseHex h
    let cuts ← parseNatList cuts
    let f ← (if impl == "py" then some Split.memoryRecordsPy
             else if impl == "cy" then some (Split.memoryRecordsCy false)
             else if impl == "cyabs" then some (Split.memoryRecordsCy true) else none)
    some (";".intercalate (cuts.map fun c => showSplit (f (b.take c))))
  | _ => none

end AkVerif.CodecIO
