import AkVerif.Model.Safe
/-! line protocol for the decoder-safety models (C10)

`c10 <entry> <cfg> <crc> <magic> <pos> <buf> <oracle>`
* entry : cyD cyL cyM cyN pyD pyL pyM pyN (batch / memory-records decoders; N = `next_batch()` until
          `None` instead of the `has_next()` guard), cyV pyV (varint at `pos`)
* cfg   : 8 characters 0/1 = the `Cfg` flags in declaration order
* crc   : 1 = call `validate_crc()` before iterating
* magic : constructor argument of the legacy batch classes (ignored elsewhere)
* oracle: `-` or `kind:inhex:outhex` / `kind:inhex:!` (codec raised) joined by `,`
-/
namespace AkVerif.SafeIO
open AkVerif.Safe AkVerif.Util

def parseCfg (s : String) : Option Cfg :=
  match s.toList.map (· == '1') with
  | [a, b, c, d, e, f, g, h] =>
    some { hdrCheck := a, varintBound := b, safeBounds := c, sizeCheck := d, walkCheck := e,
           exceptQ := f, pyWalkCheck := g, magicRel := h }
  | _ => none

def parseOracle (s : String) : Option (List (Nat × Bytes × Option Bytes)) :=
  if s == "-" then some [] else
  (s.splitOn ",").mapM fun item =>
    match item.splitOn ":" with
    | [k, i, o] => do
      let k ← k.toNat?
      let i ← parseHex i
      let o ← if o == "!" then some none else (parseHex o).map some
      some (k, i, o)
    | _ => none

/-- the codec as a finite table; an input that is not in the table counts as "codec raised"
    (the reported input length then differs from what the implementation reported) -/
def mkCodec (tab : List (Nat × Bytes × Option Bytes)) (k : Nat) (d : Bytes) : Option Bytes :=
  match tab.find? (fun e => e.1 == k && e.2.1 == d) with
  | some e => e.2.2
  | none => none

def showOB : Option Bytes → String
  | none => "n"
  | some b => toHex b

def showOI : Option Int → String
  | none => "n"
  | some i => toString i

def showON : Option Nat → String
  | none => "n"
  | some i => toString i

def showHdrs (hs : List (Bytes × Option Bytes)) : String :=
  if hs.isEmpty then "." else "+".intercalate (hs.map fun (k, v) => toHex k ++ "=" ++ showOB v)

def showRec (r : Rec) : String :=
  "/".intercalate [toString r.offset, showOI r.ts, showON r.tsType, showOB r.key, showOB r.value,
                   showHdrs r.headers, showON r.crc]

def showFault : Fault → String
  | .oob => "oob" | .sysErr => "system-error" | .memErr => "memory-error"
  | .overflow => "overflow" | .fuel => "hang"

def showExc : Exc → String
  | .corrupt => "corrupt" | .unsupported => "unsupported"
  | .codecErr k n => s!"codec:{k}:{n}" | .assertion => "assertion" | .unicode => "unicode"
  | .valueErr => "value-error" | .indexErr => "index-error" | .structErr => "struct-error"

def showEnd : End → String
  | .done => "done"
  | .exc e => "exc:" ++ showExc e
  | .fault f => "fault:" ++ showFault f

def showBatch (o : BatchOut) : String :=
  let crc := match o.crc with | none => "n" | some true => "t" | some false => "f"
  let recs := if o.recs.isEmpty then "-" else ",".intercalate (o.recs.map showRec)
  s!"{o.kind} crc={crc} recs={recs} end={showEnd o.fin}"

/-- an exception out of `next_batch()` (constructor included) leaves no batch object behind -/
def showMem (r : List BatchOut × End) : String :=
  let bs := r.1.filter (·.built)
  (if bs.isEmpty then "-" else ";".intercalate (bs.map fun o => "[" ++ showBatch o ++ "]"))
    ++ " end=" ++ showEnd r.2

def showVar : R (Int × Int) → String
  | .ok (v, p) => s!"ok:{v}:{p}"
  | .exc e => "exc:" ++ showExc e
  | .fault f => "fault:" ++ showFault f

def handle : List String → Option String
  | [entry, cfg, crc, magic, pos, buf, oracle] => do
    let cfg ← parseCfg cfg
    let wantCrc := crc == "1"
    let magic ← magic.toInt?
    let pos ← pos.toInt?
    let b ← parseHex buf
    let tab ← parseOracle oracle
    let codec := mkCodec tab
    match entry with
    | "cyD" => some (showBatch (cyDefaultBatch cfg codec wantCrc b))
    | "cyL" => some (showBatch (cyLegacyBatch cfg codec wantCrc magic b))
    | "cyM" => some (showMem (cyMemory cfg codec wantCrc b))
    | "cyN" => some (showMem (cyMemoryN cfg codec wantCrc b))
    | "pyD" => some (showBatch (pyDefaultBatch codec wantCrc b))
    | "pyL" => some (showBatch (pyLegacyBatch cfg codec wantCrc magic b))
    | "pyM" => some (showMem (pyMemory cfg codec wantCrc b))
    | "pyN" => some (showMem (pyMemoryN cfg codec wantCrc b))
    | "cyV" => some (showVar (cyVarintPy cfg b pos))
    | "pyV" => some (showVar (pyVarint b pos))
    | _ => none
  | _ => none

end AkVerif.SafeIO
