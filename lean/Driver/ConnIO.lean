import AkVerif.Model.Conn
import Driver.WireIO
/-! line protocol for the connection model (C12) -/
namespace AkVerif.ConnIO
open AkVerif.Conn AkVerif.Util AkVerif.Wire

def parseOp (s : String) : Option Op :=
  match s.toList with
  | 'S' :: c :: f :: q :: ':' :: ty => do
    let (t, r) ← WireIO.parseTy ty
    if !r.isEmpty then none else
    some (.send (c == 'T') { flexible := f == 'T', quirk := q == 'T', resp := t })
  | 'B' :: hex => (parseHex (String.ofList hex)).map .feed
  | 'A' :: n => (String.ofList n).toNat?.map .advance
  | 'C' :: n => (String.ofList n).toNat?.map .cancel
  | ['N'] => some .sendNR
  | ['E'] => some .eof
  | ['X'] => some .close
  | _ => none

def showOutcome : Outcome → String
  | .reply _ b => "reply:" ++ toHex b
  | .raw b => "raw:" ++ toHex b
  | .connErr => "connErr"
  | .corrErr => "corrErr"
  | .timeout => "timeout"
  | .cancelled => "cancelled"

def insertBy (x : Nat × String) : List (Nat × String) → List (Nat × String)
  | [] => [x]
  | y :: r => if x.1 < y.1 then x :: y :: r else y :: insertBy x r

def showState (s : St) : String :=
  let outs := (s.out.map fun (i, o) => (i, showOutcome o)).foldr insertBy []
  let pend := (s.reqs.filter (fun r => !r.done)).map (·.id)
  (if s.isOpen then "open" else "closed") ++ " " ++ showList pend ++ " " ++
    (if outs.isEmpty then "-" else ",".intercalate (outs.map fun (i, o) => s!"{i}:{o}")) ++
    " corr=" ++ toString s.counter

def handle : List String → Option String
  | ["run", tmo, ctr, ops] => do
    let tmo ← tmo.toNat?
    let ctr ← ctr.toNat?
    let ops ← if ops == "-" then some [] else (ops.splitOn ";").mapM parseOp
    some (showState (run { timeoutMs := tmo, counter := ctr, base := ctr } ops))
  | _ => none

end AkVerif.ConnIO
