import AkVerif.Model.Member
import AkVerif.Model.Commit
import AkVerif.Model.Util
/-!
line protocol for the consumer-group acceptors (C04 `Commit`, C05 `Member`)

  c05 run <events>                      → `ok <n>` | `reject <index> <class>:<reason>`
  c04 run <invisible> <events>          → same;  <invisible> = `-` or `p.k,p.k,…` (offsets of
                                          partition p that carry no visible record); log start 0

<events> = `-` or events separated by `;`, fields by `:`, lists by `,` (`-` = empty):
  sub:m  subT:m:topics  revS:m  revE:m  asgS:m:g:tps  asgE:m  snap:m:tps  joinS:m:topics:0|1  joinR:m:g|-
  gen:g:m=t.t|m=t  dist:g:m=p.p|m=  syncR:m:g:tps  fS:m:p:f  fR:m:p:f:hi  offer:m:p:v:c|r
  noOffset:m:p  del:m:p:o  commit:m:p:c:0|1  gone:m  leaveR:m  expire:m
The class of a rejection is `impl` (a guard that stands for a mechanism of the code under test),
`env` (the coordinator model disagrees with the simulator: harness trouble) or `harness`.
-/
namespace AkVerif.GroupIO
open AkVerif.Group AkVerif.Util

def natList (s : String) : Option (List Nat) := parseNatList s

def dotList (s : String) : Option (List Nat) :=
  if s == "" then some [] else (s.splitOn ".").mapM (·.toNat?)

def assocList (s : String) : Option (List (Nat × List Nat)) :=
  if s == "-" then some [] else
  (s.splitOn "|").mapM (fun kv =>
    match kv.splitOn "=" with
    | [k, v] => do some ((← k.toNat?), (← dotList v))
    | _ => none)

def parseEv (s : String) : Option Ev :=
  match s.splitOn ":" with
  | ["sub", m] => do some (.sub (← m.toNat?))
  | ["subT", m, t] => do some (.subT (← m.toNat?) (← natList t))
  | ["revS", m] => do some (.revS (← m.toNat?))
  | ["revE", m] => do some (.revE (← m.toNat?))
  | ["asgS", m, g, t] => do some (.asgS (← m.toNat?) (← g.toNat?) (← natList t))
  | ["asgE", m] => do some (.asgE (← m.toNat?))
  | ["snap", m, t] => do some (.snap (← m.toNat?) (← natList t))
  | ["joinS", m, t, pk] => do some (.joinS (← m.toNat?) (← natList t) (pk == "1"))
  | ["joinR", m, g] => do some (.joinR (← m.toNat?) (if g == "-" then none else g.toNat?))
  | ["gen", g, ms] => do some (.genStart (← g.toNat?) (← assocList ms))
  | ["dist", g, a] => do some (.distribute (← g.toNat?) (← assocList a))
  | ["syncR", m, g, t] => do some (.syncR (← m.toNat?) (← g.toNat?) (← natList t))
  | ["fS", m, p, f] => do some (.fS (← m.toNat?) (← p.toNat?) (← f.toNat?))
  | ["fR", m, p, f, hi] => do some (.fR (← m.toNat?) (← p.toNat?) (← f.toNat?) (← hi.toNat?))
  | ["offer", m, p, v, src] => do
    some (.offer (← m.toNat?) (← p.toNat?) (← v.toNat?) (if src == "c" then .committed else .reset))
  | ["noOffset", m, p] => do some (.noOffset (← m.toNat?) (← p.toNat?))
  | ["del", m, p, o] => do some (.deliver (← m.toNat?) (← p.toNat?) (← o.toNat?))
  | ["commit", m, p, c, ok] => do some (.commit (← m.toNat?) (← p.toNat?) (← c.toNat?) (ok == "1"))
  | ["gone", m] => do some (.gone (← m.toNat?))
  | ["leaveR", m] => do some (.leaveR (← m.toNat?))
  | ["expire", m] => do some (.expire (← m.toNat?))
  | _ => none

def parseEvs (s : String) : Option (List Ev) :=
  if s == "-" then some [] else (s.splitOn ";").mapM parseEv

/-! which guard failed (diagnostics only; the decision is `step = none`) -/

def explainMember (s : Member.St) : Ev → String
  | .revS m =>
    if (s.mem m).inCb != 0 then "impl:revoke-callback-while-another-callback-runs"
    else "impl:second-revoke-callback-without-adoption"
  | .revE _ => "harness:revE-without-revS"
  | .joinS m _ _ =>
    if (s.mem m).prepared then "impl:join-sent-during-callback" else "impl:join-before-revoke-callback-finished"
  | .joinR _ _ => "env:join-reply-for-unknown-generation-or-non-member"
  | .genStart g members =>
    if !(decide (s.curGen < g)) then "env:generation-not-increasing"
    else if !(members.all (fun (m, _) => (s.mem m).waiting)) then "env:generation-with-member-that-has-no-pending-join"
    else "env:generation-member-metadata-differs-from-its-join"
  | .distribute g a =>
    match s.gens g with
    | none => "env:assignment-for-unknown-generation"
    | some G =>
      if G.assign.isSome then "env:second-assignment-for-generation"
      else if !(nodupB (a.flatMap (·.2))) then "impl:leader-assignment-overlaps"
      else if !(nodupB (a.map (·.1))) then "harness:leader-assignment-duplicate-member"
      else if !(a.all (fun (m, _) => (lookup? G.members m).isSome)) then "impl:leader-assignment-to-non-member"
      else "impl:leader-assignment-not-subscribed"
  | .syncR m g tps =>
    match s.gens g with
    | none => "env:sync-reply-for-unknown-generation"
    | some G =>
      match G.assign with
      | none => "env:sync-reply-before-leader-assignment"
      | some a =>
        if lookupD a m != tps then "env:sync-reply-differs-from-stored-assignment"
        else if !((G.members.map (·.1)).contains m) then "env:sync-reply-to-non-member"
        else "impl:sync-reply-does-not-follow-own-join"
  | .asgS m g tps =>
    match (s.mem m).synced with
    | none => "impl:assign-callback-without-sync-reply"
    | some (g', tps') =>
      if (s.mem m).inCb != 0 then "impl:assign-callback-while-another-callback-runs"
      else if g' != g then "harness:assign-callback-generation"
      else if tps == tps' then
        s!"impl:adopted-under-superseded-subscription subscribed={(s.mem m).subTopics} joined-with={(s.mem m).joinTopics}"
      else s!"impl:adopted-differs-from-distributed adopted={tps} distributed={tps'}"
  | .asgE _ => "harness:asgE-without-asgS"
  | .expire _ => "impl:session-expired-during-revoke-callback"
  | .snap m tps => s!"impl:assignment()-differs-from-adopted observed={tps} adopted={(s.mem m).cur}"
  | .deliver m p o =>
    if !(s.mem m).gate then "impl:delivered-while-gate-closed"
    else if !((s.mem m).cur.contains p) then "impl:delivered-partition-not-in-assignment"
    else s!"impl:delivered-record-not-fetched-under-current-assignment p={p} o={o}"
  | _ => "harness:unexpected-rejection"

def explainCommit (_P : Commit.Params) (s : Commit.St) : Ev → String
  | .offer _ p v src =>
    match src with
    | .committed => s!"env:offset-fetch-answer-differs-from-store answered={v} stored={s.store p}"
    | .reset =>
      if v != _P.logStart p then "env:reset-position-is-not-log-start"
      else "impl:reset-although-a-committed-offset-was-answered"
  | .noOffset _ p => s!"env:offset-fetch-answered-none-but-stored={s.store p}"
  | .deliver m p o =>
    let x := s.ps m p
    if !x.own then "impl:delivered-partition-not-owned"
    else match Commit.bound x with
      | none => "impl:delivered-before-any-start-position"
      | some (st, q) =>
        if o < q then s!"impl:delivered-below-position p={p} o={o} start={st} position={q}"
        else s!"impl:delivery-skips-visible-records p={p} o={o} position={q}"
  | .commit m p c _ =>
    let x := s.ps m p
    match Commit.bound x with
    | none =>
      if x.hist.isEmpty then s!"impl:commit-without-position p={p} c={c}"
      else s!"impl:commit-not-a-held-position p={p} c={c} closed-epochs={x.hist}"
    | some (st, q) =>
      if q < c then s!"impl:commit-passes-undelivered-records p={p} c={c} start={st} position={q}"
      else s!"impl:commit-below-start p={p} c={c} start={st} position={q} closed-epochs={x.hist}"
  | _ => "harness:unexpected-rejection"

def visOf (inv : List (Nat × Nat)) : Nat → Nat → Bool := fun p k => !(inv.contains (p, k))

def parseInv (s : String) : Option (List (Nat × Nat)) :=
  if s == "-" then some [] else
  (s.splitOn ",").mapM (fun pk =>
    match pk.splitOn "." with
    | [p, k] => do some ((← p.toNat?), (← k.toNat?))
    | _ => none)

def handle05 : List String → Option String
  | ["run", evs] => do
    let tr ← parseEvs evs
    match firstRejectWith Member.step Member.St.init tr 0 with
    | none => some s!"ok {tr.length}"
    | some (i, s) => some s!"reject {i} {(explainMember s (tr.getD i (.gone 0))).replace " " "_"}"
  | _ => none

def handle04 : List String → Option String
  | ["run", inv, evs] => do
    let tr ← parseEvs evs
    let P : Commit.Params := { vis := visOf (← parseInv inv), logStart := fun _ => 0 }
    match firstRejectWith (Commit.step P) Commit.St.init tr 0 with
    | none => some s!"ok {tr.length}"
    | some (i, s) => some s!"reject {i} {(explainCommit P s (tr.getD i (.gone 0))).replace " " "_"}"
  | _ => none

end AkVerif.GroupIO
