import AkVerif.Model.Murmur
import AkVerif.Model.MurmurSrcRun
import AkVerif.Model.Assign
import AkVerif.Model.Iso
import AkVerif.Model.Sticky
import AkVerif.Model.StickyAlg
import Driver.WireIO
import Driver.ConnIO
import Driver.ProducerIO
import Driver.GroupIO
import Driver.ConsumeIO
import Driver.ScramIO
import Driver.CodecIO
import Driver.TxnIO
import Driver.TxnTraceIO
import Driver.SafeIO
import Driver.MembershipIO
import AkVerif.Model.Shutdown
import AkVerif.Model.GroupSys
/-!
Line-protocol driver: one operation per line on stdin, one canonical line per operation on stdout.
The first token selects the model; unknown or malformed lines print `bad-op` (never a default).
Imports model files only (no Mathlib, no proofs), so it links as a plain executable.
-/
open AkVerif

def dispatch (toks : List String) : Option String :=
  match toks with
  | "c17" :: rest => Murmur.handle rest
  | "c17s" :: rest => Murmur.handleSrc rest
  | "c14" :: rest => Assign.handle rest
  | "c15" :: rest => Sticky.handle rest
  | "sticky" :: rest => StickyAlg.handle rest
  | "c08" :: rest => Iso.handle rest
  | "c11" :: rest => WireIO.handle rest
  | "c12" :: rest => ConnIO.handle rest
  | "c01" :: rest => ProducerIO.handleC01 rest
  | "c02" :: rest => ProducerIO.handleC02 rest
  | "c04" :: rest => GroupIO.handle04 rest
  | "c05" :: rest => GroupIO.handle05 rest
  | "c03" :: rest => ConsumeIO.handle rest
  | "c13" :: rest => ConsumeIO.handle13 rest
  | "c18" :: rest => ScramIO.handle rest
  | "c09" :: rest => CodecIO.handle rest
  | "c16" :: rest => TxnIO.handle rest
  | "c07" :: rest => TxnTraceIO.handle rest
  | "c10" :: rest => SafeIO.handle rest
  | "c06" :: rest => MembershipIO.handle rest <|> GroupSys.handle rest
  | "c19" :: rest => Shutdown.handle rest
  | _ => none

partial def loop (h : IO.FS.Stream) (out : IO.FS.Stream) : IO Unit := do
  let line ← h.getLine
  if line.isEmpty then return ()
  let toks := (line.trimAscii.toString.splitOn " ").filter (· ≠ "")
  match dispatch toks with
  | some s => out.putStrLn s
  | none => out.putStrLn "bad-op"
  loop h out

def main : IO Unit := do
  let out ← IO.getStdout
  loop (← IO.getStdin) out
  out.flush
