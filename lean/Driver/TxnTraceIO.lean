import AkVerif.Model.TxnTrace
import Driver.TxnIO
/-! line protocol for the transaction trace acceptor (C07): `c07 trace <ev,ev,...>` -/
namespace AkVerif.TxnTraceIO
open AkVerif.Txn AkVerif.Util

def nat2 (s : String) : Option (Nat × Nat) :=
  match s.splitOn "." with
  | [a, b] => do some (← a.toNat?, ← b.toNat?)
  | _ => none

def nat3 (s : String) : Option (Nat × Nat × Nat) :=
  match s.splitOn "." with
  | [a, b, c] => do some (← a.toNat?, ← b.toNat?, ← c.toNat?)
  | _ => none

def natRes (s : String) : Option (Nat × Bool) :=
  match s.splitOn "." with
  | [a, "c"] => a.toNat?.map (·, true)
  | [a, "a"] => a.toNat?.map (·, false)
  | _ => none

def parseEv (s : String) : Option Ev :=
  match s.toList with
  | ['F'] => some .fence
  | 'I' :: r => (String.ofList r).toNat?.map .init
  | 'R' :: r => (nat2 (String.ofList r)).map fun (i, p) => .regOk i p
  | 'G' :: r => (String.ofList r).toNat?.map .grpOk
  | 'S' :: r => (nat2 (String.ofList r)).map fun (i, o) => .offStored i o
  | 'A' :: r => (nat3 (String.ofList r)).map fun (i, p, x) => .append i p x
  | 'N' :: r => (nat3 (String.ofList r)).map fun (i, p, x) => .appendPlain i p x
  | 'E' :: r => (natRes (String.ofList r)).map fun (i, c) => .ended i c
  | 'P' :: r => (nat2 (String.ofList r)).map fun (i, p) => .produceReq i p
  | 'K' :: r => (nat2 (String.ofList r)).map fun (i, p) => .regAck i p
  | 'D' :: r => (nat2 (String.ofList r)).map fun (i, p) => .produceSend i p
  | 'Q' :: r => (natRes (String.ofList r)).map fun (i, c) => .endReq i c
  | 'b' :: r => (String.ofList r).toNat?.map .begin
  | 'a' :: 'o' :: r => (String.ofList r).toNat?.map .abortOk
  | 'a' :: r => (nat3 (String.ofList r)).map fun (i, x, p) => .accept i x p
  | 'k' :: r => (nat2 (String.ofList r)).map fun (i, x) => .acked i x
  | 'f' :: r => (nat2 (String.ofList r)).map fun (i, x) => .failed i x
  | 'o' :: r => (nat2 (String.ofList r)).map fun (i, o) => .offsOk i o
  | 'c' :: 'c' :: r => (String.ofList r).toNat?.map .commitCall
  | 'c' :: 'a' :: r => (String.ofList r).toNat?.map .abortCall
  | 'c' :: 'o' :: r => (String.ofList r).toNat?.map .commitOk
  | _ => none

def recs (l : List Nat) : String := TxnIO.dash (l.map toString) ","

def showT (s : TSt) : String :=
  "accepted good=" ++ recs s.appGood.reverse ++ " bad=" ++ recs s.appBad.reverse ++
  " vis0=" ++ recs (visible (s.env.logs 0)) ++ " open0=" ++ recs (undecided (s.env.logs 0)) ++
  " vis1=" ++ recs (visible (s.env.logs 1)) ++ " open1=" ++ recs (undecided (s.env.logs 1)) ++
  " vis2=" ++ recs (visible (s.env.logs 2)) ++ " open2=" ++ recs (undecided (s.env.logs 2)) ++
  " comm=" ++ TxnIO.showOpt s.env.commOff ++ " pend=" ++ TxnIO.showOpt s.env.pendOff ++
  " appoff=" ++ TxnIO.showOpt s.appOff

def handle : List String → Option String
  | ["trace", evs] => do
    let es ← if evs == "-" then some [] else (evs.splitOn ",").mapM parseEv
    match trunAt {} es 0 with
    | .ok s => some (showT s)
    | .error (n, m) => some s!"rejected {n} {m.replace " " "_"}"
  | _ => none

end AkVerif.TxnTraceIO
