import AkVerif.Model.Consume
/-!
Line protocol of the consumer models (C03, C13).  Driver glue, not part of any theorem.

    c03 fst  <guarded 0|1> <policy none|-1|-2> <nparts> <op;op;…>      → result;result;…
    c03 acc  <guarded 0|1> <policy>            <ev;ev;…>               → ok <state> | reject <i> <why>
    c03 holds <vis a,b,…|-> <obs;obs;…>                                → ok | fail <i>
    c03 unpack <f> <batches>                                           → yielded offsets | final nfo
    c13 holds <committed n|-> <policy> <obs;…>                         → ok | fail <i>

batches: `base:next:skip:r.r.r` joined by `|` (`_` = no records), `-` = no batch.
partition ops (fst: prefixed by the partition number and `@`):
    R<f>=D<batches> | R<f>=L | R<f>=O | R<f>=X     fetch answer for offset f
    G   A<max>   K     getone / getall / check_raise
    S<x>   T<strategy>   P   U   Z               seek / seek_to_* / pause / resume / unassign
    C<v|->   L<sent>@<off>                       committed offset / ListOffsets answer
fetcher ops: N<filter>  M<max>:<filter>  Q<tp>  (filter: `*` or tp.tp.…)
acc events: <pos|->,<strategy|->,<paused 0|1>,<buf -|r<nfo>|e<code>>~<op>~<observed result>
observed results: `-` nothing to compare, `n` None/[], `o<k>`, `m<k.k.…>`, `r<code>`, `a` assertion
-/
namespace AkVerif.ConsumeIO
open AkVerif.Consume AkVerif.Util

def sepNats (sep : String) (s : String) : Option (List Nat) :=
  if s == "_" || s == "-" || s == "" then some [] else (s.splitOn sep).mapM (·.toNat?)

def parseBatch (s : String) : Option Batch :=
  match s.splitOn ":" with
  | [b, n, k, r] => do
    let b ← b.toNat?
    let n ← n.toNat?
    let r ← sepNats "." r
    some { base := b, next := n, skip := k == "1", recs := r }
  | _ => none

def parseBatches (s : String) : Option (List Batch) :=
  if s == "-" || s == "" then some [] else (s.splitOn "|").mapM parseBatch

def parsePolicy (s : String) : Option (Option Int) :=
  if s == "none" then some none else s.toInt?.map some

def parseOptNat (s : String) : Option (Option Nat) :=
  if s == "-" then some none else s.toNat?.map some

def parseOptInt (s : String) : Option (Option Int) :=
  if s == "-" then some none else s.toInt?.map some

def parseReply (s : String) : Option Reply :=
  match s.toList with
  | 'D' :: r => (parseBatches (String.ofList r)).map Reply.data
  | ['L'] => some Reply.tooLarge
  | ['O'] => some Reply.outOfRange
  | ['X'] => some Reply.otherError
  | _ => none

def parseOp (s : String) : Option Op :=
  match s.toList with
  | 'R' :: r =>
    match (String.ofList r).splitOn "=" with
    | [f, rp] => do
      let f ← f.toNat?
      let rp ← parseReply rp
      some (Op.reply f rp)
    | _ => none
  | ['G'] => some Op.getone
  | 'A' :: r => (String.ofList r).toNat?.map Op.getall
  | ['K'] => some Op.raise
  | 'S' :: r => (String.ofList r).toNat?.map Op.seek
  | 'T' :: r => (String.ofList r).toInt?.map Op.seekTo
  | ['P'] => some Op.pause
  | ['U'] => some Op.resume
  | ['Z'] => some Op.unassign
  | 'C' :: r => (parseOptNat (String.ofList r)).map Op.committed
  | 'L' :: r =>
    match (String.ofList r).splitOn "@" with
    | [a, b] => do
      let a ← a.toInt?
      let b ← b.toNat?
      some (Op.offsets a b)
    | _ => none
  | _ => none

def parseFilter (s : String) : Option (List Nat) :=
  if s == "*" then some [] else sepNats "." s

def parseFOp (s : String) : Option FOp :=
  match s.toList with
  | 'N' :: r => (parseFilter (String.ofList r)).map FOp.next
  | 'M' :: r =>
    match (String.ofList r).splitOn ":" with
    | [m, f] => do
      let m ← m.toNat?
      let f ← parseFilter f
      some (FOp.many f m)
    | _ => none
  | 'Q' :: r => (String.ofList r).toNat?.map FOp.position
  | _ =>
    match s.splitOn "@" with
    | tp :: rest => do
      let tp ← tp.toNat?
      let op ← parseOp ("@".intercalate rest)
      some (FOp.part tp op)
    | _ => none

def showOptNat : Option Nat → String
  | none => "-"
  | some n => toString n

def showOptInt : Option Int → String
  | none => "-"
  | some n => toString n

def showBuf : Option Entry → String
  | none => "-"
  | some (Entry.res g) => s!"r{g.nfo}"
  | some (Entry.err c) => s!"e{c}"

def showPSt (s : PSt) : String :=
  s!"{showOptNat s.pos},{showOptInt s.strat},{if s.paused then 1 else 0},{showBuf s.buf}"

def showRes : Res → String
  | Res.unit => "-"
  | Res.nothing => "n"
  | Res.one o => s!"o{o}"
  | Res.many l => "m" ++ ".".intercalate (l.map toString)
  | Res.raised c => s!"r{c}"
  | Res.assertion => "a"

def runF (g : Bool) (policy : Option Int) : FSt → List FOp → List String → List String
  | _, [], acc => acc.reverse
  | st, op :: r, acc => let x := fstep g policy st op; runF g policy x.1 r (x.2 :: acc)

/-- acceptor: the model state must equal the snapshot taken before each event, and the model's
    result must equal the observed one -/
def accLoop (g : Bool) (policy : Option Int) : PSt → List String → Nat → String
  | s, [], _ => "ok " ++ showPSt s
  | s, e :: r, i =>
    match e.splitOn "~" with
    | [pre, op, obs] =>
      if pre != "*" && showPSt s != pre then s!"reject {i} state model={showPSt s} impl={pre} before {op}"
      else if op == "F" then accLoop g policy s r (i + 1)
      else match parseOp op with
        | none => s!"bad-event {i}"
        | some o =>
          let x := step g policy s o
          if obs != "-" && showRes x.2 != obs then
            s!"reject {i} result model={showRes x.2} impl={obs} at {op} state={showPSt s}"
          else accLoop g policy x.1 r (i + 1)
    | _ => s!"bad-event {i}"

def parseObs (s : String) : Option Obs :=
  match s.toList with
  | 's' :: r => (String.ofList r).toNat?.map Obs.start
  | 'k' :: r => (String.ofList r).toNat?.map Obs.seek
  | ['i'] => some Obs.invalidate
  | 'd' :: r => (String.ofList r).toNat?.map Obs.deliver
  | 'D' :: r => (String.ofList r).toNat?.map Obs.filtered
  | 'p' :: r => (String.ofList r).toNat?.map Obs.position
  | ['P'] => some Obs.pause
  | ['U'] => some Obs.resume
  | _ => none

def parseObs13 (s : String) : Option Obs13 :=
  match s.toList with
  | ['A'] => some Obs13.assigned
  | 'b' :: r =>
    match (String.ofList r).splitOn "@" with
    | [a, b] => do
      let a ← a.toInt?
      let b ← b.toNat?
      some (Obs13.report a b)
    | _ => none
  | 'k' :: r => (String.ofList r).toNat?.map Obs13.seek
  | 't' :: r => (String.ofList r).toInt?.map Obs13.seekTo
  | ['o'] => some Obs13.outOfRange
  | 'v' :: r => (String.ofList r).toNat?.map Obs13.valid
  | 'e' :: r => (String.ofList r).toNat?.map Obs13.error
  | 'p' :: r => (String.ofList r).toNat?.map Obs13.position
  | _ => none

def splitEvents (s : String) : List String := if s == "-" then [] else s.splitOn ";"

def handle : List String → Option String
  | ["fst", g, policy, n, ops] => do
    let policy ← parsePolicy policy
    let n ← n.toNat?
    let ops ← (splitEvents ops).mapM parseFOp
    let st : FSt := { parts := List.replicate n {}, order := [] }
    some (";".intercalate (runF (g == "1") policy st ops []))
  | ["acc", g, policy, evs] => do
    let policy ← parsePolicy policy
    some (accLoop (g == "1") policy {} (splitEvents evs) 0)
  | ["holds", vis, obs] => do
    let vis ← parseNatList vis
    let obs ← (splitEvents obs).mapM parseObs
    some (match failsAt vis {} obs 0 with | none => "ok" | some i => s!"fail {i}")
  | ["unpack", f, bs] => do
    let f ← f.toNat?
    let bs ← parseBatches bs
    let d := drain f (items bs)
    some (showList d.1 ++ " " ++ toString d.2)
  | _ => none

def handle13 : List String → Option String
  | ["holds", committed, policy, obs] => do
    let committed ← parseOptNat committed
    let policy ← parsePolicy policy
    let obs ← (splitEvents obs).mapM parseObs13
    some (match failsAt13 committed policy {} obs 0 with | none => "ok" | some i => s!"fail {i}")
  | _ => none

end AkVerif.ConsumeIO
