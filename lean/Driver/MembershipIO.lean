import AkVerif.Model.Membership
/-! line protocol for the group-member acceptor (C06, closing phase of C19) -/
namespace AkVerif.MembershipIO
open AkVerif.Membership AkVerif.Util

def parseApi : String → Option Api
  | "F" => some .findCoord | "J" => some .join | "Y" => some .sync | "H" => some .heartbeat
  | "L" => some .leave | "C" => some .commit | "O" => some .offsetFetch
  | _ => none

def parseProtos (s : String) : List String := if s == "-" then [] else s.splitOn ","

/-- `S<id>:<api>:<node>:<gen>:<mid>:<protos>`, `R<id>:x|c`, `R<id>:k:<codes>`, `R<id>:j:<gen>:<mid>`,
    `R<id>:m:<mid>`, `R<id>:f:<node>`, `U`, `M`, `Z`, `z` -/
def parseEv (s : String) : Option Ev :=
  match s.splitOn ":" with
  | ["U"] => some .subChange
  | ["M"] => some .mdChange
  | ["Z"] => some .stopCalled
  | ["z"] => some .stopReturned
  | ["I"] => some .pollIdle
  | ["P"] => some .userCommit
  | [sid, api, node, gen, mid, protos] => do
    if !sid.startsWith "S" then none
    let id ← (sid.drop 1).toNat?
    let a ← parseApi api
    let n ← node.toInt?
    let g ← gen.toInt?
    let m ← mid.toNat?
    some (.send id { api := a, node := n, gen := g, mid := m, protos := parseProtos protos })
  | rid :: rest =>
    if !rid.startsWith "R" then none else do
    let id ← (rid.drop 1).toNat?
    match rest with
    | ["x"] => some (.recv id .exc)
    | ["c"] => some (.recv id .cancelled)
    | ["k", cs] => do some (.recv id (.codes (← parseNatList cs)))
    | ["j", g, m] => do some (.recv id (.joined (← g.toInt?) (← m.toNat?)))
    | ["m", m] => do some (.recv id (.memberId (← m.toNat?)))
    | ["f", n] => do some (.recv id (.coordinator (← n.toInt?)))
    | _ => none
  | _ => none

def showCore (c : Core) : String :=
  s!"mid={c.mid},gen={c.gen},coord={match c.coord with | some n => toString n | none => "none"}" ++
  s!",need={c.noAssign || c.rejoinFut},closing={c.closing},left={c.leaveSent}"

/-- `run <cfg> <events>` → `accept n=<states> A=<joinAll> B=<joinThenSync> [first state]` or
    `reject@<index> A=… B=…` -/
def handle : List String → Option String
  | ["run", cfg, evs] => do
    let cfg := parseProtos cfg
    let tr ← if evs == "-" then some [] else (evs.splitOn ";").mapM parseEv
    let a := joinAllB cfg tr
    let b := joinThenSyncB {} tr
    let init : Core := {}
    match firstReject cfg [init] tr 0 with
    | some i => some s!"reject@{i} A={a} B={b}"
    | none =>
      let fin := tr.foldl (stepSet cfg) [init]
      some s!"accept n={fin.length} A={a} B={b} {match fin with | c :: _ => showCore c | [] => "-"}"
  | _ => none

end AkVerif.MembershipIO
