import AkVerif.Model.Scram
import AkVerif.Model.Util
/-!
Line protocol for the SCRAM client model (C18).

The driver runs the model `AkVerif.Scram` in the *free term algebra* of the crypto signature: byte
strings are symbolic terms (`Term`), so the output shows how the model composes `H`, `HMAC`, `Hi`,
XOR and base64 — e.g. the client proof is
`X(M(I(U(pw);D(salt64);4096);U("Client Key"));M(H(M(…));U(auth)))`.
The harness evaluates these terms with `hashlib` / `hmac` / `base64` (the homomorphism from the
term algebra to the real crypto) and compares bytes with the real `ScramAuthenticator`.
The only two places where the model inspects an abstract value are resolved as follows:
* definedness of `b64dec s` comes from the line (`bad` = the strings on which CPython's
  `base64.b64decode` raises);
* the final comparison `sig = serverSig` is printed as `check:<got>:<expected>` and decided by the
  harness on the evaluated bytes.

`run <user> <pw> <cnonce> <server-first> <server-final> <bad>` (hex of UTF-8, `-` = empty; `bad` =
comma separated hex strings or `-`) prints
`<client-first hex> <abort:reason | ok:<client-final hex>:<auth hex>:<sig term>:<proof term>>
 <- | abort:reason | check:<got term>:<expected term>>`.
`holds <cnonce> <server-first> <aborted1> <completed> <sigOk>` evaluates `Scram.holds`.
-/
namespace AkVerif.ScramIO
open AkVerif.Scram AkVerif.Util

inductive Term
  | utf8 (s : Str)
  | H (a : Term)
  | hmac (k m : Term)
  | hi (p s : Term) (i : Nat)
  | xor (a b : Term)
  | b64d (s : Str)
deriving DecidableEq

def strBytes (s : Str) : List Nat := (String.ofList s).toUTF8.toList.map (·.toNat)

def hexOf (s : Str) : String := toHex (strBytes s)

def Term.render : Term → String
  | .utf8 s => "U(" ++ hexOf s ++ ")"
  | .H a => "H(" ++ a.render ++ ")"
  | .hmac k m => "M(" ++ k.render ++ ";" ++ m.render ++ ")"
  | .hi p s i => "I(" ++ p.render ++ ";" ++ s.render ++ ";" ++ toString i ++ ")"
  | .xor a b => "X(" ++ a.render ++ ";" ++ b.render ++ ")"
  | .b64d s => "D(" ++ hexOf s ++ ")"

/-- free term algebra; `b64enc t` is the placeholder `\x01 <term> \x02` inside the message text -/
def termCrypto (bad : List Str) : Crypto Term :=
  { utf8 := .utf8, H := .H, hmac := .hmac, hi := .hi, xor := .xor,
    b64enc := fun t => Char.ofNat 1 :: (t.render.toList ++ [Char.ofNat 2]),
    b64dec := fun s => if bad.contains s then none else some (.b64d s) }

def parseStr (tok : String) : Option Str := do
  let bs ← parseHex tok
  if bs.any (· ≥ 256) then none
  let s ← String.fromUTF8? (ByteArray.mk (bs.map (·.toUInt8)).toArray)
  some s.toList

def showAbort : Abort → String
  | .badPair => "badpair"
  | .missing k => "missing-" ++ String.singleton k
  | .nonce => "nonce"
  | .b64 => "b64"
  | .int => "int"
  | .iter => "iter"
  | .signature => "signature"

def parseBool : String → Option Bool
  | "1" => some true
  | "0" => some false
  | _ => none

def handle : List String → Option String
  | ["run", user, pw, cn, sf, sfin, bad] => do
    let user ← parseStr user
    let pw ← parseStr pw
    let cn ← parseStr cn
    let bad ← if bad == "-" then some [] else (bad.splitOn ",").mapM parseStr
    let C := termCrypto bad
    let (st1, m1) := start C user pw cn
    let first := hexOf m1
    -- a server message that is not valid UTF-8 makes `.decode("utf-8")` raise inside the
    -- generator before any modelled function runs
    match parseStr sf with
    | none => some s!"{first} abort:utf8 -"
    | some sf =>
      match onServerFirst C st1 sf with
      | .error e => some s!"{first} abort:{showAbort e} -"
      | .ok (st2, m2) =>
        let mid := s!"ok:{hexOf m2}:{hexOf st2.auth}:{st2.serverSig.render}:{st2.proof.render}"
        match parseStr sfin with
        | none => some s!"{first} {mid} abort:utf8"
        | some sfin =>
          match sentSignature C sfin with
          | .error e => some s!"{first} {mid} abort:{showAbort e}"
          | .ok sig => some s!"{first} {mid} check:{sig.render}:{st2.serverSig.render}"
  | ["holds", cn, sf, a1, comp, sigok] => do
    let cn ← parseStr cn
    let sf ← parseStr sf
    let a1 ← parseBool a1
    let comp ← parseBool comp
    let sigok ← parseBool sigok
    some (toString (holds { cnonce := cn, sf, aborted1 := a1, completed := comp, sigOk := sigok }))
  | ["natdec", n] => do
    let n ← n.toNat?
    some (String.ofList (natDec n))
  | ["pyint", s] => do
    let s ← parseStr s
    match pyInt s with
    | none => some "none"
    | some i => some (toString i)
  | _ => none

end AkVerif.ScramIO
