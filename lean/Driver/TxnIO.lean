import AkVerif.Model.Txn
import AkVerif.Model.Util
/-! line protocol for the transactional API automaton (C16 / C07): `c16 run <fault> <calls>` -/
namespace AkVerif.TxnIO
open AkVerif.Txn AkVerif.Util

def parseApi : String → Option Api
  | "AP" => some .addParts | "AO" => some .addOffs | "OC" => some .offsCommit
  | "ET" => some .endTxn | "PR" => some .produce | _ => none

def parseKind : String → Option FKind
  | "retr" => some .retr | "lost" => some .lost | "abrt" => some .abrt | "fatal" => some .fatal
  | _ => none

def parseFault (s : String) : Option (Option Fault) :=
  if s == "-" then some none else
  match s.splitOn ":" with
  | [a, n, k] => do
    let a ← parseApi a
    let n ← n.toNat?
    let k ← parseKind k
    some (some { api := a, nth := n, kind := k })
  | _ => none

def parseCall : String → Option Call
  | "b" => some .begin | "s0" => some (.send 0) | "s1" => some (.send 1) | "o" => some .sendOffsets
  | "c" => some .commit | "a" => some .abort | "x" => some .exitOk | "e" => some .exitExc
  | "r" => some .restart | _ => none

def showCode : Code → String
  | .ok => "ok" | .retr => "retr" | .lost => "lost" | .abrt => "abrt" | .fatal => "fatal"

def showReq : Req → String
  | .addParts p c => s!"AP{p}:{showCode c}"
  | .addOffs c => s!"AO:{showCode c}"
  | .offsCommit o c => s!"OC{o}:{showCode c}"
  | .endTxn true c => s!"ETc:{showCode c}"
  | .endTxn false c => s!"ETa:{showCode c}"
  | .produce p r c => s!"PR{p}.r{r}:{showCode c}"
  | .init => "IN:ok"

def showRes : Res → String
  | .ok => "ok" | .refused => "refused" | .abrt => "abrt" | .fatal => "fatal" | .dead => "dead"

def showFRes : FRes → String
  | .ok => "ok" | .abrt => "abrt" | .fatal => "fatal" | .failed => "failed"

def showSt : TState → String
  | .ready => "ready" | .inTxn => "inTxn" | .abortable => "abortable" | .fatal => "fatal"
  | .uninit => "uninit" | .committing => "committing" | .aborting => "aborting"

def dash (xs : List String) (sep : String) : String :=
  if xs.isEmpty then "-" else sep.intercalate xs

def showOpt : Option Nat → String
  | some n => toString n | none => "-"

def showSys (s : Sys) : String :=
  let recs := fun (l : List Nat) => dash (l.map fun r => s!"r{r}") ","
  "res=" ++ dash (s.res.reverse.map showRes) "," ++
  " reqs=" ++ dash (s.reqs.reverse.map showReq) ";" ++
  " futs=" ++ dash (s.futs.reverse.map fun (r, o) => s!"r{r}:{showFRes o}") "," ++
  " st=" ++ showSt s.st ++
  " vis0=" ++ recs (visible (s.env.logs 0)) ++ " open0=" ++ recs (undecided (s.env.logs 0)) ++
  " vis1=" ++ recs (visible (s.env.logs 1)) ++ " open1=" ++ recs (undecided (s.env.logs 1)) ++
  " comm=" ++ showOpt s.env.commOff ++ " pend=" ++ showOpt s.env.pendOff

def parseCode : String → Option Code
  | "ok" => some .ok | "retr" => some .retr | "lost" => some .lost | "abrt" => some .abrt
  | "fatal" => some .fatal | _ => none

def parseReq (s : String) : Option Req :=
  match s.splitOn ":" with
  | [h, c] => do
    let c ← parseCode c
    match h.toList with
    | ['I', 'N'] => some .init
    | ['A', 'O'] => some (.addOffs c)
    | 'A' :: 'P' :: n => (String.ofList n).toNat?.map (.addParts · c)
    | 'O' :: 'C' :: n => (String.ofList n).toNat?.map (.offsCommit · c)
    | ['E', 'T', 'c'] => some (.endTxn true c)
    | ['E', 'T', 'a'] => some (.endTxn false c)
    | 'P' :: 'R' :: rest =>
      match (String.ofList rest).splitOn ".r" with
      | [p, r] => do
        let p ← p.toNat?
        let r ← r.toNat?
        some (.produce p r c)
      | _ => none
    | _ => none
  | _ => none

def handle : List String → Option String
  | ["order", reqs] => do
    -- oldest first on the wire; the model's log is newest first
    let rs ← if reqs == "-" then some [] else (reqs.splitOn ";").mapM parseReq
    some (if orderOk rs.reverse then "order-ok" else "order-violated")
  | ["run", f, calls] => do
    let f ← parseFault f
    let cs ← if calls == "-" then some [] else (calls.splitOn ",").mapM parseCall
    some (showSys (run (init f) cs))
  | _ => none

end AkVerif.TxnIO
